"""Arguments of a user's own class.

The library's graph and formula classes are open: `CompleteBipartiteGraph` is itself a `BipartiteGraph` whose edges are
computed instead of stored, families take `formula_class=...`, and every reader of a graph or formula is expected to
go through the public methods.  The classes below are such user classes: they override the public accessors
consistently and keep their data in attributes of their own, so the tables inherited from the library class stay empty
(or hold something else).  Code that reaches into the private tables instead of asking the object sees another graph /
formula than the one the object presents.

Each maker returns an object together with the plain description the reference models use."""


def computed_graph(n, E, name=None):
    """A cnfgen `Graph` on n vertices whose edges E are answered from the subclass's own set (read-only)."""
    import cnfgen.graphs as g

    class _Edges:
        def __init__(self, G):
            self.G = G

        def __len__(self):
            return len(self.G._own)

        def __contains__(self, t):
            return len(t) == 2 and self.G.has_edge(t[0], t[1])

        def __iter__(self):
            return iter(sorted(tuple(sorted(e)) for e in self.G._own))

    class ComputedGraph(g.Graph):
        def __init__(self, n, E, name=None):
            g.Graph.__init__(self, n, name)
            self._own = frozenset(frozenset(e) for e in E)

        def _check(self, u):
            if not (isinstance(u, int) and 1 <= u <= self.n):
                raise ValueError("vertex u not in the graph")

        def has_edge(self, u, v):
            return u != v and frozenset((u, v)) in self._own

        def add_edge(self, u, v):
            raise TypeError("this graph is a read-only view")

        def add_edges_from(self, edges):
            raise TypeError("this graph is a read-only view")

        def remove_edge(self, u, v):
            raise TypeError("this graph is a read-only view")

        def update_vertex_number(self, new_value):
            raise TypeError("this graph is a read-only view")

        def edges(self):
            return _Edges(self)

        def number_of_edges(self):
            return len(self._own)

        def neighbors(self, u):
            self._check(u)
            return iter(sorted(v for v in range(1, self.n + 1) if self.has_edge(u, v)))

        def degree(self, u):
            self._check(u)
            return sum(1 for v in range(1, self.n + 1) if self.has_edge(u, v))

    return ComputedGraph(n, E, name)


def listed(xs, key, order="sorted"):
    """The order in which a computed bipartite graph lists the neighbours xs of vertex `key`."""
    xs = sorted(xs)
    if order == "preference":
        xs = sorted(xs, key=lambda x: ((x * 7 + key * 3) % 5, -x))
    return xs


def computed_bipartite(L, R, E, order="sorted", base="BipartiteGraph", name=None):
    """A bipartite graph in the style of the library's own CompleteBipartiteGraph: edges E = {(u, v)} answered by
    overridden public methods.  order='sorted' lists neighbours increasingly (what BipartiteGraph documents),
    'preference' lists the right neighbours of a left vertex in another fixed order (allowed for a direct subclass of
    BaseBipartiteGraph only; the left neighbours of a right vertex stay increasing)."""
    import cnfgen.graphs as g
    parent = g.BipartiteGraph if base == "BipartiteGraph" else g.BaseBipartiteGraph

    class ComputedBipartite(parent):
        def __init__(self, L, R, E, name=None):
            if parent is g.BipartiteGraph:
                g.BipartiteGraph.__init__(self, L, R, name)
            else:
                g.BaseBipartiteGraph.__init__(self, L, R, name)
            self._own = frozenset((u, v) for u, v in E)

        def has_edge(self, u, v):
            return (u, v) in self._own

        def add_edge(self, u, v):
            pass

        def number_of_edges(self):
            return len(self._own)

        def _listed(self, xs, key):
            return listed(xs, key, order)

        def right_neighbors(self, u):
            if not (1 <= u <= self.lorder):
                raise ValueError("Invalid choice of vertex")
            out = self._listed([v for v in range(1, self.rorder + 1) if (u, v) in self._own], u)
            if order == "generator":
                return (v for v in out)         # a one-shot iterator, as a method written with `yield` gives
            return out

        def left_neighbors(self, v):
            if not (1 <= v <= self.rorder):
                raise ValueError("Invalid choice of vertex")
            return sorted(u for u in range(1, self.lorder + 1) if (u, v) in self._own)

    return ComputedBipartite(L, R, E, name)


def range_bipartite(L, R, kind="parity", name=None):
    """A bipartite graph of a user class written like the library's CompleteBipartiteGraph -- neighbourhoods are
    `range` objects computed on demand -- but not complete: kind 'parity' joins u to the right vertices of u's parity
    (an increasing range with step 2), 'descending' joins u to all of them listed downwards (range(R, 0, -1)),
    'window' joins u to u..min(u+2, R) (a unit range that does not start at 1).  Returns (graph, edge list)."""
    import cnfgen.graphs as g

    def rn(u):
        if kind == "parity":
            return range(2 - u % 2, R + 1, 2)
        if kind == "descending":
            return range(R, 0, -1)
        return range(min(u, R + 1), min(u + 2, R) + 1)

    class RangeBipartite(g.BaseBipartiteGraph):
        def __init__(self, L, R, name=None):
            g.BaseBipartiteGraph.__init__(self, L, R, name)

        def has_edge(self, u, v):
            return 1 <= u <= self.lorder and v in rn(u)

        def add_edge(self, u, v):
            pass

        def number_of_edges(self):
            return sum(len(rn(u)) for u in range(1, self.lorder + 1))

        def right_neighbors(self, u):
            if not (1 <= u <= self.lorder):
                raise ValueError("Invalid choice of vertex")
            return rn(u)

        def left_neighbors(self, v):
            if not (1 <= v <= self.rorder):
                raise ValueError("Invalid choice of vertex")
            return [u for u in range(1, self.lorder + 1) if v in rn(u)]

    B = RangeBipartite(L, R, name)
    return B, [(u, v) for u in range(1, L + 1) for v in rn(u)]


def computed_dag(n, E, name=None):
    """A DirectedGraph whose edges (u -> v, u < v) are answered by overridden public methods."""
    import cnfgen.graphs as g

    class _Edges:
        def __init__(self, D, by_pred):
            self.D, self.by_pred = D, by_pred

        def __len__(self):
            return len(self.D._own)

        def __contains__(self, t):
            return len(t) == 2 and self.D.has_edge(t[0], t[1])

        def __iter__(self):
            return iter(sorted(self.D._own) if self.by_pred else sorted(self.D._own, key=lambda e: (e[1], e[0])))

    class ComputedDAG(g.DirectedGraph):
        def __init__(self, n, E, name=None):
            if name is None:
                g.DirectedGraph.__init__(self, n)
            else:
                g.DirectedGraph.__init__(self, n, name)
            self._own = frozenset((u, v) for u, v in E)

        def _check(self, u):
            if not (isinstance(u, int) and 1 <= u <= self.n):
                raise ValueError("vertex u not in the graph")

        def is_dag(self):
            return all(u < v for u, v in self._own)

        def has_edge(self, src, dest):
            return (src, dest) in self._own

        def add_edge(self, src, dest):
            raise TypeError("this graph is a read-only view")

        def edges(self):
            return _Edges(self, True)

        def edges_ordered_by_successors(self):
            return _Edges(self, False)

        def number_of_edges(self):
            return len(self._own)

        def predecessors(self, u):
            self._check(u)
            return sorted(a for (a, b) in self._own if b == u)

        def successors(self, u):
            self._check(u)
            return sorted(b for (a, b) in self._own if a == u)

        def in_degree(self, u):
            return len(self.predecessors(u))

        def out_degree(self, v):
            return len(self.successors(v))

    return ComputedDAG(n, E, name)


def view_cnf(n, shown, stored=None):
    """A CNF that *presents* the clauses `shown` through the sequence protocol (len, iteration, indexing,
    number_of_clauses, clauses()) while its inherited clause table holds `stored` (default: shown plus repetitions,
    as for a formula that hides duplicates)."""
    from cnfgen.formula.cnf import CNF

    class ViewCNF(CNF):
        def __init__(self, n, shown, stored):
            CNF.__init__(self)
            self.update_variable_number(n)
            for c in stored:
                CNF.add_clause(self, list(c))
            self._shown = [tuple(c) for c in shown]

        def __len__(self):
            return len(self._shown)

        def __iter__(self):
            return iter([list(c) for c in self._shown])

        def __getitem__(self, idx):
            return list(self._shown[idx])

        def number_of_clauses(self):
            return len(self._shown)

        def clauses(self):
            return iter([list(c) for c in self._shown])

    if stored is None:
        stored = list(shown) + list(shown[:1]) + list(shown[-1:])
    return ViewCNF(n, shown, stored)


def reserving_class(base, reserve, with_clause=True):
    """A formula class whose constructor already owns `reserve` variables (say, a constant-true variable and some
    assumptions) before a family starts allocating its own."""

    class Reserving(base):
        RESERVED = reserve

        def __init__(self, *args, **kw):
            base.__init__(self, *args, **kw)
            for i in range(reserve):
                self.new_variable("own_%d" % (i + 1))
            if with_clause and reserve:
                self.add_clause([1])

    Reserving.__name__ = "Reserving" + base.__name__
    return Reserving


def view_opb(n, shown, stored=None):
    """An OPB formula that presents the constraints `shown` ([(coefficient, literal), ..., op, degree] with op '>=' or
    '==') through the sequence protocol while its inherited table holds `stored`."""
    from cnfgen.formula.opb import OPB

    class ViewOPB(OPB):
        def __init__(self, n, shown, stored):
            OPB.__init__(self)
            self.update_variable_number(n)
            for c in stored:
                OPB.add_constraint(self, list(c))
            self._shown = [list(c) for c in shown]

        def __len__(self):
            return len(self._shown)

        def __iter__(self):
            return iter([list(c) for c in self._shown])

        def __getitem__(self, idx):
            return list(self._shown[idx])

        def number_of_constraints(self):
            return len(self._shown)

        def constraints(self):
            return iter([list(c) for c in self._shown])

    if stored is None:
        stored = list(shown) + list(shown[:1])
    return ViewOPB(n, shown, stored)


def table_class(base):
    """A CNF class of the user's that keeps the clauses it is given in a table of its own: add_clause is overridden, and
    so are the accessors that present the clauses.  A family built into such a class must deliver all its clauses
    through these methods."""

    class Table(base):
        def __init__(self, *args, **kw):
            self._own_rows = []
            base.__init__(self, *args, **kw)

        def add_clause(self, clause, check=True):
            clause = list(clause)
            if check:
                self._check_and_update(clause)
            self._own_rows.append(clause)

        def number_of_clauses(self):
            return len(self._own_rows)

        def clauses(self):
            return iter([list(c) for c in self._own_rows])

        def __len__(self):
            return len(self._own_rows)

        def __iter__(self):
            return iter([list(c) for c in self._own_rows])

        def __getitem__(self, idx):
            return list(self._own_rows[idx])

    Table.__name__ = "Table" + base.__name__
    return Table


def table_opb_class(base=None):
    """An OPB class of the user's that keeps what it is given in a table of its own: add_clause and add_constraint are
    overridden (the latter normalises as the library's does), and so are the accessors that present the constraints."""
    from cnfgen.formula.opb import OPB
    from cnfgen.formula.baseopb import normalize_opb
    base = base or OPB

    class TableOPB(base):
        def __init__(self, *args, **kw):
            self._own_rows = []
            base.__init__(self, *args, **kw)

        def add_clause(self, clause, check=True):
            row = [(1, l) for l in clause] + [">=", 1]
            if check:
                self._check_and_update(row)
            self._own_rows.append(row)

        def add_constraint(self, constraint, check=True):
            row = normalize_opb(list(constraint))
            if check:
                self._check_and_update(row)
            self._own_rows.append(row)

        def number_of_constraints(self):
            return len(self._own_rows)

        def constraints(self):
            return iter([list(c) for c in self._own_rows])

        def __len__(self):
            return len(self._own_rows)

        def __iter__(self):
            return iter([list(c) for c in self._own_rows])

        def __getitem__(self, idx):
            return list(self._own_rows[idx])

    TableOPB.__name__ = "Table" + base.__name__
    return TableOPB

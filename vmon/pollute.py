"""State-leak adversary.

A formula must depend on the arguments of the call that builds it, never on what some earlier call in the
same process did to an object it got from the library.  This module plays the earlier caller: it asks
every graph factory of the library (and the command line's graph-spec builder) for objects of the sizes
the workloads use and then edits those objects in place through their public mutators -- removes and
adds edges, grows the vertex set, renames.  On a library that hands out fresh objects this is a no-op
for everybody else; on one that memoises a factory, or keeps a per-object memo that survives an edit,
every reference comparison made afterwards in the same process disagrees.

`wreck(ctx)` is cheap (a few milliseconds) and is meant to run before every case (BEFORE_CASE in a
property module); `rewire(G, r)` is the in-place edit used by graph-history workloads."""
import random


def _wreck_simple(G, r):
    n = G.number_of_vertices()
    edges = list(G.edges())
    r.shuffle(edges)
    for (u, v) in edges[: max(1, len(edges) // 2)]:
        G.remove_edge(u, v)
    if n >= 2:
        for _ in range(3):
            u, v = r.sample(range(1, n + 1), 2)
            G.add_edge(u, v)
    G.update_vertex_number(n + 2)
    G.add_edge(n + 1, n + 2)
    if n >= 1:
        G.add_edge(1, n + 2)
    G.name = "wrecked " + str(G.name)


def _wreck_directed(D, r):
    n = D.number_of_vertices()
    if n >= 2:
        for _ in range(4):
            u, v = sorted(r.sample(range(1, n + 1), 2))
            D.add_edge(u, v)
    D.name = "wrecked " + str(D.name)


def _wreck_bipartite(B, r):
    L, R = B.left_order(), B.right_order()
    if L >= 1 and R >= 1:
        for _ in range(4):
            try:
                B.add_edge(r.randint(1, L), r.randint(1, R))
            except Exception:
                pass
    B.name = "wrecked " + str(B.name)


def wreck(ctx=None, sizes=range(0, 13), seed=0):
    """Obtain graphs from every factory and edit them in place.  Returns the number of objects edited."""
    import cnfgen.graphs as g
    r = random.Random("wreck-%d" % seed)
    state = random.getstate()                 # the adversary must not disturb the global generator either
    done = 0
    try:
        for n in sizes:
            for fac in (g.Graph.complete_graph, g.Graph.empty_graph, g.Graph.star_graph):
                try:
                    G = fac(n)
                except Exception:
                    continue
                _wreck_simple(G, r)
                done += 1
            for fac in (g.dag_path, g.dag_pyramid, g.dag_complete_binary_tree):
                if fac is not g.dag_path and n > 4:
                    continue
                try:
                    D = fac(n)
                except Exception:
                    continue
                _wreck_directed(D, r)
                done += 1
            for m in (n, n + 1, max(1, n - 1)):
                try:
                    B = g.bipartite_shift(n, m, [0]) if n >= 1 else None
                except Exception:
                    B = None
                if B is not None:
                    _wreck_bipartite(B, r)
                    done += 1
        try:
            from cnfgen.clitools.graph_args import make_graph_from_spec
            for n in (3, 4, 5, 6, 7, 8):
                G = make_graph_from_spec("simple", ["complete", str(n), "splitedges", "2"])
                done += 1
                G = make_graph_from_spec("simple", ["complete", str(n)])
                _wreck_simple(G, r)
                done += 1
                G = make_graph_from_spec("simple", ["empty", str(n), "addedges", "1"])
                done += 1
                B = make_graph_from_spec("bipartite", ["empty", str(n), str(n + 1)])
                _wreck_bipartite(B, r)
                D = make_graph_from_spec("dag", ["path", str(n)])
                _wreck_directed(D, r)
                done += 2
        except ImportError:
            pass
    finally:
        random.setstate(state)
    if ctx is not None:
        ctx.count("state_leak_adversary_objects_edited", done)
    return done


def two_switch(G, r, tries=40):
    """A degree-preserving edit of a simple Graph: replace ab, cd by ac, bd.  Keeps vertex and edge counts and
    every degree.  Returns True when an edit was made."""
    edges = list(G.edges())
    for _ in range(tries):
        if len(edges) < 2:
            return False
        (a, b), (c, d) = r.sample(edges, 2)
        if r.random() < 0.5:
            c, d = d, c
        if len({a, b, c, d}) < 4 or G.has_edge(a, c) or G.has_edge(b, d):
            continue
        G.remove_edge(a, b)
        G.remove_edge(c, d)
        G.add_edge(a, c)
        G.add_edge(b, d)
        return True
    return False


def move_edge(G, r, tries=40):
    """Remove one edge and add another: vertex and edge counts unchanged."""
    n = G.number_of_vertices()
    edges = list(G.edges())
    if not edges or n < 2:
        return False
    for _ in range(tries):
        u, v = r.sample(range(1, n + 1), 2)
        if not G.has_edge(u, v):
            a, b = r.choice(edges)
            G.remove_edge(a, b)
            G.add_edge(u, v)
            return True
    return False

"""State-leak adversary.

A formula must depend on the arguments of the call that builds it, never on what some earlier call in the
same process did to an object it got from the library.  This module plays the earlier caller: it asks
every graph factory of the library (and the command line's graph-spec builder) for objects of the sizes
the workloads use and then edits those objects in place through their public mutators -- removes and
adds edges, grows the vertex set, renames.  On a library that hands out fresh objects this is a no-op
for everybody else; on one that memoises a factory, or keeps a per-object memo that survives an edit,
every reference comparison made afterwards in the same process disagrees.

`wreck(ctx)` is cheap (a few milliseconds) and is meant to run before every case (BEFORE_CASE in a
property module); `rewire(G, r)` is the in-place edit used by graph-history workloads."""
import random


def _wreck_simple(G, r):
    n = G.number_of_vertices()
    edges = list(G.edges())
    r.shuffle(edges)
    for (u, v) in edges[: max(1, len(edges) // 2)]:
        G.remove_edge(u, v)
    if n >= 2:
        for _ in range(3):
            u, v = r.sample(range(1, n + 1), 2)
            G.add_edge(u, v)
    G.update_vertex_number(n + 2)
    G.add_edge(n + 1, n + 2)
    if n >= 1:
        G.add_edge(1, n + 2)
    G.name = "wrecked " + str(G.name)


def _wreck_directed(D, r):
    n = D.number_of_vertices()
    if n >= 2:
        for _ in range(4):
            u, v = sorted(r.sample(range(1, n + 1), 2))
            D.add_edge(u, v)
    D.name = "wrecked " + str(D.name)


def _wreck_bipartite(B, r):
    L, R = B.left_order(), B.right_order()
    if L >= 1 and R >= 1:
        for _ in range(4):
            try:
                B.add_edge(r.randint(1, L), r.randint(1, R))
            except Exception:
                pass
    B.name = "wrecked " + str(B.name)


def wreck(ctx=None, sizes=range(0, 13), seed=0):
    """Obtain graphs from every factory and edit them in place.  Returns the number of objects edited."""
    import cnfgen.graphs as g
    r = random.Random("wreck-%d" % seed)
    state = random.getstate()                 # the adversary must not disturb the global generator either
    done = 0
    try:
        for n in sizes:
            for fac in (g.Graph.complete_graph, g.Graph.empty_graph, g.Graph.star_graph):
                try:
                    G = fac(n)
                except Exception:
                    continue
                _wreck_simple(G, r)
                done += 1
            for fac in (g.dag_path, g.dag_pyramid, g.dag_complete_binary_tree):
                if fac is not g.dag_path and n > 4:
                    continue
                try:
                    D = fac(n)
                except Exception:
                    continue
                _wreck_directed(D, r)
                done += 1
            for m in (n, n + 1, max(1, n - 1)):
                try:
                    B = g.bipartite_shift(n, m, [0]) if n >= 1 else None
                except Exception:
                    B = None
                if B is not None:
                    _wreck_bipartite(B, r)
                    done += 1
        try:
            from cnfgen.clitools.graph_args import make_graph_from_spec
            for n in (3, 4, 5, 6, 7, 8):
                G = make_graph_from_spec("simple", ["complete", str(n), "splitedges", "2"])
                done += 1
                G = make_graph_from_spec("simple", ["complete", str(n)])
                _wreck_simple(G, r)
                done += 1
                G = make_graph_from_spec("simple", ["empty", str(n), "addedges", "1"])
                done += 1
                B = make_graph_from_spec("bipartite", ["empty", str(n), str(n + 1)])
                _wreck_bipartite(B, r)
                D = make_graph_from_spec("dag", ["path", str(n)])
                _wreck_directed(D, r)
                done += 2
        except ImportError:
            pass
    finally:
        random.setstate(state)
    if ctx is not None:
        ctx.count("state_leak_adversary_objects_edited", done)
    return done


def two_switch(G, r, tries=40):
    """A degree-preserving edit of a simple Graph: replace ab, cd by ac, bd.  Keeps vertex and edge counts and
    every degree.  Returns True when an edit was made."""
    edges = list(G.edges())
    for _ in range(tries):
        if len(edges) < 2:
            return False
        (a, b), (c, d) = r.sample(edges, 2)
        if r.random() < 0.5:
            c, d = d, c
        if len({a, b, c, d}) < 4 or G.has_edge(a, c) or G.has_edge(b, d):
            continue
        G.remove_edge(a, b)
        G.remove_edge(c, d)
        G.add_edge(a, c)
        G.add_edge(b, d)
        return True
    return False


def move_edge(G, r, tries=40):
    """Remove one edge and add another: vertex and edge counts unchanged."""
    n = G.number_of_vertices()
    edges = list(G.edges())
    if not edges or n < 2:
        return False
    for _ in range(tries):
        u, v = r.sample(range(1, n + 1), 2)
        if not G.has_edge(u, v):
            a, b = r.choice(edges)
            G.remove_edge(a, b)
            G.add_edge(u, v)
            return True
    return False


_AGED = [False]


def long_session(ctx=None, calls=1100):
    """An earlier life of the process: before the first case of a worker, some 1100 rounds of ordinary library use on
    distinct small inputs -- graphs of the three kinds built, normalised, converted from networkx, written and read
    back; formulas of every family; transformations; exports and imports; command lines -- with the objects dropped
    and collected in between (so that ids and addresses get reused).  For a library whose results depend on the
    arguments of the call only this is a no-op; a counter that wraps, a table that fills up, a memo keyed on id() or
    the n-th call of anything taking another path would show in every comparison made afterwards.  Runs once per
    worker (about two seconds); leaves the global random generator as it found it."""
    if _AGED[0]:
        return 0
    _AGED[0] = True
    import gc
    import io
    import warnings
    import networkx
    import cnfgen as c
    import cnfgen.graphs as g
    from cnfgen.formula.cnf import CNF
    from cnfgen.formula.opb import OPB
    r = random.Random("an earlier life")
    state = random.getstate()
    done = 0

    def attempt(fn, *a, **kw):
        nonlocal done
        try:
            out = fn(*a, **kw)
            done += 1
            return out
        except Exception:       # noqa: BLE001 - the earlier caller's own failures are its own business
            return None
    try:
        with warnings.catch_warnings():
            warnings.simplefilter("ignore")
            for i in range(calls):
                n = 2 + i % 7
                # --- graphs
                G = g.Graph(n, name="earlier %d" % i)
                for _ in range(n):
                    u, v = r.sample(range(1, n + 1), 2)
                    G.add_edge(u, v)
                B = g.BipartiteGraph(1 + i % 4, 1 + (i // 4) % 4)
                for _ in range(4):
                    B.add_edge(r.randint(1, B.left_order()), r.randint(1, B.right_order()))
                D = g.DirectedGraph(n)
                for _ in range(n):
                    u, v = sorted(r.sample(range(1, n + 1), 2))
                    D.add_edge(u, v)
                if i % 4 == 0:
                    X = networkx.gnm_random_graph(n, n, seed=i)
                    attempt(g.Graph.normalize, X)
                    attempt(g.Graph.from_networkx, X)
                if i % 5 == 0:
                    for H, kind, fmt in ((G, "simple", "kthlist"), (G, "simple", "dimacs"), (G, "simple", "gml"), (D, "dag", "kthlist"),
                                         (B, "bipartite", "matrix"), (B, "bipartite", "kthlist")):
                        buf = io.StringIO()
                        if attempt(g.writeGraph, H, buf, kind, fmt) is not None or buf.getvalue():
                            attempt(g.readGraph, io.StringIO(buf.getvalue()), kind, fmt)
                # --- formulas of the families (small parameters, all distinct over a while)
                K = CNF if i % 2 else OPB
                fam = i % 20
                F = None
                if fam == 0:
                    F = attempt(c.PigeonholePrinciple, 1 + i % 5, 1 + (i // 5) % 4, functional=bool(i & 8), onto=bool(i & 16), formula_class=K)
                elif fam == 1:
                    F = attempt(c.GraphPigeonholePrinciple, B, formula_class=K)
                elif fam == 2:
                    F = attempt(c.TseitinFormula, G, formula_class=K)
                elif fam == 3:
                    F = attempt(c.GraphColoringFormula, G, 2 + i % 3, formula_class=K)
                elif fam == 4:
                    F = attempt(c.DominatingSet, G, 1 + i % 3, formula_class=K)
                elif fam == 5:
                    F = attempt(c.OrderingPrinciple, 2 + i % 4, total=bool(i & 32), formula_class=K)
                elif fam == 6:
                    F = attempt(c.GraphOrderingPrinciple, G, formula_class=K)
                elif fam == 7:
                    F = attempt(c.PebblingFormula, D, formula_class=K)
                elif fam == 8:
                    F = attempt(c.StoneFormula, D, 1 + i % 3, formula_class=K)
                elif fam == 9:
                    F = attempt(c.PerfectMatchingPrinciple, G, formula_class=K)
                elif fam == 10:
                    F = attempt(c.SubsetCardinalityFormula, B, formula_class=K)
                elif fam == 11:
                    F = attempt(c.CountingPrinciple, 3 + i % 4, 2, formula_class=K)
                elif fam == 12:
                    F = attempt(c.RandomKCNF, 2, 4 + i % 5, 3 + i % 4, seed=i)
                elif fam == 13:
                    F = attempt(c.RandomKXOR, 2, 4 + i % 5, 2 + i % 3, seed=i)
                elif fam == 14:
                    F = attempt(c.RamseyNumber, 3, 3, 3 + i % 3, formula_class=K)
                elif fam == 15:
                    F = attempt(c.VanDerWaerden, 4 + i % 4, 2, 3, formula_class=K)
                elif fam == 16:
                    F = attempt(c.CliqueFormula, G, 2 + i % 2, formula_class=K)
                elif fam == 17:
                    F = attempt(c.BinaryPigeonholePrinciple, 1 + i % 4, 1 + i % 5, formula_class=K)
                elif fam == 18:
                    F = attempt(c.Tiling, G, formula_class=K)
                else:
                    F = attempt(c.PythagoreanTriples, 3 + i % 20, formula_class=K)
                # --- hand-made formulas, constraint builders, exports and imports
                H = CNF()
                for j in range(1 + i % 4):
                    H.new_variable("v%d_%d" % (i, j))
                blk = H.new_block(1 + i % 2, 2)
                H.add_clause([1, -blk(1, 2)])
                H.add_linear([1, blk(1, 1), -blk(1, 2)], r.choice(["<=", ">=", "==", "!="]), 1)
                H.add_parity([1, blk(1, 1)], i % 2)
                text = attempt(H.to_dimacs)
                if text:
                    attempt(CNF.from_file, io.StringIO(text))
                if i % 3 == 0:
                    attempt(H.to_opb)
                if i % 7 == 0:
                    attempt(H.to_latex)
                P = OPB()
                P.update_variable_number(3)
                attempt(P.add_constraint, [(1 + i % 3, 1), (1, -2), (2, 3), r.choice([">=", "=="]), 1 + i % 2])
                attempt(P.to_opb)
                # --- transformations
                T = H
                for _ in range(1 + i % 2):
                    t = (i + _) % 9
                    T2 = attempt([lambda X: c.Shuffle(X), lambda X: c.XorSubstitution(X, 2), lambda X: c.OrSubstitution(X, 2),
                                  lambda X: c.FlipPolarity(X), lambda X: c.FormulaLifting(X, 1), lambda X: c.MajoritySubstitution(X, 3),
                                  lambda X: c.ExactlyOneSubstitution(X, 2), lambda X: c.IfThenElseSubstitution(X),
                                  lambda X: c.Shuffle(X, "fixed", "shuffle", "fixed")][t], T)
                    T = T2 if T2 is not None and len(T2) < 200 else T
                # --- the command line as a function
                if i % 110 == 0:
                    from cnfgen.clitools.cnfgen import cli
                    attempt(cli, ["cnfgen", "-q", "php", str(2 + i % 3), "2", "-T", "shuffle"], mode="formula")
                    attempt(cli, ["cnfgen", "-q", "kcolor", "2", "gnp", "4", ".5"], mode="formula")
                del G, B, D, F, H, P, T
                if i % 50 == 49:
                    gc.collect()
    finally:
        random.setstate(state)
    if ctx is not None:
        ctx.count("calls_of_the_earlier_life_of_the_process", done)
    return done

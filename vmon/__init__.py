"""vmon -- runtime monitors for cnfgen (see /verif/DESIGN.md)."""
import os
import sys

REPO = os.environ.get("VERIF_REPO", "/repo")
VERIF = os.path.dirname(os.path.dirname(os.path.abspath(__file__)))


def use_repo():
    """Make `import cnfgen` resolve to the working tree under test."""
    if sys.path[0] != REPO:
        sys.path.insert(0, REPO)

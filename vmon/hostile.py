"""Bounded adversary for the global `random` module (DESIGN.md §3.4).

For a bounded number of calls the module-level functions answer with legal but
unlucky values, then hand over to a seeded fair generator.  Every answered
value lies inside the contract of the function that was asked, so an
adversarial run is an outcome of positive probability.
"""
import contextlib
import random

STRATEGIES = ("fair", "low", "repeat", "high")


class Adversary:
    def __init__(self, strategy, budget, seed):
        self.strategy, self.budget = strategy, budget
        self.fair = random.Random(seed)
        self.calls = 0
        self.engaged = 0
        self.last = {}

    def _hostile(self):
        self.calls += 1
        if self.strategy != "fair" and self.engaged < self.budget:
            self.engaged += 1
            return True
        return False

    # -- the replaced functions -------------------------------------------
    def sample(self, population, k, *, counts=None):
        if counts is not None or not self._hostile():
            return self.fair.sample(population, k, counts=counts)
        n = len(population)
        if not 0 <= k <= n:
            raise ValueError("Sample larger than population or is negative")
        if self.strategy == "high":
            return [population[n - 1 - i] for i in range(k)]
        return [population[i] for i in range(k)]        # low / repeat: always the same sample

    def choice(self, seq):
        if not self._hostile():
            return self.fair.choice(seq)
        if not len(seq):
            raise IndexError("Cannot choose from an empty sequence")
        return seq[-1] if self.strategy == "high" else seq[0]

    def randint(self, a, b):
        if not self._hostile():
            return self.fair.randint(a, b)
        if a > b:
            raise ValueError("empty range for randint")
        return b if self.strategy == "high" else a

    def randrange(self, start, stop=None, step=1):
        if not self._hostile() or step != 1:
            return self.fair.randrange(start, stop, step)
        if stop is None:
            start, stop = 0, start
        if start >= stop:
            raise ValueError("empty range for randrange()")
        return stop - 1 if self.strategy == "high" else start

    def random(self):
        if not self._hostile():
            return self.fair.random()
        return 1.0 - 2 ** -53 if self.strategy == "high" else 0.0

    def shuffle(self, x):
        if not self._hostile():
            return self.fair.shuffle(x)
        if self.strategy == "high":
            x.reverse()
        return None                                      # low / repeat: identity permutation

    def seed(self, a=None, *rest):
        # a seeded generator under attack stays under attack: reseed the fair tail only
        self.fair.seed(a)

    def getrandbits(self, k):
        return self.fair.getrandbits(k)


NAMES = ("sample", "choice", "randint", "randrange", "random", "shuffle", "seed", "getrandbits")


@contextlib.contextmanager
def adversary(strategy, budget, seed):
    adv = Adversary(strategy, budget, seed)
    saved = {n: getattr(random, n) for n in NAMES}
    try:
        for n in NAMES:
            setattr(random, n, getattr(adv, n))
        yield adv
    finally:
        for n, f in saved.items():
            setattr(random, n, f)

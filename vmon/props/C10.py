"""C10 -- every formula mentions only variables it owns, and allocates them freshly.

Hook wrappers (vmon.monitors.alloc) on clause insertion, constraint insertion,
group creation and variable-count updates watch every family, transformation
chain and command line while it runs: a new group may not be handed an
identifier an earlier clause already mentions, the declared count never
decreases.  The returned formula is scanned (integer, non-zero, in range) and
its declared count compared with the documented closed form.
"""
import math
import random

from ..monitors import alloc
from .. import pollute
from ..argvcorpus import realistic, small, TRANSFORMATIONS
from ..cliharness import cli_formula

PYTHON_O_STRIDE = {"quick": 4, "thorough": 2}      # every n-th case is repeated in an interpreter started with -O
RULE = ("every family at realistic sizes (php 30x25, gphp on 40x30 left-regular graphs, bphp 20x13, rphp 6 7 8, count 12 3, "
        "matching/tseitin/ec on 40-vertex graphs, subsetcard, cliquecoloring 8 4 3, kcolor, domset, tiling, iso, subgraph, "
        "kclique/kcliquebin, ramlb, op 12 in five variants, peb/stone on pyramids, cpls, pitfall, ram, vdw, ptn, randkcnf/xor) "
        "and at small sizes, under CNF and OPB classes, library and command line entry, x transformation chains of length 0-3; "
        "plus random interleavings of group creation, checked clause insertion and explicit raises of the variable count.  "
        "distinct = (entry, parameters, class, chain); trivial = formula without clauses.")
ASSUMPTIONS = ["documented variable counts are the closed forms listed in C10.py (taken from docstrings / help texts)",
               "clauses inserted with check=False by user code are outside the statement; the library's own check=False insertions are watched"]
REQUIRED = ["hook_clause_events", "hook_group_events", "final_scans", "documented_counts_checked", "chains_applied",
            "cli_entries", "opb_entries", "interleavings", "lib_entries", "builder_insertions", "cli_documented_counts_checked", "chains_after_interleaving",
            "groups_on_a_reused_graph_object", "families_on_a_reused_graph_object", "lazy_batches_creating_variables", "compressions_with_isolated_top_right_vertices"]
CASE_TIMEOUT = {"quick": 300, "thorough": 1800}


def report(ctx, where, mon, F=None):
    """Turn monitor findings and the final scan into violations."""
    for kind, msg in getattr(mon, "last", []):
        ctx.violation("alloc:%s" % kind, "%s: %s" % (where, msg))
    if F is not None:
        ctx.count("final_scans")
        for kind, msg in alloc.scan(F):
            ctx.violation("scan:%s" % kind, "%s: %s" % (where, msg))


def snapshot_events():
    return dict(alloc.S.events)


def account(ctx, before):
    ev = alloc.S.events
    ctx.count("hook_clause_events", ev["clauses"] + ev["constraints"] - before["clauses"] - before["constraints"])
    ctx.count("hook_group_events", ev["groups"] + ev["empty_groups"] - before["groups"] - before["empty_groups"])


# ------------------------------------------------------------------ library entries with closed forms
def lib_entries(r):
    """[(label, callable(formula_class) -> F, documented_count or None)]"""
    import cnfgen as g
    import networkx
    from cnfgen.graphs import Graph, BipartiteGraph, DirectedGraph, bipartite_random_left_regular, dag_pyramid, \
        dag_complete_binary_tree, dag_path, bipartite_random_regular

    def gnm(n, m):
        G = Graph(n)
        while G.number_of_edges() < m:
            u, v = r.sample(range(1, n + 1), 2)
            G.add_edge(u, v)
        return G

    def regular(n, d):
        return Graph.from_networkx(networkx.random_regular_graph(d, n, seed=r.randint(0, 10 ** 6)))
    out = []
    ent = lambda label, fn, cnt: out.append((label, fn, cnt))
    s1, s2 = r.randint(0, 10 ** 6), r.randint(0, 10 ** 6)

    def handbuilt(K):
        F = K(description="hand-built formula with unused trailing variables")
        F.add_clause([1, -2, 3])
        F.add_clause([-1, 4])
        F.add_clause([])
        F.update_variable_number(7)
        return F
    ent("handbuilt(7 variables, 4 used)", handbuilt, 7)
    ent("PigeonholePrinciple(30,25)", lambda K: g.PigeonholePrinciple(30, 25, formula_class=K), 750)
    ent("PigeonholePrinciple(9,9,functional,onto)", lambda K: g.PigeonholePrinciple(9, 9, True, True, formula_class=K), 81)
    B = bipartite_random_left_regular(40, 30, 3, seed=r.randint(0, 10 ** 6))
    ent("GraphPigeonholePrinciple(glrd 40 30 3)", lambda K: g.GraphPigeonholePrinciple(B, formula_class=K), B.number_of_edges())
    ent("BinaryPigeonholePrinciple(20,13)", lambda K: g.BinaryPigeonholePrinciple(20, 13, formula_class=K), 20 * 4)
    ent("BinaryPigeonholePrinciple(5,1)", lambda K: g.BinaryPigeonholePrinciple(5, 1, formula_class=K), 0)
    ent("BinaryPigeonholePrinciple(3,2)", lambda K: g.BinaryPigeonholePrinciple(3, 2, formula_class=K), 3)
    ent("BinaryCliqueFormula(K1,1)", lambda K: g.BinaryCliqueFormula(Graph(1), 1, formula_class=K), 0)
    ent("CPLSFormula(2,1,1)", lambda K: g.CPLSFormula(2, 1, 1, formula_class=K), 2)
    ent("CPLSFormula(2,2,1)", lambda K: g.CPLSFormula(2, 2, 1, formula_class=K), 4 + 4)
    ent("PigeonholePrinciple(1200,1)", lambda K: g.PigeonholePrinciple(1200, 1, formula_class=K), 1200)
    ent("PigeonholePrinciple(1,1100,functional)", lambda K: g.PigeonholePrinciple(1, 1100, functional=True, formula_class=K), 1100)
    ent("BinaryPigeonholePrinciple(1,2^20-3)", lambda K: g.BinaryPigeonholePrinciple(1, 2 ** 20 - 3, formula_class=K), 20)
    ent("BinaryPigeonholePrinciple(1,2^21-3)", lambda K: g.BinaryPigeonholePrinciple(1, 2 ** 21 - 3, formula_class=K), 21)
    ent("BinaryPigeonholePrinciple(1,70000)", lambda K: g.BinaryPigeonholePrinciple(1, 70000, formula_class=K), 17)
    ent("BinaryPigeonholePrinciple(5,16)", lambda K: g.BinaryPigeonholePrinciple(5, 16, formula_class=K), 5 * 4)
    ent("RelativizedPigeonholePrinciple(6,7,8)", lambda K: g.RelativizedPigeonholePrinciple(6, 7, 8, formula_class=K), 6 * 7 + 7 * 8 + 7)
    ent("CountingPrinciple(12,3)", lambda K: g.CountingPrinciple(12, 3, formula_class=K), math.comb(12, 3))
    G40 = regular(40, 3)
    ent("PerfectMatchingPrinciple(gnd 40 3)", lambda K: g.PerfectMatchingPrinciple(G40, formula_class=K), 60)
    G40b = regular(40, 4)
    ent("TseitinFormula(gnd 40 4)", lambda K: g.TseitinFormula(G40b, formula_class=K), 80)
    ent("EvenColoringFormula(gnd 40 4)", lambda K: g.EvenColoringFormula(G40b, formula_class=K), 80)
    Br = bipartite_random_regular(30, 30, 4, seed=r.randint(0, 10 ** 6))
    ent("SubsetCardinalityFormula(regular 30 30 4)", lambda K: g.SubsetCardinalityFormula(Br, formula_class=K), Br.number_of_edges())
    ent("CliqueColoring(8,4,3)", lambda K: g.CliqueColoring(8, 4, 3, formula_class=K), 28 + 32 + 24)
    G30 = gnm(30, 80)
    ent("GraphColoringFormula(gnm 30 80, 4)", lambda K: g.GraphColoringFormula(G30, 4, formula_class=K), 120)
    G25 = gnm(25, 60)
    ent("DominatingSet(gnm 25 60, 5)", lambda K: g.DominatingSet(G25, 5, formula_class=K), 25 + 125)
    ent("DominatingSet(gnm 25 60, 4, alternative)", lambda K: g.DominatingSet(G25, 4, alternative=True, formula_class=K), 25 + 100)
    ent("Tiling(gnm 30 80)", lambda K: g.Tiling(G30, formula_class=K), 30)
    G12a, G12b = gnm(12, 20), gnm(12, 20)
    ent("GraphIsomorphism(gnm 12 20, gnm 12 20)", lambda K: g.GraphIsomorphism(G12a, G12b, formula_class=K), 144)
    ent("GraphAutomorphism(gnm 12 20)", lambda K: g.GraphAutomorphism(G12a, formula_class=K), 144)
    G14 = gnm(14, 40)
    ent("SubgraphFormula(gnm 14 40, K4)", lambda K: g.SubgraphFormula(G14, Graph.complete_graph(4), formula_class=K), 56)
    G13 = gnm(13, 45)
    ent("CliqueFormula(gnm 13 45, 5)", lambda K: g.CliqueFormula(G13, 5, formula_class=K), 65)
    ent("BinaryCliqueFormula(gnm 13 45, 4)", lambda K: g.BinaryCliqueFormula(G13, 4, formula_class=K), 16)
    ent("RamseyWitnessFormula(gnm 12 20, 4, 4)", lambda K: g.RamseyWitnessFormula(G12a, 4, 4, formula_class=K), 1 + 48)
    for kw, cnt in ((dict(), 132), (dict(total=True), 132), (dict(smart=True), 66), (dict(knuth=2), 132), (dict(knuth=3, plant=True), 132)):
        ent("OrderingPrinciple(12,%r)" % (kw,), lambda K, kw=kw: g.OrderingPrinciple(12, formula_class=K, **kw), cnt)
    ent("GraphOrderingPrinciple(gnm 14 40)", lambda K: g.GraphOrderingPrinciple(G14, formula_class=K), 14 * 13)
    P10 = dag_pyramid(10)
    ent("PebblingFormula(pyramid 10)", lambda K: g.PebblingFormula(P10, formula_class=K), 66)
    T5 = dag_complete_binary_tree(5)
    ent("PebblingFormula(tree 5)", lambda K: g.PebblingFormula(T5, formula_class=K), 63)
    P5 = dag_pyramid(5)
    ent("StoneFormula(pyramid 5, 4)", lambda K: g.StoneFormula(P5, 4, formula_class=K), 4 + 21 * 4)
    Bs = bipartite_random_left_regular(28, 6, 3, seed=r.randint(0, 10 ** 6))
    P6 = dag_pyramid(6)
    ent("SparseStoneFormula(pyramid 6, glrd 28 6 3)", lambda K: g.SparseStoneFormula(P6, Bs, formula_class=K), 6 + 84)
    ent("CPLSFormula(3,4,4)", lambda K: g.CPLSFormula(3, 4, 4, formula_class=K), 48 + 3 * 4 * 2 + 4 * 2)
    ent("PitfallFormula(8,3,4,4,4)", lambda K: g.PitfallFormula(8, 3, 4, 4, 4, formula_class=K), 4 * (12 + 4 + 4 + 16 + 3))
    ent("RamseyNumber(4,4,10)", lambda K: g.RamseyNumber(4, 4, 10, formula_class=K), 45)
    ent("VanDerWaerden(40,3,4,5)", lambda K: g.VanDerWaerden(40, 3, 4, 5, formula_class=K), 120)
    ent("VanDerWaerden(60,4,4)", lambda K: g.VanDerWaerden(60, 4, 4, formula_class=K), 60)
    ent("PythagoreanTriples(120)", lambda K: g.PythagoreanTriples(120, formula_class=K), 120)
    def dense_kcnf(K, k=2, n=9, m=100):
        from ..hostile import adversary
        with adversary("repeat", 10 * m * (k + 2) + 50, s1):
            return g.RandomKCNF(k, n, m, formula_class=K)

    def dense_kxor(K, k=2, n=9, m=50):
        from ..hostile import adversary
        with adversary("repeat", 10 * m * (k + 2) + 50, s2):
            return g.RandomKXOR(k, n, m, formula_class=K)
    ent("RandomKCNF(2,9,100) via the dense sampler (adversarial RNG)", dense_kcnf, 9)
    ent("RandomKXOR(2,9,50) via the dense sampler (adversarial RNG)", dense_kxor, 9)
    ent("RandomKCNF(2,12,264) at the exact maximum", lambda K: g.RandomKCNF(2, 12, 264, seed=s1, formula_class=K), 12)
    ent("RandomKCNF(3,100,420)", lambda K: g.RandomKCNF(3, 100, 420, seed=s1, formula_class=K), 100)
    ent("RandomKXOR(3,50,60)", lambda K: g.RandomKXOR(3, 50, 60, seed=s2, formula_class=K), 50)
    return out


def chain_count(n, chain):
    for t in chain:
        name = t[0]
        if name in ("or", "xor", "eq", "neq", "maj", "one", "atleast", "atmost", "exact", "anybut"):
            n *= int(t[1])
        elif name == "ite":
            n *= 3
        elif name == "lift":
            n *= 2 * int(t[1])
    return n


def chain_cost(F, chain):
    """Upper estimate of the number of clauses a chain produces (substitutions distribute over clauses)."""
    w = max([len(c) for c in F] or [0])
    m = len(F)
    for t in chain:
        name = t[0]
        k = int(t[1]) if len(t) > 1 and t[1].isdigit() else 1
        b, gw = {"or": (k, k), "xor": (2 ** (k - 1), k), "eq": (k, k), "neq": (k, k), "maj": (3, k), "one": (k, k),
                 "atleast": (3, k), "atmost": (3, k), "exact": (4, k), "anybut": (3, k), "ite": (2, 2), "lift": (2, 2)}.get(name, (1, 1))
        m = m * (b ** w)
        w = w * gw
        if m > 10 ** 7:
            return m
    return m


def apply_chain_lib(F, chain):
    import cnfgen as g
    fn = {"or": g.OrSubstitution, "xor": g.XorSubstitution, "eq": g.AllEqualSubstitution, "neq": g.NotAllEqualSubstitution,
          "maj": g.MajoritySubstitution, "one": g.ExactlyOneSubstitution, "lift": g.FormulaLifting}
    for t in chain:
        name = t[0]
        if name == "none":
            continue
        if name in fn:
            F = fn[name](F, int(t[1]))
        elif name == "ite":
            F = g.IfThenElseSubstitution(F)
        elif name == "flip":
            F = g.FlipPolarity(F)
        elif name == "shuffle":
            kw = {}
            if "--no-polarity-flips" in t:
                kw["polarity_flips"] = "fixed"
            if "--no-clauses-permutation" in t:
                kw["clauses_permutation"] = "fixed"
            if "--no-variables-permutation" in t:
                kw["variables_permutation"] = "fixed"
            F = g.Shuffle(F, **kw)
        else:
            f2 = {"atleast": g.AtLeastKSubstitution, "atmost": g.AtMostKSubstitution, "exact": g.ExactlyKSubstitution,
                  "anybut": g.AnythingButKSubstitution}[name]
            F = f2(F, int(t[1]), int(t[2]))
    return F


def pick_chain(r, maxlen, small_only=False):
    k = r.randint(0, maxlen)
    pool = [t for t in TRANSFORMATIONS if not (small_only and t[0] in ("lift", "ite"))]
    return [r.choice(pool) for _ in range(k)]


def _body(F, shift=0):
    """Constraints of F as a list, literals moved down by `shift`."""
    mv = lambda l: l - shift if l > 0 else l + shift
    if hasattr(F, "_constraints"):
        return [tuple((c, mv(l)) for c, l in con[:-2]) + (con[-2], con[-1]) for con in F]
    return [tuple(mv(l) for l in c) for c in F]


def offset_invariance(ctx, r, where, fn, K, F):
    """The same family built into a formula class of the user's whose constructor already owns three variables (and a
    clause on the first): the family's own variables come after them, so its constraints are those of the plain
    formula moved up by three, and the declared count grows by three."""
    from ..ducks import reserving_class
    if len(F) > 800000 or where.startswith("handbuilt"):
        return                      # (the hand-built entries set an absolute variable count themselves)
    seed = r.randint(0, 10 ** 6)
    random.seed(seed)
    st, A = ctx.call(fn, K)
    if st == "exc" or _body(A) != _body(F) or A.number_of_variables() != F.number_of_variables():
        ctx.count("offset_invariance_skipped_entry_not_repeatable")
        return
    R = reserving_class(K, 3)
    random.seed(seed)
    before = snapshot_events()
    with alloc.watch() as mon:
        st, B = ctx.call(fn, R)
    account(ctx, before)
    ctx.count("families_in_a_class_with_reserved_variables")
    w = "%s with a formula class that owns 3 variables before the family starts" % where
    if st == "exc":
        # a family may decline such a class (CPLSFormula asserts its total counts): C10 speaks of the formulas returned
        ctx.count("reserved_class_declined:%s" % type(B).__name__)
        return
    report(ctx, w, mon, B)
    if B.number_of_variables() == F.number_of_variables() and _body(B)[1:] == _body(F):
        # families that address their variables by number (update_variable_number(n), as the random ones do) simply
        # take the first n variables of whatever class they are given: nothing to compare
        ctx.count("family_addresses_variables_by_number")
        return
    if B.number_of_variables() != F.number_of_variables() + 3:
        ctx.violation("count:reserved-variables", "%s declares %d variables, the plain formula %d" % (w, B.number_of_variables(), F.number_of_variables()))
        return
    body = _body(B, 3)
    own = [(1 + 3,)] if not hasattr(B, "_constraints") else None
    rest = body[1:] if len(body) == len(F) + 1 else body
    if rest != _body(F):
        i = next((i for i, (x, y) in enumerate(zip(rest, _body(F))) if x != y), min(len(rest), len(F)))
        ctx.violation("reserved:family-uses-the-callers-variables", "%s: constraint #%d is %r (moved down by 3), the plain formula has %r"
                      % (w, i, rest[i:i + 1], _body(F)[i:i + 1]))
    ctx.judged(("reserved", where), nontrivial=len(F) > 0, sample={"entry": w, "variables": B.number_of_variables()})
    if hasattr(F, "_constraints"):
        return
    # ... and into a CNF class of the user's that keeps its clauses in a table of its own (add_clause and the accessors
    # overridden): every clause of the family must arrive there
    from ..ducks import table_class
    random.seed(seed)
    st, C = ctx.call(fn, table_class(K))
    ctx.count("families_in_a_class_with_its_own_clause_table")
    w = "%s with a CNF class that keeps its own clause table" % where
    if st == "exc":
        ctx.count("table_class_declined:%s" % type(C).__name__)
        return
    if C.number_of_variables() != F.number_of_variables() or _body(C) != _body(F):
        ctx.violation("table-class:clauses-bypass-add_clause", "%s presents %d clauses over %d variables, the plain formula has %d over %d"
                      % (w, len(C), C.number_of_variables(), len(F), F.number_of_variables()))
    ctx.judged(("table-class", where), nontrivial=len(F) > 0, sample={"entry": w, "clauses": len(C)})


def case_library(ctx, rseed, lo, hi):
    from cnfgen.formula.cnf import CNF
    from cnfgen.formula.opb import OPB
    r = ctx.rng("c10lib", rseed)
    entries = lib_entries(r)[lo:hi]
    for label, fn, documented in entries:
        for cname, K in (("CNF", CNF), ("OPB", OPB)):
            random.seed(r.randint(0, 10 ** 6))
            before = snapshot_events()
            with alloc.watch() as mon:
                st, F = ctx.call(fn, K)
            account(ctx, before)
            where = "%s[%s]" % (label, cname)
            ctx.count("lib_entries")
            if cname == "OPB":
                ctx.count("opb_entries")
            if st == "exc":
                report(ctx, where, mon)
                ctx.violation("lib:raises:%s" % type(F).__name__, "%s raised %r" % (where, F))
                continue
            report(ctx, where, mon, F)
            if documented is not None:
                ctx.count("documented_counts_checked")
                if F.number_of_variables() != documented:
                    ctx.violation("count:%s" % label.split("(")[0], "%s declares %d variables, documented %d"
                                  % (where, F.number_of_variables(), documented))
            ctx.judged(("lib", label, cname), nontrivial=len(F) > 0,
                       sample={"entry": where, "variables": F.number_of_variables(), "clauses": len(F)})
            offset_invariance(ctx, r, where, fn, K, F)
            if cname != "CNF" or F.number_of_variables() > 150:
                continue
            # transformation chains on the CNF
            chains = [pick_chain(r, 3, small_only=F.number_of_variables() > 60) for _ in range(2 if ctx.tier == "quick" else 6)]
            if label.startswith("handbuilt"):
                chains += [[t] for t in TRANSFORMATIONS] + [[t, u] for t in TRANSFORMATIONS[1:8] for u in TRANSFORMATIONS[8:]]
            for chain in chains:
                n_exp = chain_count(F.number_of_variables(), chain)
                if n_exp > 3000 or chain_cost(F, chain) > (30000 if ctx.tier == 'quick' else 80000):
                    continue
                random.seed(r.randint(0, 10 ** 6))
                before = snapshot_events()
                with alloc.watch() as mon:
                    st, T = ctx.call(apply_chain_lib, F, chain)
                account(ctx, before)
                w2 = "%s -> %r" % (where, chain)
                ctx.count("chains_applied")
                if st == "exc":
                    report(ctx, w2, mon)
                    ctx.violation("chain:raises:%s" % type(T).__name__, "%s raised %r" % (w2, T))
                    continue
                report(ctx, w2, mon, T)
                ctx.count("documented_counts_checked")
                if T.number_of_variables() != n_exp:
                    ctx.violation("count:chain(%s)" % "+".join(t[0] for t in chain), "%s declares %d variables, documented %d"
                                  % (w2, T.number_of_variables(), n_exp))
                ctx.judged(("lib-chain", label, tuple(map(tuple, chain))), nontrivial=len(T) > 0)


def cli_documented_count(tail):
    """Documented number of variables of a purely numeric command line (None when the help names no closed form)."""
    sub = tail[0]
    flags = [t for t in tail[1:] if t.startswith("-") and not t.lstrip("-").isdigit()]
    nums = [t for t in tail[1:] if t.lstrip("-").isdigit()]
    if len(nums) + len(flags) != len(tail) - 1:
        return None                      # graph specifications etc.
    a = [int(t) for t in nums]
    bits = lambda m: (m - 1).bit_length() if m >= 1 else 0
    try:
        if sub in ("and", "or"):
            return a[0] + a[1]
        if sub in ("true", "false"):
            return 0
        if sub == "php" and len(a) == 1:
            return (a[0] + 1) * a[0]
        if sub == "php" and len(a) == 2:
            return a[0] * a[1]
        if sub == "bphp":
            return a[0] * bits(a[1])
        if sub == "rphp":
            return a[0] * a[1] + a[1] * a[2] + a[1]
        if sub == "count":
            return math.comb(a[0], a[1])
        if sub == "parity":
            return math.comb(a[0], 2)
        if sub == "cpls":
            return a[0] * a[1] * a[2] + a[0] * a[1] * bits(a[1]) + a[1] * bits(a[2])
        if sub == "cliquecoloring":
            return math.comb(a[0], 2) + a[1] * a[0] + a[0] * a[2]
        if sub == "ram":
            return math.comb(a[2], 2)
        if sub == "vdw":
            return a[0] if len(a) == 3 else a[0] * (len(a) - 1)
        if sub == "ptn":
            return a[0]
        if sub in ("randkcnf", "randkxor"):
            return a[1]
        if sub == "op" and len(a) == 1:
            return math.comb(a[0], 2) if ("-s" in flags or "--smart" in flags) else a[0] * (a[0] - 1)
    except (IndexError, ValueError):
        return None
    return None


def case_cli(ctx, which, lo, hi, rseed):
    r = ctx.rng("c10cli", which, rseed, lo)
    corpus = (realistic() if which == "realistic" else small())[lo:hi]
    for sub, tail in corpus:
        for tool in ("cnfgen", "pbgen"):
            chain = pick_chain(r, 2, small_only=True) if (tool == "cnfgen" and which == "small") else []
            argv = [tool] + list(tail)
            seed = r.randint(1, 10 ** 6)
            if chain:
                # size the chain on the untransformed formula first (substitutions distribute over clauses)
                random.seed(seed)
                try:
                    base = cli_formula(tool, argv)
                    if chain_cost(base, chain) > (30000 if ctx.tier == "quick" else 80000):
                        chain = []
                except BaseException as e:      # noqa: BLE001
                    if isinstance(e, KeyboardInterrupt) or type(e).__name__ == "CaseTimeout":
                        raise
                    chain = []
            for t in chain:
                argv += ["-T"] + list(t)
            random.seed(seed)
            before = snapshot_events()
            with alloc.watch() as mon:
                try:
                    st, F = "ok", cli_formula(tool, argv)
                except SystemExit as e:
                    st, F = "refused", e
                except Exception as e:      # noqa: BLE001
                    st, F = ("refused" if type(e).__name__ == "CLIError" else "exc"), e
            account(ctx, before)
            where = " ".join(argv) + " [random.seed(%d)]" % seed
            ctx.count("cli_entries")
            if tool == "pbgen":
                ctx.count("opb_entries")
            if st != "ok":
                report(ctx, where, mon)
                ctx.count("cli_" + st)        # refusals / escaping exceptions are C18's subject
                continue
            report(ctx, where, mon, F)
            if chain:
                ctx.count("chains_applied")
            doc = cli_documented_count(tail)
            if doc is not None:
                ctx.count("cli_documented_counts_checked")
                doc = chain_count(doc, chain)
                if F.number_of_variables() != doc:
                    ctx.violation("count:cli:%s" % sub, "%s declares %d variables, documented %d" % (where, F.number_of_variables(), doc))
            ctx.judged(("cli", tuple(argv)), nontrivial=len(F) > 0,
                       sample={"argv": argv, "variables": F.number_of_variables(), "clauses": len(F)})


def case_wide_parity(ctx, width, via):
    """One parity constraint on 21 (thorough: 22) literals -- 2^20 clauses -- through add_parity, through Tseitin on a star
    and through xor substitution of a unit clause: the formula owns exactly the documented variables and every literal
    lies inside them."""
    import cnfgen as g
    from cnfgen.formula.cnf import CNF
    from cnfgen.graphs import Graph
    before = snapshot_events()
    with alloc.watch() as mon:
        if via == "add_parity":
            F = CNF()
            F.update_variable_number(width)
            st, _ = ctx.call(F.add_parity, list(range(1, width + 1)), 1)
            expected, label = width, "CNF().add_parity(1..%d, 1)" % width
        elif via == "tseitin":
            G = Graph(width + 1)
            for v in range(2, width + 2):
                G.add_edge(1, v)
            st, F = ctx.call(g.TseitinFormula, G)
            expected, label = width, "TseitinFormula(star with %d arms)" % width
        else:
            F0 = CNF([[1]])
            st, F = ctx.call(g.XorSubstitution, F0, width)
            expected, label = width, "XorSubstitution(CNF([[1]]), %d)" % width
    account(ctx, before)
    ctx.count("wide_parity_entries")
    if st == "exc":
        ctx.violation("wide-parity:raises:%s" % type(F if via != "add_parity" else _).__name__, "%s raised %r" % (label, F if via != "add_parity" else _))
        return
    report(ctx, label, mon, None)
    n = F.number_of_variables()
    if n != expected:
        ctx.violation("count:wide-parity(%s)" % via, "%s declares %d variables, documented %d" % (label, n, expected))
    top = 0
    for cl in F:
        for l in cl:
            if type(l) is not int or l == 0:
                ctx.violation("scan:literal", "%s has the literal %r" % (label, l))
                return
            if abs(l) > top:
                top = abs(l)
    if top > n:
        ctx.violation("scan:literal", "%s mentions variable %d with %d declared variables" % (label, top, n))
    nv = F.new_variable("after")
    if nv <= top:
        ctx.violation("alloc:new-variable-reuses-mentioned-variable", "%s: a variable created afterwards got identifier %d, the clauses mention up to %d" % (label, nv, top))
    ctx.judged(("wide-parity", width, via), nontrivial=True, sample={"entry": label, "clauses": len(F)})


def case_latex_declared_counts(ctx):
    """LaTeX documents of both tools: the sentence 'with N variables and M clauses / constraints' must state the
    numbers of the formula object (N is the declared number of variables this property speaks of)."""
    import re
    from ..cliharness import run_main
    for tail in (["php", "4", "3"], ["php", "3", "3", "--functional"], ["op", "4"], ["tseitin", "first", "grid", "2", "3"], ["count", "5", "2"],
                 ["kcolor", "3", "complete", "4"], ["and", "3", "2"], ["true"], ["false"], ["subsetcard", "complete", "3", "4"], ["vdw", "5", "2", "2", "3"],
                 ["bphp", "5", "3"], ["cliquecoloring", "4", "3", "2"]):
        for tool in ("cnfgen", "pbgen"):
            try:
                F = cli_formula(tool, [tool, "-q"] + tail)
            except BaseException as e:      # noqa: BLE001
                if isinstance(e, KeyboardInterrupt) or type(e).__name__ == "CaseTimeout":
                    raise
                continue
            o = run_main(tool, ["-of", "latex"] + tail)
            ctx.count("latex_documents_checked")
            if o.exc is not None or o.rc not in (0, None):
                continue
            m = re.search(r"with (\d+) variables and (?:and )?(\d+) (clauses|constraints)", o.out)
            if not m:
                ctx.count("latex_document_without_size_sentence")
                continue
            if int(m.group(1)) != F.number_of_variables() or int(m.group(2)) != len(F):
                ctx.violation("count:latex-document-declares-other-numbers", "`%s -of latex %s` says %r, the formula has %d variables and %d %s"
                              % (tool, " ".join(tail), m.group(0), F.number_of_variables(), len(F), m.group(3)))
            ctx.judged(("latex-counts", tool, tuple(tail)), nontrivial=True, sample={"command": "%s -of latex %s" % (tool, " ".join(tail))})


def case_interleave(ctx, rseed, count):
    """Random histories of group creation, checked clause insertion and explicit raises of the count."""
    from cnfgen.formula.cnf import CNF
    from cnfgen.formula.opb import OPB
    from cnfgen.graphs import Graph, BipartiteGraph, DirectedGraph
    r = ctx.rng("c10int", rseed)
    for _ in range(count):
        K = r.choice([CNF, OPB])
        before = snapshot_events()
        hist = []
        shared = Graph(r.randint(3, 5))              # one graph object used by several groups, edited in between
        for _ in range(4):
            shared.add_edge(*r.sample(range(1, shared.order() + 1), 2))
        with alloc.watch() as mon:
            # now and then two formulas are alive at once and the operations alternate between them
            Ks = [K] + ([r.choice([CNF, OPB])] if r.random() < 0.35 else [])
            Fs = [k() for k in Ks]
            if len(Fs) > 1:
                ctx.count("histories_on_two_live_formulas")
            for _ in range(r.randint(1, 10)):
                idx = r.randrange(len(Fs))
                F, K = Fs[idx], Ks[idx]
                n = F.number_of_variables()
                op = r.choice(["clause", "clause", "lazy-batch", "raise", "variable", "block", "comb", "perm", "words", "bip", "graph",
                               "digraph", "mapping", "binmap", "constraint", "builder", "builder", "labels", "peek",
                               "shared-graph", "shared-graph", "edit-graph", "edit-graph", "deepcopy", "pickle"])
                hist.append(op)
                if op in ("deepcopy", "pickle"):
                    import copy
                    import pickle
                    st, C = ctx.call(copy.deepcopy, F) if op == "deepcopy" else ctx.call(lambda: pickle.loads(pickle.dumps(F)))
                    if st == "ok":
                        F = Fs[idx] = C            # the history goes on with the copy
                        ctx.count("histories_continued_on_a_copy")
                    else:
                        hist[-1] = op + "(unsupported)"
                    continue
                if op == "labels":
                    st, labs = ctx.call(lambda: list(F.all_variable_labels()))
                    if st == "ok" and len(labs) != n:
                        ctx.violation("labels:count", "history %r: %d labels for %d variables" % (hist, len(labs), n))
                    continue
                if op == "peek":
                    # somebody looks at a transformed copy; the formula itself goes on growing afterwards
                    if K is CNF and n <= 30 and len(F) <= 20 and max([len(c) for c in F] or [0]) <= 3:
                        ctx.call(apply_chain_lib, F, [r.choice([["or", "2"], ["xor", "2"], ["flip"]])])
                    continue
                if op == "edit-graph":
                    how = r.choice(["remove", "remove", "move", "switch", "add", "grow"])
                    hist[-1] = "edit-graph:" + how
                    E = list(shared.edges())
                    if how == "remove" and E:
                        shared.remove_edge(*r.choice(E))
                    elif how == "move":
                        pollute.move_edge(shared, r)
                    elif how == "switch":
                        pollute.two_switch(shared, r)
                    elif how == "add":
                        shared.add_edge(*r.sample(range(1, shared.order() + 1), 2))
                    else:
                        shared.update_vertex_number(shared.order() + 1)
                        shared.add_edge(1, shared.order())
                    continue
                if op == "shared-graph":
                    st, grp = ctx.call(F.new_graph_edges, shared)
                    m = shared.number_of_edges()
                    ctx.count("groups_on_a_reused_graph_object")
                    if st == "ok" and F.number_of_variables() - n != m:
                        ctx.violation("count:group-on-edited-graph", "history %r: new_graph_edges on a graph with %d edges added %d variables"
                                      % (hist, m, F.number_of_variables() - n))
                    elif st == "ok":
                        ids = sorted(grp(u, v) for (u, v) in shared.edges())
                        if ids != list(range(n + 1, n + m + 1)):
                            ctx.violation("count:group-on-edited-graph", "history %r: the group's variables for the %d current edges are %r, "
                                          "expected %d..%d" % (hist, m, ids[:8], n + 1, n + m))
                    continue
                if op == "builder":
                    # constraint builders called the documented way (check=True): they may mention fresh variables
                    top = n + r.choice([0, 1, 2, 4])
                    if top:
                        k = r.randint(1, min(4, top))
                        lits = [r.choice([1, -1]) * v for v in r.sample(range(1, top + 1), k)]
                        if r.random() < 0.5:
                            lits[-1] = (1 if lits[-1] > 0 else -1) * top          # make sure the newest variable is mentioned
                        b = r.choice(["<=", ">=", "<", ">", "==", "!=", "parity", "lmaj", "smaj", "lmin", "smin", "geq", "leq", "eq", "neq"])
                        hist[-1] = "builder:" + b
                        c = r.randint(0, k)
                        if b in ("<=", ">=", "<", ">", "==", "!=") and K is CNF:
                            ctx.call(F.add_linear, lits, b, c)
                        elif b in ("<=", ">=", "<", ">", "==") and K is OPB:
                            ctx.call(F.add_constraint, [(1, l) for l in lits] + [b, c])
                        elif b == "parity":
                            ctx.call(F.add_parity, lits, c % 2)
                        elif b in ("lmaj", "smaj", "lmin", "smin"):
                            ctx.call(getattr(F, {"lmaj": "add_loose_majority", "smaj": "add_strict_majority",
                                                 "lmin": "add_loose_minority", "smin": "add_strict_minority"}[b]), lits)
                        else:
                            name = {"geq": "cardinality_geq", "leq": "cardinality_leq", "eq": "cardinality_eq", "neq": "cardinality_neq",
                                    "!=": "cardinality_neq"}[b]
                            ctx.call(getattr(F, name), lits, c)
                        ctx.count("builder_insertions")
                    continue
                if op == "lazy-batch":
                    # one add_clauses_from / add_constraints_from call whose argument is a generator that goes on
                    # creating variables and groups in the same formula between the clauses it yields
                    inside = []

                    def batch(F=F, K=K):
                        for _step in range(r.randint(1, 4)):
                            top_ = F.number_of_variables() + r.choice([0, 1, 3])
                            if top_:
                                cl_ = [r.choice([1, -1]) * r.randint(max(1, top_ - 2), top_) for _ in range(r.randint(1, 3))]
                                yield cl_ if K is CNF or how_ == "clauses" else [(1, l) for l in cl_] + [">=", 1]
                            what = r.choice(["variable", "block", "none", "comb"])
                            inside.append(what)
                            if what == "variable":
                                F.new_variable("inside")
                            elif what == "block":
                                F.new_block(r.randint(1, 2), r.randint(1, 2))
                            elif what == "comb":
                                F.new_combinations(3, 2)
                    how_ = "clauses" if K is CNF or r.random() < 0.5 else "constraints"
                    ctx.call(F.add_clauses_from if how_ == "clauses" else F.add_constraints_from, batch())
                    hist[-1] = "lazy-batch(%s:%s)" % (how_, ",".join(inside))
                    ctx.count("lazy_batches_creating_variables")
                    continue
                if op == "clause":
                    top = n + r.choice([0, 0, 1, 3])
                    if top:
                        cl = [r.choice([1, -1]) * r.randint(1, top) for _ in range(r.randint(1, 3))]
                        ctx.call(F.add_clause, cl)
                elif op == "constraint" and K is OPB:
                    top = n + r.choice([0, 2])
                    if top:
                        ctx.call(F.add_constraint, [(r.randint(1, 3), r.choice([1, -1]) * r.randint(1, top)) for _ in range(2)]
                                 + [r.choice([">=", "<=", "=="]), r.randint(0, 3)])
                elif op == "raise":
                    ctx.call(F.update_variable_number, n + r.choice([0, 0, 2, 5]) - r.choice([0, 0, 1]))
                elif op == "variable":
                    ctx.call(F.new_variable, "v")
                elif op in ("block", "comb", "perm", "words"):
                    # the documented sizes: product of the ranges, C(n,k), n!/(n-k)!, n^k (one variable for k = 0)
                    if op == "block":
                        dims = [r.randint(0, 3) for _ in range(r.randint(1, 3))]
                        st_, _g = ctx.call(F.new_block, *dims)
                        want = math.prod(dims)
                        what = "new_block%r" % (tuple(dims),)
                    else:
                        a_, b_ = r.randint(0, 4), r.randint(0, 3 if op == "comb" else 2)
                        if op == "perm" and r.random() < 0.25:
                            st_, _g = ctx.call(F.new_permutations, a_)
                            b_ = a_
                        else:
                            st_, _g = ctx.call({"comb": F.new_combinations, "perm": F.new_permutations, "words": F.new_words}[op], a_, b_)
                        want = {"comb": math.comb(a_, b_), "perm": math.perm(a_, b_) if b_ <= a_ else 0, "words": a_ ** b_}[op]
                        what = "new_%s(%d,%d)" % ({"comb": "combinations", "perm": "permutations", "words": "words"}[op], a_, b_)
                    hist[-1] = what
                    if st_ == "ok":
                        ctx.count("group_sizes_against_closed_forms")
                        if F.number_of_variables() - n != want:
                            ctx.violation("count:group-size", "history %r: %s added %d variables, documented %d"
                                          % (hist, what, F.number_of_variables() - n, want))
                elif op in ("bip", "mapping") and r.random() < 0.3:
                    # a bipartite graph of a user class: left vertices of degree up to 70, neighbours in the class's own order
                    from ..ducks import computed_bipartite
                    L_, R_ = r.randint(1, 3), r.choice([5, 16, 17, 18, 33, 48, 49, 70])
                    E_ = [(u, v) for u in range(1, L_ + 1) for v in range(1, R_ + 1) if r.random() < 0.9]
                    B = computed_bipartite(L_, R_, E_, order="preference", base="BaseBipartiteGraph")
                    if r.random() < 0.5:
                        # neighbourhoods answered as range objects (stepped, descending, not starting at 1)
                        from ..ducks import range_bipartite
                        B, E_ = range_bipartite(r.randint(1, 4), r.choice([1, 2, 5, 6, 9]), r.choice(["parity", "descending", "window"]))
                        R_ = B.right_order()
                        ctx.count("groups_on_a_graph_with_range_neighbourhoods")
                    st, grp = ctx.call(F.new_bipartite_edges if op == "bip" else F.new_sparse_mapping, B)
                    ctx.count("groups_on_a_user_class_graph")
                    if st == "ok":
                        ids = sorted(grp(u, v) for (u, v) in E_)
                        if F.number_of_variables() - n != len(E_) or ids != list(range(n + 1, n + len(E_) + 1)):
                            ctx.violation("count:group-on-user-class-graph", "history %r: a group on a user-class bipartite graph with %d edges "
                                          "(degrees up to %d) added %d variables; identifiers of its edges %r..." %
                                          (hist, len(E_), R_, F.number_of_variables() - n, ids[:6]))
                elif op in ("bip", "mapping"):
                    B = BipartiteGraph(r.randint(0, 3), r.randint(0, 3))
                    for _ in range(4):
                        if B.left_order() and B.right_order():
                            B.add_edge(r.randint(1, B.left_order()), r.randint(1, B.right_order()))
                    ctx.call(F.new_bipartite_edges if op == "bip" else F.new_sparse_mapping, B)
                elif op == "graph":
                    G = Graph(r.randint(0, 4))
                    for _ in range(3):
                        if G.order() >= 2:
                            u, v = r.sample(range(1, G.order() + 1), 2)
                            G.add_edge(u, v)
                    ctx.call(F.new_graph_edges, G)
                elif op == "digraph":
                    D = DirectedGraph(r.randint(0, 4))
                    for _ in range(3):
                        if D.order() >= 2:
                            u, v = sorted(r.sample(range(1, D.order() + 1), 2))
                            D.add_edge(u, v)
                    ctx.call(F.new_digraph_edges, D)
                elif op == "binmap":
                    ctx.call(F.new_binary_mapping, r.randint(1, 3), r.randint(1, 6))
        account(ctx, before)
        ctx.count("interleavings")
        for other in Fs[1:]:
            for kind, msg in alloc.scan(other):
                ctx.violation("scan:%s" % kind, "history %r on two live formulas, the second one: %s" % (hist, msg))
        F, K = Fs[0], Ks[0]
        for G_ in Fs:
            st, labs = ctx.call(lambda: list(G_.all_variable_labels()))
            if st == "ok" and len(labs) != G_.number_of_variables():
                ctx.violation("labels:count", "history %r: %d labels for %d variables" % (hist, len(labs), G_.number_of_variables()))
        report(ctx, "history %r on %s" % (hist, K.__name__), mon, F)
        if K is CNF and F.number_of_variables() <= 40 and len(F) <= 30 and max([len(c) for c in F] or [0]) <= 3:
            # a formula with such a history is a legitimate input of every transformation
            chain = [r.choice([["xor", "2"], ["or", "2"], ["lift", "2"], ["ite"], ["flip"], ["shuffle"], ["one", "2"],
                               ["shuffle", "--no-polarity-flips", "--no-variables-permutation", "--no-clauses-permutation"],
                               ["shuffle", "--no-variables-permutation"], ["shuffle", "--no-polarity-flips", "--no-variables-permutation"]])]
            n_exp = chain_count(F.number_of_variables(), chain)
            with alloc.watch() as mon2:
                st, T = ctx.call(apply_chain_lib, F, chain)
            ctx.count("chains_applied")
            ctx.count("chains_after_interleaving")
            w2 = "history %r then %r" % (hist, chain)
            if st == "exc":
                report(ctx, w2, mon2)
                ctx.violation("chain:raises:%s" % type(T).__name__, "%s raised %r" % (w2, T))
            else:
                report(ctx, w2, mon2, T)
                if T.number_of_variables() != n_exp:
                    ctx.violation("count:chain-after-history(%s)" % chain[0][0], "%s declares %d variables, documented %d (input has %d)"
                                  % (w2, T.number_of_variables(), n_exp, F.number_of_variables()))
        ctx.judged(("interleave", rseed, tuple(hist), K.__name__, F.number_of_variables()), nontrivial=len(F) > 0,
                   sample={"history": hist, "class": K.__name__, "variables": F.number_of_variables()})


def case_graph_reuse(ctx, rseed, count):
    """Families whose variables are the edges of a graph, called again on the same Graph object after it was edited
    (an edge removed, moved, two edges switched): one variable per current edge, every one of them used."""
    import cnfgen
    from cnfgen.graphs import Graph
    r = ctx.rng("c10reuse", rseed)
    fams = [("TseitinFormula", lambda G, K: cnfgen.TseitinFormula(G, formula_class=K)),
            ("PerfectMatchingPrinciple", lambda G, K: cnfgen.PerfectMatchingPrinciple(G, formula_class=K)),
            ("EvenColoringFormula", lambda G, K: cnfgen.EvenColoringFormula(G, formula_class=K))]
    from cnfgen.formula.cnf import CNF
    from cnfgen.formula.opb import OPB
    for _ in range(count):
        name, gen = r.choice(fams)
        K = r.choice([CNF, OPB])
        n = r.randint(4, 7)
        G = Graph(n)
        if name == "EvenColoringFormula":
            for v in range(1, n + 1):                 # a cycle plus chords forming cycles: all degrees even
                G.add_edge(v, v % n + 1)
        else:
            for _ in range(r.randint(3, 2 * n)):
                G.add_edge(*r.sample(range(1, n + 1), 2))
        hist = []
        for step in range(r.randint(2, 4)):
            if step:
                how = r.choice(["remove", "remove", "move", "switch"])
                E = list(G.edges())
                if name == "EvenColoringFormula":
                    how = "switch"
                if how == "remove" and len(E) > 1:
                    G.remove_edge(*r.choice(E))
                elif how == "move":
                    pollute.move_edge(G, r)
                else:
                    pollute.two_switch(G, r)
                hist.append(how)
            before = snapshot_events()
            with alloc.watch() as mon:
                st, F = ctx.call(gen, G, K)
            account(ctx, before)
            where = "%s[%s] on one Graph object after %r" % (name, K.__name__, hist)
            if st == "exc":
                if isinstance(F, ValueError) and name == "EvenColoringFormula":
                    break
                ctx.violation("reuse:raises:%s" % type(F).__name__, "%s raised %r" % (where, F))
                break
            report(ctx, where, mon, F)
            ctx.count("documented_counts_checked")
            ctx.count("families_on_a_reused_graph_object")
            if F.number_of_variables() != G.number_of_edges():
                ctx.violation("count:family-on-edited-graph", "%s declares %d variables, the graph has %d edges"
                              % (where, F.number_of_variables(), G.number_of_edges()))
                break
            ctx.judged(("reuse", name, K.__name__, rseed, tuple(hist), tuple(G.edges())), nontrivial=True,
                       sample={"family": name, "history": list(hist), "edges": G.number_of_edges()})


def case_repo_tests(ctx):
    """The repository's own tests with the hooks armed for the whole session (thorough tier)."""
    import json
    import os
    import subprocess
    import sys
    import tempfile
    from .. import REPO, VERIF
    out = tempfile.mktemp(suffix=".json")
    env = dict(os.environ, VMON_ALLOC_REPORT=out, PYTHONPATH=VERIF + os.pathsep + os.path.join(VERIF, ".deps"))
    p = subprocess.run([sys.executable, "-m", "pytest", "-q", "-p", "no:cacheprovider", "-p", "vmon.monitors.pytest_alloc",
                        "--timeout=900", "--continue-on-collection-errors", "-q", "tests"], cwd=REPO, env=env,
                       capture_output=True, text=True, timeout=1500)
    if not os.path.exists(out):
        ctx.problems.append({"kind": "repo-tests-no-report", "case": ctx.case, "traceback": p.stdout[-1500:] + p.stderr[-1500:]})
        return
    data = json.load(open(out))
    os.unlink(out)
    ctx.count("repo_tests_hook_clause_events", data["events"]["clauses"] + data["events"]["constraints"])
    ctx.count("repo_tests_hook_group_events", data["events"]["groups"])
    for kind, msg in data["findings"][:20]:
        ctx.violation("alloc:%s(repo-tests)" % kind, "while the repository's tests ran: %s" % msg)
    ctx.judged(("repo-tests",), nontrivial=True, sample={"repo_tests": data["events"]})


def case_compression_counts(ctx, rseed, count):
    """xor / majority variable compression through bipartite graphs whose highest right vertices (and some left ones)
    have no neighbour: the result is documented to be over the R right-side variables -- exactly R are declared, used
    by a clause or not -- every literal lies inside them and a variable created afterwards is R + 1.  Library call and
    `-T xorcomp|majcomp` with a specification that leaves right vertices alone."""
    import cnfgen as g
    from cnfgen.formula.cnf import CNF
    from cnfgen.graphs import BipartiteGraph
    r = ctx.rng("c10comp", rseed)
    for _ in range(count):
        L = r.randint(1, 6)
        R = r.randint(1, 9)
        used = r.randint(0, R)                    # right vertices above `used` stay isolated
        B = BipartiteGraph(L, R)
        for u in range(1, L + 1):
            if used and r.random() < 0.85:
                for v in r.sample(range(1, used + 1), r.randint(1, min(used, 4))):
                    B.add_edge(u, v)
        F0 = CNF()
        F0.update_variable_number(L)
        for _c in range(r.randint(0, 5)):
            F0.add_clause([r.choice([1, -1]) * v for v in r.sample(range(1, L + 1), r.randint(1, min(L, 3)))])
        for fn in ("xor", "maj"):
            label = "VariableCompression(CNF(%r over %d variables), bipartite %dx%d with edges %r, %r)" % (
                [list(c) for c in F0], L, L, R, sorted(B.edges()), fn)
            before = snapshot_events()
            with alloc.watch() as mon:
                st, T = ctx.call(g.VariableCompression, F0, B, fn)
            account(ctx, before)
            ctx.count("compression_counts_checked")
            if st == "exc":
                ctx.violation("compression:raises:%s" % type(T).__name__, "%s raised %r" % (label, T))
                continue
            report(ctx, label, mon, T)
            if used < R:
                ctx.count("compressions_with_isolated_top_right_vertices")
            if T.number_of_variables() != R:
                ctx.violation("count:compression(%s)" % fn, "%s declares %d variables, documented %d" % (label, T.number_of_variables(), R))
            else:
                nv = T.new_variable("after")
                if nv != R + 1:
                    ctx.violation("alloc:compression-next-variable", "%s: a variable created afterwards got identifier %d, expected %d" % (label, nv, R + 1))
            ctx.judged(("compression-count", L, R, tuple(sorted(B.edges())), tuple(map(tuple, F0)), fn), nontrivial=True,
                       sample={"entry": "VariableCompression %dx%d %s" % (L, R, fn), "declared": T.number_of_variables()})
    # the command line spelling: glrd L R 1 over many more right vertices than edges
    for kind in ("xorcomp", "majcomp"):
        R = r.randint(12, 30)
        argv = ["cnfgen", "-q", "--seed", str(r.randint(0, 999)), "and", "2", "1", "-T", kind, "glrd", "3", str(R), "1"]
        from cnfgen.clitools.cnfgen import cli
        st, T = ctx.call(cli, argv, mode="formula")
        ctx.count("compression_counts_checked")
        if st == "exc":
            ctx.count("compression_cli_refused")
            continue
        ctx.count("compressions_with_isolated_top_right_vertices")
        if T.number_of_variables() != R:
            ctx.violation("count:compression(%s)" % kind, "`%s` declares %d variables, documented %d" % (" ".join(argv), T.number_of_variables(), R))
        ctx.judged(("compression-count-cli", kind, R), nontrivial=True, sample={"entry": " ".join(argv)})


def workload(tier, seed):
    q = tier == "quick"
    n = 62
    for i in range(2 if q else 40):
        yield "compression_counts", {"rseed": seed * 100 + i, "count": 40}
    yield "latex_declared_counts", {}
    # first: 2^20 clauses each, they run alongside everything else
    for via in ("tseitin", "add_parity", "xor") if q else ("tseitin", "add_parity", "xor", "tseitin22"):
        yield "wide_parity", {"width": 22 if via.endswith("22") else 21, "via": via.replace("22", "")}
    for rs in range(1 if q else 10):
        for lo in range(0, n, 3):
            yield "library", {"rseed": seed * 100 + rs, "lo": lo, "hi": lo + 3}
    m = len(realistic())
    for lo in range(0, m, 3):
        yield "cli", {"which": "realistic", "lo": lo, "hi": lo + 3, "rseed": seed}
    k = len(small())
    step = 40 if q else 10
    for lo in range(0, k, step):
        yield "cli", {"which": "small", "lo": lo, "hi": lo + (10 if q else step), "rseed": seed}
    for i in range(16 if q else 1000):
        yield "interleave", {"rseed": seed * 1000 + i, "count": 200}
    for i in range(8 if q else 200):
        yield "graph_reuse", {"rseed": seed * 1000 + i, "count": 40}
    if not q:
        yield "repo_tests", {}

"""C11 -- variable groups map indices to identifiers bijectively, with names aligned.

History + executable model.  A history of operations (group creations of every kind,
clauses / constraints mentioning anonymous higher variables, explicit raises of the
variable count, refused creations) is applied to a real CNF(), OPB() or bare
VariablesManager(BaseCNF()) and to a shadow allocation model: a list of
(first identifier, length, legal indices in identifier order, names).  The oracles:

* allocation: a new group occupies exactly the next `closed form` identifiers;
* enumeration: indices() is the legal index set of the shape (refmodels/c11_shapes),
  without repetition, and its j-th element maps to identifier first + j;
* inversion: to_index(g(i)) == i == to_index(-g(i)) for every legal index;
* patterns: every wildcard pattern yields the filter of the full enumeration (indices,
  identifiers and labels), in identifier order;
* rejection: indices outside the domain (0, -1, bound + 1, wrong arity, non-edges,
  non-members) and foreign literals raise an exception (any type);
* names: all_variable_labels()[k-1] is group.label(index) for the variable k of a group and
  the default format applied to k elsewhere; the `c varname` / `* varname` lines written by
  to_file(export_varnames=True) and by `cnfgen --varnames` say the same.

Label syntax is whatever the group reports; which exception rejects is free.
"""
import io
import itertools
import math
import re

from ..refmodels import c11_shapes as S

PYTHON_O_STRIDE = {"quick": 4, "thorough": 2}      # every n-th case is repeated in an interpreter started with -O
RULE = ("histories of 1..8 operations on CNF(), OPB() and VariablesManager(BaseCNF()): new_variable, new_block "
        "(1-4 dimensions, zero ranges), new_combinations, new_combinations_with_replacement, new_permutations "
        "(k given / omitted), new_words, new_bipartite_edges (BipartiteGraph / CompleteBipartiteGraph), "
        "new_graph_edges, new_digraph_edges (pred / succ, loops), new_mapping, new_sparse_mapping, "
        "new_binary_mapping, clauses / constraints / update_variable_number introducing 0..k anonymous "
        "variables, refused creations; all histories of length <= 2 (quick) / <= 3 over a reduced alphabet "
        "(thorough) enumerated, longer ones sampled with random shapes; every group judged right after its "
        "creation (all legal indices, all wildcard subsets of sampled indices, out-of-domain probes) and again at "
        "the end, names judged after every operation; plus command lines with --varnames.  distinct = (class, "
        "label style, operation sequence); trivial = no non-empty group was created.")
ASSUMPTIONS = [
    "the legal index set of a shape is the documented one (vmon/refmodels/c11_shapes.py, closed-form counts "
    "cross-checked against the enumeration at start-up); the order inside it is not prescribed, only that "
    "indices() follows the identifiers",
    "a name is whatever group.label(index) reports; for new_variable it is the label that was passed "
    "(positions of unlabelled single variables are not judged)",
    "word groups (combinations, permutations, words) document only the empty pattern: a refused partial "
    "wildcard pattern on them is counted (wildcards_refused_by_word_groups), an answered one must be the filter",
    "a pattern whose fixed coordinate is outside the coordinate's range may be refused or answered with nothing",
    "on a simple graph (v,u) names the same edge as (u,v): it may be refused or must map to the same identifier",
    "graphs are not modified after the group was created (documented precondition); binary mappings m <= 40",
    "the singleton group object is reached through the manager's _groups list (new_variable returns the identifier)",
]
KINDS = ["variable", "block", "combinations", "permutations", "words", "bipartite-edges", "graph-edges",
         "digraph-edges[pred]", "digraph-edges[succ]", "mapping", "sparse-mapping", "binary-mapping"]
REQUIRED = (["groups_checked:" + k for k in KINDS] +
            ["group_attempts:combinations_with_replacement", "groups_checked_empty", "identifiers_checked",
             "inversions_checked_positive", "inversions_checked_negative", "patterns_checked_partial",
             "patterns_checked_full_wildcard", "pattern_ids_checked", "pattern_labels_checked",
             "rejections_observed:index", "rejections_observed:arity", "rejections_observed:non_member",
             "rejections_observed:foreign_literal", "rejections_observed:pattern_out_of_range",
             "wildcards_refused_by_word_groups", "name_positions_compared_grouped",
             "name_positions_compared_default", "name_lists_compared", "custom_default_format_lists",
             "varname_lines_compared_dimacs", "varname_lines_compared_opb", "anonymous_variables_introduced",
             "groups_created_after_anonymous_gap", "single_variables_after_anonymous_gap",
             "creation_refusals_observed", "final_rechecks", "cli_runs", "cli_group_positions_compared",
             "histories_on:CNF", "histories_on:OPB", "histories_on:VM"])
EXHAUSTIVE_SUBSPACES = {
    "quick": ["all histories of length <= 2 over the %d-operation alphabet ALPHABET on each of CNF, OPB, "
              "VariablesManager(BaseCNF()) with explicit labels"],
    "thorough": ["all histories of length <= 2 over ALPHABET and of length 3 over the reduced alphabet CORE, "
                 "on each of the three classes"]}
CASE_TIMEOUT = {"quick": 120, "thorough": 900}

SKIP = object()          # a position whose name is not judged


# ------------------------------------------------------------------ the alphabet of shapes
B1 = [[1, 2], [2, 1], [2, 2]]
B2 = [[1, 1], [3, 2]]
G1 = [[1, 2], [1, 3], [2, 3], [2, 4]]
G2 = [[2, 4], [4, 5], [5, 2]]
D1 = [[1, 2], [2, 3], [3, 1], [1, 3], [2, 2]]
D2 = [[4, 1], [3, 1], [2, 4]]
M1 = [[1, 2], [1, 3], [2, 1], [3, 3]]

ALPHABET = [
    ["var"], ["var", "unlabelled"],
    ["block", [2]], ["block", [0]], ["block", [2, 3]], ["block", [3, 0, 2]], ["block", [2, 1, 2]],
    ["block", [1, 2, 2, 2]],
    ["comb", 4, 2], ["comb", 3, 3], ["comb", 2, 3], ["comb", 3, 0],
    ["combr", 3, 2], ["combr", 2, 0],
    ["perm", 3, 2], ["perm", 3, None], ["perm", 0, None], ["perm", 2, 3],
    ["words", 2, 3], ["words", 3, 1], ["words", 0, 2], ["words", 2, 0],
    ["bip", 2, 2, B1], ["bip", 3, 2, B2], ["bip", 2, 3, []], ["bipc", 2, 2], ["bipc", 0, 3],
    ["graph", 4, G1], ["graph", 5, G2], ["graph", 3, []], ["graph", 0, []],
    ["digraph", 3, D1, "pred"], ["digraph", 3, D1, "succ"], ["digraph", 4, D2, "succ"],
    ["digraph", 4, D2, "pred"], ["digraph", 2, [], "pred"],
    ["map", 2, 3], ["map", 0, 2], ["map", 2, 0], ["map", 1, 1],
    ["smap", 3, 3, M1], ["smap", 2, 2, []],
    ["bmap", 2, 4], ["bmap", 3, 5], ["bmap", 2, 1], ["bmap", 1, 2],
    ["anon", 0, "clause"], ["anon", 1, "clause"], ["anon", 3, "clause"], ["anon", 2, "upd"],
    ["anon", 0, "upd"], ["anon", 2, "constraint"],
    ["bad", "block-negative"], ["bad", "binary-empty-domain"], ["bad", "bipartite-wrong-type"],
    ["bad", "label-arity"], ["bad", "block-2^80"], ["bad", "binary-2^64"],
]
EXHAUSTIVE_SUBSPACES["quick"][0] %= len(ALPHABET)

CORE = [
    ["var"], ["block", [2, 2]], ["block", [0, 2]], ["comb", 3, 2], ["perm", 2, None], ["words", 2, 2],
    ["combr", 2, 2], ["bip", 3, 2, B2], ["graph", 4, G1], ["digraph", 3, D1, "succ"], ["digraph", 3, D1, "pred"],
    ["map", 1, 2], ["smap", 3, 3, M1], ["bmap", 2, 3], ["anon", 2, "clause"], ["anon", 1, "upd"],
    ["bad", "block-negative"],
]


# ------------------------------------------------------------------ targets
class Target:
    def __init__(self, cls):
        from cnfgen.formula.cnf import CNF
        from cnfgen.formula.opb import OPB
        from cnfgen.formula.basecnf import BaseCNF
        from cnfgen.formula.variables import VariablesManager
        self.cls = cls
        if cls == "CNF":
            self.F = self.V = CNF()
        elif cls == "OPB":
            self.F = self.V = OPB()
        else:
            self.F = BaseCNF()
            self.V = VariablesManager(self.F)


class Rec:
    """One group in the shadow model."""
    def __init__(self, op, pos, first, size):
        self.op, self.pos, self.first, self.size = op, pos, first, size
        self.kind = S.kind_name(op)
        self.g = None
        self.enum = []        # legal indices in identifier order (as verified)
        self.ids = []
        self.names = []       # group.label(index) for every identifier, or SKIP
        self.reported = None  # single variables: what the group reports as its label


class Shadow:
    def __init__(self):
        self.numvar = 0
        self.recs = []
        self.covered = 0      # largest identifier that belongs to a group

    def owner(self, k):
        for r in self.recs:
            if r.first <= k < r.first + r.size:
                return r
        return None

    def expected_names(self, fmt):
        out = [fmt.format(k) for k in range(1, self.numvar + 1)]
        for r in self.recs:
            for j, nm in enumerate(r.names):
                out[r.first - 1 + j] = nm
        return out


def materialize(x):
    if isinstance(x, (int, str)) or x is None:
        return x
    return list(x)


def labels_for(op, pos, lab):
    """The label= argument for a creation call, or None to leave the default."""
    if lab == 1:
        return None
    k, a = op[0], S.arity(op)
    if k == "var":
        return None if (len(op) > 1 and op[1] == "unlabelled") else "V%d" % pos
    if lab == 3:           # names outside ASCII
        if k in S.WORD_KINDS:
            return "\u03c9%d\u27e8{}\u27e9" % pos
        return "\u03b1%d_" % pos + "\u00b7".join(["{}"] * a) + "\u00e9"
    if lab == 4:           # the empty label / a label without placeholders where the shape has a single variable per index set
        return ""
    if lab == 2:           # escaped braces, blanks
        if k in S.WORD_KINDS:
            return "w%d_{{{}}}" % pos
        return "z%d_{{" % pos + " ".join(["{}"] * a) + "}}"
    if k == "block":
        return "B%d[" % pos + ",".join(["{}"] * a) + "]"
    if k in S.WORD_KINDS:
        return "W%d<{}>" % pos
    if k in ("map", "smap"):
        return "f%d({})={}" % pos
    if k == "bmap":
        return "v%d({},{})" % pos
    return "E%d({},{})" % pos


_SHARED = {}        # Graph objects of the current history, by vertex count


def build_graph(op):
    import cnfgen.graphs as g
    k = op[0]
    if k in ("bip", "smap") and len(op) > 4:
        from ..ducks import computed_bipartite
        if op[4] == "user-class":
            G = computed_bipartite(op[1], op[2], [tuple(e) for e in op[3]])
        else:
            G = computed_bipartite(op[1], op[2], [tuple(e) for e in op[3]], order="preference", base="BaseBipartiteGraph")
        _SHARED["user_class"] = _SHARED.get("user_class", 0) + 1
    elif k in ("bip", "smap"):
        G = g.BipartiteGraph(op[1], op[2])
        for u, v in op[3]:
            G.add_edge(u, v)
    elif k == "bipc":
        G = g.CompleteBipartiteGraph(op[1], op[2])
    elif k == "graph":
        want = {tuple(sorted(e)) for e in op[2]}
        G = _SHARED.get(op[1]) if len(op) > 3 and op[3] == "reuse" else None
        if G is not None:
            # the caller's own Graph object, used for an earlier group, edited in place to the edge set of this op
            for e in [e for e in G.edges() if tuple(sorted(e)) not in want]:
                G.remove_edge(*e)
            for u, v in op[2]:
                G.add_edge(u, v)
            _SHARED["reused"] = _SHARED.get("reused", 0) + 1
        else:
            G = g.Graph(op[1])
            for u, v in op[2]:
                G.add_edge(u, v)
        _SHARED[op[1]] = G
    else:
        G = g.DirectedGraph(op[1])
        for u, v in op[2]:
            G.add_edge(u, v)
    return G


def create(ctx, T, op, pos, lab):
    """-> (status, value) of the creation call"""
    V, k = T.V, op[0]
    kw = {}
    label = labels_for(op, pos, lab)
    if label is not None:
        kw["label"] = label
    if k == "var":
        return ctx.call(V.new_variable, **kw)
    if k == "block":
        return ctx.call(V.new_block, *op[1], **kw)
    if k == "comb":
        return ctx.call(V.new_combinations, op[1], op[2], **kw)
    if k == "combr":
        return ctx.call(V.new_combinations_with_replacement, op[1], op[2], **kw)
    if k == "perm":
        if op[2] is None:
            return ctx.call(V.new_permutations, op[1], **kw)
        return ctx.call(V.new_permutations, op[1], op[2], **kw)
    if k == "words":
        return ctx.call(V.new_words, op[1], op[2], **kw)
    if k in ("bip", "bipc"):
        return ctx.call(V.new_bipartite_edges, build_graph(op), **kw)
    if k == "graph":
        return ctx.call(V.new_graph_edges, build_graph(op), **kw)
    if k == "digraph":
        if op[3] == "pred" and pos % 2:
            return ctx.call(V.new_digraph_edges, build_graph(op), **kw)      # default sortby
        return ctx.call(V.new_digraph_edges, build_graph(op), sortby=op[3], **kw)
    if k == "map":
        return ctx.call(V.new_mapping, op[1], op[2], **kw)
    if k == "smap":
        return ctx.call(V.new_sparse_mapping, build_graph(op), **kw)
    if k == "bmap":
        return ctx.call(V.new_binary_mapping, op[1], op[2], **kw)
    raise ValueError(op)


def create_bad(ctx, T, what):
    import cnfgen.graphs as g
    V = T.V
    if what == "block-negative":
        return ctx.call(V.new_block, 2, -1)
    if what == "block-no-dimension":
        return ctx.call(V.new_block)
    if what == "binary-empty-domain":
        return ctx.call(V.new_binary_mapping, 0, 2)
    if what == "bipartite-wrong-type":
        return ctx.call(V.new_bipartite_edges, g.Graph(2))
    if what == "label-arity":
        return ctx.call(V.new_block, 2, label="q{}{}")
    if what == "words-negative":
        return ctx.call(V.new_words, 2, -1)
    if what == "digraph-sortby":
        return ctx.call(V.new_digraph_edges, g.DirectedGraph(2), sortby="both")
    if what == "sparse-mapping-wrong-type":
        return ctx.call(V.new_sparse_mapping, g.Graph(2))
    if what == "mapping-negative":
        return ctx.call(V.new_mapping, -1, 2)
    # groups too large to be numbered at all (2^63 variables or more): refused, and the formula stays as it was
    if what == "block-2^80":
        return ctx.call(V.new_block, 2 ** 40, 2 ** 40)
    if what == "block-2^63":
        return ctx.call(V.new_block, 2 ** 63)
    if what == "binary-2^64":
        return ctx.call(V.new_binary_mapping, 2 ** 62, 4)
    raise ValueError(what)


BAD = ["block-negative", "block-no-dimension", "binary-empty-domain", "bipartite-wrong-type", "label-arity",
       "words-negative", "digraph-sortby", "sparse-mapping-wrong-type", "mapping-negative", "block-2^80", "block-2^63", "binary-2^64"]


# ------------------------------------------------------------------ judging one group
def pattern_list(op, legal, r):
    """Patterns with at least one None and at least one fixed coordinate."""
    a = S.arity(op)
    if a < 1:
        return []
    bnd = S.bounds(op)
    pats = set()
    bases = list(legal)
    if len(bases) > 6:
        bases = [bases[0], bases[-1]] + r.sample(bases[1:-1], 4)
    if not bases:
        bases = [tuple(max(lo, min(hi, 1)) for lo, hi in bnd)]
    if a >= 2:
        for base in bases:
            for mask in range(1, (1 << a) - 1):
                pats.add(tuple(None if (mask >> i) & 1 else base[i] for i in range(a)))
    # one fixed coordinate, every in-range value (isolated vertices, empty rows), and the two neighbours outside
    if a >= 2:
        for i, (lo, hi) in enumerate(bnd):
            vals = list(range(lo, min(hi, lo + 5) + 1)) + [lo - 1, hi + 1]
            for v in vals:
                pats.add(tuple(v if j == i else None for j in range(a)))
    return sorted(pats, key=repr)


def probe_list(op, legal, r):
    """[(category, index)] of indices that are outside the domain."""
    a = S.arity(op)
    bnd = S.bounds(op)
    legal_set = set(legal)
    out = []
    base = legal[len(legal) // 2] if legal else tuple(max(lo, 1) for lo, hi in bnd)
    for i, (lo, hi) in enumerate(bnd):
        for v in (lo - 1, hi + 1, -1 if lo > 0 else -2):
            out.append(("index", tuple(v if j == i else base[j] for j in range(a))))
    if a >= 2:
        out.append(("arity", tuple(base[:-1])))
    if a >= 1:
        out.append(("arity", tuple(base) + (base[-1],)))
    if op[0] == "var":
        out.append(("arity", (1,)))
    # in-range non members
    if op[0] in S.WORD_KINDS or op[0] in ("bip", "smap", "graph", "digraph"):
        box = [range(lo, hi + 1) for lo, hi in bnd]
        total = 1
        for b in box:
            total *= len(b)
        cands = []
        if 0 < total <= 200:
            for t in itertools.product(*box):
                if t in legal_set:
                    continue
                if op[0] == "graph" and (t[1], t[0]) in legal_set:
                    continue
                cands.append(t)
        if len(cands) > 6:
            cands = r.sample(cands, 6)
        out += [("non_member", t) for t in cands]
    return out


def check_group(ctx, T, model, rec, r):
    """Judge a freshly created group completely.  False at the first violation."""
    g, op, kind = rec.g, rec.op, rec.kind
    where = "%s, %s created as operation %d (first identifier %d)" % (T.cls, op, rec.pos, rec.first)
    legal = S.legal_indices(op)
    n, first, a = rec.size, rec.first, S.arity(op)

    def bad(what, msg, **detail):
        ctx.violation("%s:%s" % (kind, what), "%s: %s" % (where, msg), **detail)
        return False

    st, ln = ctx.call(len, g)
    if st == "exc" or ln != n:
        return bad("wrong-number-of-variables", "len(group) is %r, the shape has %d indices" % (ln, n))
    st, enum = ctx.call(lambda: [tuple(t) for t in g.indices()])
    if st == "exc":
        return bad("indices-raises", "indices() raised %r" % (enum,))
    if len(enum) != len(set(enum)) or set(enum) != set(legal):
        return bad("indices-not-the-legal-index-set", "indices() lists %r, the legal indices are %r"
                   % (enum[:40], legal[:40]))
    ids = []
    for idx in enum:
        st, v = ctx.call(lambda: materialize(g(*idx)))
        if st == "exc":
            return bad("rejects-legal-index", "group%r raised %r" % (idx, v))
        if a == 0 and isinstance(v, list) and len(v) == 1:
            v = v[0]
        if type(v) is not int:
            return bad("identifier-not-an-int", "group%r is %r" % (idx, v))
        ids.append(v)
    want = list(range(first, first + n))
    if sorted(ids) != want:
        return bad("ids-not-the-next-contiguous-range", "identifiers %r, the next free range is %d..%d"
                   % (ids[:40], first, first + n - 1), indices=enum[:40])
    if ids != want:
        return bad("indices-not-in-identifier-order", "indices() order %r has identifiers %r" % (enum[:40], ids[:40]))
    ctx.count("identifiers_checked", n)
    st, own = ctx.call(lambda: list(g))
    if st == "ok" and own != want:
        return bad("ids-not-the-next-contiguous-range", "iter(group) gives %r, expected %d..%d"
                   % (own[:40], first, first + n - 1))
    rec.enum, rec.ids = enum, ids

    # inversion
    for idx, v in zip(enum, ids):
        for lit in (v, -v):
            st, t = ctx.call(lambda: tuple(g.to_index(lit)))
            if st == "exc":
                return bad("to_index-rejects-own-literal", "to_index(%d) raised %r" % (lit, t))
            if t != idx:
                return bad("to_index-not-inverse" + ("" if lit > 0 else "-on-negative-literal"),
                           "to_index(%d) is %r but group%r is %d" % (lit, t, idx, v))
        ctx.count("inversions_checked_positive")
        ctx.count("inversions_checked_negative")

    # names of the members
    for idx in enum:
        st, lab = ctx.call(lambda: materialize(g.label(*idx)))
        if st == "exc":
            return bad("label-rejects-legal-index", "label%r raised %r" % (idx, lab))
        if a == 0 and isinstance(lab, list) and len(lab) == 1:
            lab = lab[0]
        rec.names.append(lab)
        tmpl = getattr(rec, "template", None)
        if tmpl is not None and kind != "variable" and op[0] not in S.WORD_KINDS:
            try:
                want = tmpl.format(*idx)
            except (IndexError, KeyError, ValueError):
                want = None
            if want is not None and lab != want:
                return bad("label-not-the-template-given", "created with label=%r: label%r is %r, the template gives %r" % (tmpl, idx, lab, want))
            ctx.count("labels_checked_against_the_template")

    # full wildcard
    full = [()] + ([(None,) * a] if a >= 1 else [])
    for p in full:
        if a == 0 and kind != "variable":
            continue            # g() of a 0-ary word group is the identifier itself (judged above)
        st, got = ctx.call(lambda: [tuple(t) for t in g.indices(*p)])
        if st == "exc":
            if op[0] in S.WORD_KINDS and p:
                ctx.count("wildcards_refused_by_word_groups")
                continue
            return bad("wildcard-pattern-refused", "indices%r raised %r" % (p, got))
        if got != enum:
            return bad("wildcard-pattern-not-the-filter-of-the-enumeration",
                       "indices%r gives %r, expected all of %r" % (p, got[:40], enum[:40]))
        if kind == "variable":
            continue
        st, gi = ctx.call(lambda: materialize(g(*p)))
        st2, gl = ctx.call(lambda: materialize(g.label(*p)))
        if st == "exc" or gi != ids:
            return bad("wildcard-pattern-identifiers", "group%r gives %r, expected %r" % (p, gi, ids[:40]))
        if st2 == "exc" or gl != rec.names:
            return bad("wildcard-pattern-labels", "label%r gives %r, expected %r" % (p, gl, rec.names[:40]))
        ctx.count("patterns_checked_full_wildcard")

    # partial patterns
    idof = dict(zip(enum, ids))
    nameof = dict(zip(enum, rec.names))
    for p in pattern_list(op, enum, r):
        exp = [idx for idx in enum if S.matches(op, p, idx)]
        inb = S.in_bounds(op, p)
        st, got = ctx.call(lambda: [tuple(t) for t in g.indices(*p)])
        if st == "exc":
            if op[0] in S.WORD_KINDS:
                ctx.count("wildcards_refused_by_word_groups")
            elif inb:
                return bad("wildcard-pattern-refused", "indices%r raised %r; matching indices: %r" % (p, got, exp))
            else:
                ctx.count("rejections_observed:pattern_out_of_range")
            continue
        if not inb:
            if got:
                return bad("wildcard-pattern-out-of-range-answered", "indices%r gives %r" % (p, got[:20]))
            ctx.count("patterns_out_of_range_answered_empty")
            continue
        if got != exp:
            what = ("wildcard-pattern-not-in-identifier-order" if sorted(got) == sorted(exp)
                    else "wildcard-pattern-not-the-filter-of-the-enumeration")
            return bad(what, "indices%r gives %r, the filter of the enumeration is %r" % (p, got[:40], exp[:40]))
        ctx.count("patterns_checked_partial")
        if not exp:
            ctx.count("patterns_checked_partial_empty_answer")
        st, gi = ctx.call(lambda: materialize(g(*p)))
        if st == "exc" or gi != [idof[i] for i in exp]:
            return bad("wildcard-pattern-identifiers", "group%r gives %r, expected %r"
                       % (p, gi, [idof[i] for i in exp]))
        ctx.count("pattern_ids_checked")
        st, gl = ctx.call(lambda: materialize(g.label(*p)))
        if st == "exc" or gl != [nameof[i] for i in exp]:
            return bad("wildcard-pattern-labels", "label%r gives %r, expected %r"
                       % (p, gl, [nameof[i] for i in exp]))
        ctx.count("pattern_labels_checked")

    # rejection of indices outside the domain
    for cat, idx in probe_list(op, enum, r):
        st, v = ctx.call(lambda: materialize(g(*idx)))
        if st == "exc":
            ctx.count("rejections_observed:" + cat)
            continue
        if isinstance(v, list) and not v:
            ctx.count("out_of_domain_answered_with_nothing")
            continue
        return bad("accepts-index-outside-domain", "group%r is %r; legal indices: %r" % (idx, v, enum[:30]),
                   category=cat)
    if op[0] == "graph":
        for (u, v) in enum[:6]:
            st, w = ctx.call(lambda: materialize(g(v, u)))
            if st == "exc":
                ctx.count("reversed_edges_refused")
            elif w != idof[(u, v)]:
                return bad("reversed-edge-maps-elsewhere", "group(%d,%d) is %r, group(%d,%d) is %d"
                           % (v, u, w, u, v, idof[(u, v)]))
            else:
                ctx.count("reversed_edges_same_identifier")
    # foreign literals
    others = [q.first for q in model.recs if q is not rec and q.size and not (first <= q.first < first + n)]
    for lit in [0, first - 1, -(first - 1), first + n, -(first + n), 10 ** 6] + others[:3]:
        if first <= abs(lit) < first + n:
            continue
        st, t = ctx.call(lambda: materialize(g.to_index(lit)))
        if st == "exc":
            ctx.count("rejections_observed:foreign_literal")
        else:
            return bad("to_index-accepts-foreign-literal", "to_index(%d) is %r; the group owns %d..%d"
                       % (lit, t, first, first + n - 1))
    ctx.count("groups_checked:" + kind)
    if n == 0:
        ctx.count("groups_checked_empty")
    return True


# ------------------------------------------------------------------ names
def name_mechanism(model, k, got):
    """A semantic label for 'position k carries the wrong name'."""
    owner = model.owner(k)
    if owner is not None:
        return "names:wrong-name-at-a-%s-variable" % owner.kind
    nxt = None
    for r in model.recs:
        if r.size and r.first > k and (nxt is None or r.first < nxt.first):
            nxt = r
    # the name of a single named variable shows up at the first position of the anonymous gap in front of it
    if nxt is not None and nxt.kind == "variable" and all(model.owner(j) is None for j in range(k, nxt.first)) \
            and (k == 1 or model.owner(k - 1) is not None) and got in (nxt.reported, str(nxt.reported)):
        return "names:single-variable-after-anonymous-variables-is-named-before-the-gap"
    return "names:wrong-name-at-an-anonymous-variable"


def compare_names(ctx, model, got, fmt, where, source):
    exp = model.expected_names(fmt)
    if len(got) != len(exp):
        ctx.violation("%s:wrong-number-of-names" % source, "%s: %d names for %d variables: %r"
                      % (where, len(got), len(exp), got[:40]))
        return False
    for k, (gn, en) in enumerate(zip(got, exp), start=1):
        if en is SKIP:
            ctx.count("name_positions_not_judged_unlabelled")
            continue
        if source != "names":
            en = str(en)
        if gn != en:
            mech = name_mechanism(model, k, gn)
            if source != "names":
                mech = source + mech[len("names"):]
            ctx.violation(mech, "%s: variable %d is reported as %r, its name is %r (all names: %r)"
                          % (where, k, gn, en, got[:40]), expected=[None if e is SKIP else e for e in exp[:40]])
            return False
        ctx.count("name_positions_compared_grouped" if model.owner(k) else "name_positions_compared_default")
    ctx.count("name_lists_compared")
    return True


def check_names(ctx, T, model, where, fmt=None):
    if fmt is None:
        st, got = ctx.call(lambda: list(T.V.all_variable_labels()))
        fmt = "x{}"
    else:
        st, got = ctx.call(lambda: list(T.V.all_variable_labels(default_label_format=fmt)))
        ctx.count("custom_default_format_lists")
    if st == "exc":
        ctx.violation("names:all_variable_labels-raises", "%s: all_variable_labels() raised %r" % (where, got))
        return False
    return compare_names(ctx, model, got, fmt, where, "names")


VARNAME = {"dimacs": re.compile(r"^c varname (\d+) (.*)$"), "opb": re.compile(r"^\* varname x(\d+) (.*)$")}


def parse_varnames(text, fmt):
    """-> (list of names by position, problem or None)"""
    names = []
    for line in text.split("\n"):
        m = VARNAME[fmt].match(line)
        if m:
            if int(m.group(1)) != len(names) + 1:
                return names, "varname line %r is out of sequence" % line
            names.append(m.group(2))
    return names, None


def check_varname_lines(ctx, T, model, where):
    if T.cls == "VM":
        return True
    for fmt in (("dimacs", "opb") if T.cls == "CNF" else ("opb",)):
        out = io.StringIO()
        st, val = ctx.call(T.F.to_file, out, fileformat=fmt, export_header=False, export_varnames=True)
        if st == "exc":
            ctx.violation("varnames-%s:to_file-raises" % fmt, "%s: to_file(export_varnames=True) raised %r" % (where, val))
            return False
        names, problem = parse_varnames(out.getvalue(), fmt)
        if problem:
            ctx.violation("varnames-%s:numbering" % fmt, "%s: %s" % (where, problem))
            return False
        if not compare_names(ctx, model, names, "x{}", where + " [%s varname lines]" % fmt, "varnames-" + fmt):
            return False
        ctx.count("varname_lines_compared_" + fmt, len(names))
    return True


# ------------------------------------------------------------------ one history
def singleton_group(T):
    groups = getattr(T.V, "_groups", None)
    if groups:
        return groups[-1]
    return None


def apply_op(ctx, T, model, op, pos, lab, r, where):
    """-> True to go on, False when a violation was recorded or the model cannot follow."""
    F, k = T.F, op[0]
    if k == "anon":
        target = model.numvar + op[1]
        how = op[2] if (op[2] != "constraint" or T.cls == "OPB") else "clause"
        if how == "upd":
            st, val = ctx.call(F.update_variable_number, target)
        elif how == "constraint":
            con = ([(2, -target)] if target else []) + ([(1, 1)] if target > 1 else []) + [">=", 1]
            st, val = ctx.call(F.add_constraint, con)
        else:
            st, val = ctx.call(F.add_clause, ([-target] if target else []) + ([1] if target > 1 else []))
        if st == "exc":
            ctx.violation("history:%s-raises" % how, "%s: %r raised %r" % (where, op, val))
            return False
        if op[1]:
            ctx.count("anonymous_variables_introduced", op[1])
        model.numvar = target
        return True
    if k == "bad":
        st, val = create_bad(ctx, T, op[1])
        if st == "exc":
            ctx.count("creation_refusals_observed")
            return True
        ctx.count("undocumented_shape_accepted")
        return False            # nothing to compare it with
    kind = S.kind_name(op)
    ctx.count("group_attempts:" + kind)
    n = S.closed_count(op)
    first = model.numvar + 1
    st, g = create(ctx, T, op, pos, lab)
    if st == "exc":
        ctx.violation("%s:creation-raises-%s" % (kind, type(g).__name__),
                      "%s: creating %r raised %r" % (where, op, g))
        return False
    rec = Rec(op, pos, first, n)
    if first - 1 > model.covered and n:
        ctx.count("groups_created_after_anonymous_gap")
        if k == "var":
            ctx.count("single_variables_after_anonymous_gap")
    if k == "var":
        if type(g) is not int or g != first:
            ctx.violation("variable:ids-not-the-next-contiguous-range",
                          "%s: new_variable returned %r, the next free identifier is %d" % (where, g, first))
            return False
        passed = labels_for(op, pos, lab)
        sg = singleton_group(T)
        if sg is None or type(sg).__name__ != "SingletonVariableGroup":
            ctx.count("singleton_group_not_reachable")
            rec.g, rec.enum, rec.ids, rec.names = None, [()], [first], [SKIP if passed is None else passed]
            rec.reported = passed
        else:
            rec.g = sg
    else:
        rec.g = g
    model.recs.append(rec)
    st, nv = ctx.call(F.number_of_variables)
    if st == "exc" or nv != model.numvar + n:
        ctx.violation("%s:variable-count-after-creation" % kind,
                      "%s: the formula has %r variables after the group, expected %d + %d" % (where, nv, model.numvar, n))
        return False
    model.numvar += n
    if n:
        model.covered = model.numvar
    if rec.g is not None:
        rec.template = labels_for(op, pos, lab)
        if not check_group(ctx, T, model, rec, r):
            return False
        if k == "var":
            passed = labels_for(op, pos, lab)
            rec.reported = rec.names[0]
            if passed is None:
                rec.names = [SKIP]
            elif rec.names != [passed]:
                ctx.violation("variable:label-is-not-the-name-given", "%s: label() is %r, the variable was created as %r"
                              % (where, rec.names, passed))
                return False
    return True


def recheck(ctx, model, where):
    """Earlier groups still answer as they did when they were created."""
    for rec in model.recs:
        if rec.g is None:
            continue
        for idx, v in list(zip(rec.enum, rec.ids))[:50]:
            st, w = ctx.call(lambda: materialize(rec.g(*idx)))
            if isinstance(w, list) and len(w) == 1 and not idx:
                w = w[0]
            st2, t = ctx.call(lambda: tuple(rec.g.to_index(-v)))
            if st == "exc" or st2 == "exc" or w != v or t != idx:
                ctx.violation("%s:group-changed-by-later-operations" % rec.kind,
                              "%s: group %r of operation %d: index %r was %d, now %r / to_index %r"
                              % (where, rec.op, rec.pos, idx, v, w, t))
                return False
        ctx.count("final_rechecks")
    return True


def run_history(ctx, cls, ops, lab, r):
    S.selfcheck()
    T = Target(cls)
    model = Shadow()
    done = []
    ok = True
    _SHARED.clear()
    for pos, op in enumerate(ops):
        done.append(op)
        where = "%s history %r (label style %d)" % (cls, done, lab)
        ok = apply_op(ctx, T, model, op, pos, lab, r, where)
        if ok:
            st, nv = ctx.call(T.F.number_of_variables)
            if nv != model.numvar:
                ctx.violation("history:variable-count", "%s: %r variables, the model has %d" % (where, nv, model.numvar))
                ok = False
        ok = ok and check_names(ctx, T, model, where)
        if not ok:
            break
    if ok:
        where = "%s history %r (label style %d)" % (cls, done, lab)
        ok = (recheck(ctx, model, where) and check_names(ctx, T, model, where, fmt="y[{}]")
              and check_varname_lines(ctx, T, model, where))
    ctx.count("histories_on:" + cls)
    ctx.count("groups_on_a_reused_graph_object", _SHARED.get("reused", 0))
    ctx.count("groups_on_a_user_class_graph", _SHARED.get("user_class", 0))
    nontrivial = any(rc.size for rc in model.recs)
    ctx.judged((cls, lab, repr(ops)), nontrivial=nontrivial,
               sample={"class": cls, "label_style": lab, "history": ops, "variables": model.numvar,
                       "groups": [[rc.kind, rc.first, rc.size] for rc in model.recs]})


def case_two_formulas(ctx, cls, rseed, count):
    """Two formulas (variable managers) alive at the same time, groups created alternately in one and the other: each
    keeps its own contiguous numbering and its own names."""
    S.selfcheck()
    r = ctx.rng("c11-two", cls, rseed)
    for _ in range(count):
        _SHARED.clear()
        objs = [(Target(cls), Shadow()), (Target(cls), Shadow())]
        done = []
        ok = True
        lab = r.choice([0, 0, 1, 2, 3])
        for pos in range(r.randint(2, 9)):
            k = r.randrange(2)
            T, model = objs[k]
            op = random_op(r)
            done.append([k, op])
            where = "%s, two formulas alive, history %r (label style %d)" % (cls, done, lab)
            ok = apply_op(ctx, T, model, op, pos, lab, r, where)
            ctx.count("interleaved_ops_on_two_formulas")
            for j, (Tj, mj) in enumerate(objs):
                if not ok:
                    break
                st, nv = ctx.call(Tj.F.number_of_variables)
                if nv != mj.numvar:
                    ctx.violation("history:variable-count", "%s: formula %d has %r variables, its model %d" % (where, j, nv, mj.numvar))
                    ok = False
                ok = ok and check_names(ctx, Tj, mj, where + " (formula %d)" % j)
            if not ok:
                break
        if ok:
            for j, (Tj, mj) in enumerate(objs):
                where = "%s, two formulas alive, history %r, formula %d" % (cls, done, j)
                ok = ok and recheck(ctx, mj, where) and check_names(ctx, Tj, mj, where, fmt="y[{}]")
        ctx.judged(("two", cls, lab, repr(done)), nontrivial=any(rc.size for _, m in objs for rc in m.recs),
                   sample={"class": cls, "interleaved_history": done[:8]})


# ------------------------------------------------------------------ random shapes
def random_edges(r, pairs, density):
    return [list(p) for p in pairs if r.random() < density]


def random_op(r):
    x = r.random()
    if x < 0.08:
        return ["var"] if r.random() < 0.85 else ["var", "unlabelled"]
    if x < 0.22:
        d = r.choice([1, 1, 2, 2, 3, 3, 4])
        return ["block", [r.choice([0, 1, 2, 2, 3, 3, 4] if d < 4 else [1, 2, 2, 3]) for _ in range(d)]]
    if x < 0.40:
        kind = r.choice(["comb", "combr", "perm", "perm", "words"])
        n = r.randint(0, 5)
        k = r.randint(0, 4)
        if kind == "words":
            n, k = r.randint(0, 3), r.randint(0, 3)
        if kind == "perm":
            n = r.randint(0, 4)
            k = None if r.random() < 0.4 else r.randint(0, 4)
        return [kind, n, k]
    if x < 0.50:
        L, R = r.randint(0, 5), r.randint(0, 5)
        if r.random() < 0.2:
            return ["bipc", L, R]
        op = ["bip", L, R, random_edges(r, itertools.product(range(1, L + 1), range(1, R + 1)), r.choice([0.2, 0.5, 0.9]))]
        x = r.random()
        return op + (["user-class"] if x < 0.2 else ["user-class-own-order"] if x < 0.4 else [])
    if x < 0.60:
        n = r.randint(0, 7)
        E = random_edges(r, itertools.combinations(range(1, n + 1), 2), r.choice([0.2, 0.5, 0.9]))
        return ["graph", n, [e if r.random() < 0.5 else e[::-1] for e in E]]
    if x < 0.70:
        n = r.randint(0, 5)
        E = random_edges(r, itertools.product(range(1, n + 1), repeat=2), r.choice([0.15, 0.4, 0.8]))
        r.shuffle(E)
        return ["digraph", n, E, r.choice(["pred", "succ"])]
    if x < 0.76:
        return ["map", r.randint(0, 4), r.randint(0, 4)]
    if x < 0.82:
        L, R = r.randint(0, 4), r.randint(0, 4)
        op = ["smap", L, R, random_edges(r, itertools.product(range(1, L + 1), range(1, R + 1)), r.choice([0.3, 0.6]))]
        x = r.random()
        return op + (["user-class"] if x < 0.2 else ["user-class-own-order"] if x < 0.4 else [])
    if x < 0.88:
        return ["bmap", r.randint(1, 4), r.choice([1, 2, 3, 4, 5, 7, 8, 9, 15, 16, 17, 32, 33, 40])]
    if x < 0.97:
        return ["anon", r.choice([0, 1, 1, 2, 3, 5, 9]), r.choice(["clause", "clause", "upd", "constraint"])]
    return ["bad", r.choice(BAD)]


# ------------------------------------------------------------------ cases
def case_enumerated(ctx, cls, alphabet, prefix, lab):
    """All histories prefix + [x], x over the alphabet (prefix == [] : the single operations, then [])."""
    ops = ALPHABET if alphabet == "full" else CORE
    r = ctx.rng("c11-enum", cls, alphabet, repr(prefix))
    if not prefix:
        run_history(ctx, cls, [], lab, r)
    for x in ops:
        run_history(ctx, cls, [ops[i] for i in prefix] + [x], lab, r)


def case_sampled(ctx, cls, rseed, count, minlen, maxlen):
    r = ctx.rng("c11-sampled", cls, rseed)
    for _ in range(count):
        ops = [random_op(r) for _ in range(r.randint(minlen, maxlen))]
        for i, op in enumerate(list(ops)):
            if op[0] == "graph" and op[1] >= 3 and op[2] and r.random() < 0.6:
                # the same Graph object again later, edited in between: an edge moved (counts unchanged), removed, or added
                n, E = op[1], [tuple(sorted(e)) for e in op[2]]
                free = [e for e in itertools.combinations(range(1, n + 1), 2) if e not in E]
                how = r.choice(["move", "move", "remove", "add"])
                E2 = list(E)
                if how in ("move", "remove"):
                    E2.remove(r.choice(E2))
                if how in ("move", "add") and free:
                    E2.append(r.choice(free))
                ops.insert(r.randint(i + 1, len(ops)), ["graph", n, [list(e) for e in E2], "reuse"])
        run_history(ctx, cls, ops, r.choice([0, 0, 1, 2, 3, 3, 4]), r)


def case_large(ctx, cls, rseed):
    """A few bigger shapes behind a large anonymous prefix."""
    r = ctx.rng("c11-large", cls, rseed)
    n = r.randint(4, 9)
    E = random_edges(r, itertools.combinations(range(1, n + 1), 2), 0.5)
    ops = [["anon", r.randint(50, 400), "upd"], ["var"], ["block", [r.randint(3, 7), r.randint(2, 6), r.randint(1, 4)]],
           ["anon", r.randint(1, 30), "clause"], ["perm", 5, r.choice([None, 3])], ["var"], ["graph", n, E],
           ["digraph", n, E + [e[::-1] for e in E[::2]], r.choice(["pred", "succ"])],
           ["bmap", r.randint(3, 6), r.randint(17, 40)], ["comb", 7, 3], ["map", 6, 7], ["anon", 3, "upd"], ["var"]]
    # bipartite graphs of a user class with left vertices of degree 15-70, neighbours listed in the class's own order
    L, R = r.randint(2, 4), r.choice([16, 17, 18, 33, 47, 48, 49, 64, 70])
    dense = [[u, v] for u in range(1, L + 1) for v in range(1, R + 1) if r.random() < 0.93]
    ops += [["bip", L, R, dense, "user-class-own-order"], ["smap", L, R, dense[::2] + dense[1::4], "user-class-own-order"],
            ["bip", L, R, dense, "user-class"]]
    r.shuffle(ops)
    run_history(ctx, cls, ops, 0, r)


def case_huge(ctx, cls, rseed):
    """Groups far too large to enumerate (the library keeps them as ranges): blocks and binary mappings with 2^40..2^62
    variables.  Identifiers are computed, so they are compared with the closed form at sampled indices, including
    identifiers above 2^53 where floating point stops being exact."""
    r = ctx.rng("c11-huge", cls, rseed)
    T = Target(cls)
    V = T.V
    pre = r.choice([0, 1, 3, 1000])
    for _ in range(pre):
        V.new_variable()
    first = pre + 1
    shapes = [("bmap", 2 ** 53, 4), ("bmap", 2 ** 53 + 11, 3), ("bmap", 2 ** 58, 17), ("bmap", 2 ** 40, 2 ** 20 + 1),
              ("block", 2 ** 30, 2 ** 31), ("block", 2 ** 20, 2 ** 20, 2 ** 21), ("block", 3, 2 ** 60), ("block", 2 ** 55, 5)]
    r.shuffle(shapes)
    for shape in shapes[:4]:
        kind, dims = shape[0], shape[1:]
        where = "%s: %s%r after %d variables" % (cls, {"bmap": "new_binary_mapping", "block": "new_block"}[kind], dims, first - 1)
        st, g = ctx.call(V.new_binary_mapping if kind == "bmap" else V.new_block, *dims)
        if st == "exc":
            ctx.violation("huge:create:raises:%s" % type(g).__name__, "%s raised %r" % (where, g))
            return
        if kind == "bmap":
            nb = (dims[1] - 1).bit_length()
            size = dims[0] * nb
            ident = lambda idx: first + (idx[0] - 1) * nb + (nb - 1 - idx[1])
            rand_index = lambda: (r.choice([1, dims[0], r.randint(1, dims[0]), dims[0] - r.randint(0, 5), 2 ** 52 + r.randint(-3, 3)]),
                                  r.randint(0, nb - 1))
            legal = lambda idx: 1 <= idx[0] <= dims[0]
        else:
            size = math.prod(dims)
            def ident(idx):
                k = 0
                for d, x in zip(dims, idx):
                    k = k * d + (x - 1)
                return first + k
            rand_index = lambda: tuple(r.choice([1, d, r.randint(1, d), max(1, d - r.randint(0, 3))]) for d in dims)
            legal = lambda idx: True
        st, nv = ctx.call(T.F.number_of_variables)
        if nv != first - 1 + size:
            ctx.violation("huge:variable-count", "%s: %r variables, expected %d" % (where, nv, first - 1 + size))
            return
        ctx.count("huge_groups")
        for _ in range(60):
            idx = rand_index()
            if not legal(idx):
                continue
            want = ident(idx)
            st, got = ctx.call(g, *idx)
            ctx.count("huge_index_probes")
            if st == "exc" or got != want:
                ctx.violation("huge:identifier", "%s: index %r -> %r, expected %d" % (where, idx, got, want))
                return
            for lit in (want, -want):
                st, back = ctx.call(g.to_index, lit)
                if st == "exc" or tuple(back) != tuple(idx):
                    ctx.violation("huge:index-of-identifier", "%s: to_index(%d) -> %r, expected %r" % (where, lit, back, idx))
                    return
        # identifiers picked directly, in particular just above 2^53
        for k in [first, first + size - 1, first + size // 2] + [first + min(size - 1, 2 ** 53 + d) for d in (-1, 0, 1, 2, 3, 5)] + \
                [first + r.randrange(size) for _ in range(30)]:
            st, idx = ctx.call(g.to_index, k)
            ctx.count("huge_identifier_probes")
            if st == "exc":
                ctx.violation("huge:index-of-identifier", "%s: to_index(%d) raised %r" % (where, k, idx))
                return
            if ident(tuple(idx)) != k:
                ctx.violation("huge:index-of-identifier", "%s: to_index(%d) -> %r, which is identifier %d" % (where, k, idx, ident(tuple(idx))))
                return
        ctx.judged(("huge", cls, shape, first), nontrivial=True, sample={"class": cls, "group": [kind] + [str(d) for d in dims], "first": first})
        first += size


CLI_FAMILIES = [
    ["php", "4", "3"], ["php", "3", "3", "--functional", "--onto"], ["bphp", "5", "4"],
    ["op", "4"], ["op", "3", "--total"], ["count", "6", "3"], ["parity", "6"], ["matching", "complete", "4"],
    ["tseitin", "first", "grid", "2", "3"], ["kcolor", "3", "grid", "2", "2"], ["kclique", "3", "complete", "4"],
    ["domset", "2", "grid", "2", "2"], ["ram", "3", "3", "5"], ["peb", "pyramid", "2"], ["stone", "3", "pyramid", "2"],
    ["subsetcard", "complete", "3", "3"], ["cliquecoloring", "5", "3", "2"], ["iso", "complete", "3"],
    ["rphp", "4", "3", "3"], ["vdw", "5", "2", "2"], ["ptn", "5"], ["cpls", "2", "2", "2"],
]


def case_cli(ctx, argv):
    """`cnfgen --varnames <family>`: the c varname lines are numbered 1..n and agree with the groups of the
    formula the same command line builds."""
    from ..cliharness import cli_formula, run_main
    line = "cnfgen --varnames " + " ".join(argv)
    ctx.count("cli_attempts")
    res = run_main("cnfgen", ["-q", "--varnames"] + list(argv))
    if res.exc is not None or res.rc != 0:
        ctx.count("cli_refused_or_failed")     # judged by C18, not here
        return
    try:
        F = cli_formula("cnfgen", ["cnfgen", "-q"] + list(argv))
    except (SystemExit, Exception):            # noqa: BLE001
        ctx.count("cli_refused_or_failed")
        return
    ctx.count("cli_runs")
    names, problem = parse_varnames(res.out, "dimacs")
    m = re.search(r"^p cnf (\d+) (\d+)$", res.out, re.M)
    n = F.number_of_variables()
    if problem or not m or int(m.group(1)) != len(names) or len(names) != n:
        ctx.violation("varnames-cli:numbering", "%s: %s; %d varname lines, header %r, formula has %d variables"
                      % (line, problem, len(names), m and m.group(0), n))
        return
    groups = getattr(F, "_groups", None)
    if groups is None:
        ctx.count("cli_groups_not_reachable")
        return
    owned = {}
    for g in groups:
        if type(g).__name__ == "SingletonVariableGroup":
            st, v = ctx.call(g)
            if st == "ok":
                owned[v] = (g, ())
            continue
        st, enum = ctx.call(lambda: [tuple(t) for t in g.indices()])
        if st == "exc":
            ctx.violation("varnames-cli:indices-raises", "%s: indices() of %r raised %r" % (line, g, enum))
            return
        for idx in enum:
            st, v = ctx.call(lambda: materialize(g(*idx)))
            st2, lab = ctx.call(lambda: materialize(g.label(*idx)))
            if not idx and isinstance(v, list) and len(v) == 1:
                v, lab = v[0], (lab[0] if isinstance(lab, list) else lab)
            if st == "exc" or st2 == "exc" or type(v) is not int or not 1 <= v <= n:
                ctx.violation("varnames-cli:group-index", "%s: index %r of %s gives %r / %r"
                              % (line, idx, type(g).__name__, v, lab))
                return
            if v in owned:
                ctx.violation("varnames-cli:groups-overlap", "%s: variable %d belongs to two groups" % (line, v))
                return
            owned[v] = (g, idx, lab)
    for k in range(1, n + 1):
        if k in owned:
            ent = owned[k]
            exp = ent[2] if len(ent) == 3 else ent[0].label()
            kind = type(ent[0]).__name__
        else:
            exp, kind = "x%d" % k, "anonymous"
        if names[k - 1] != str(exp):
            ctx.violation("varnames-cli:wrong-name-at-a-%s-variable" % kind,
                          "%s: 'c varname %d %s' but the variable's name is %r" % (line, k, names[k - 1], exp))
            return
        ctx.count("cli_group_positions_compared" if k in owned else "cli_default_positions_compared")
    ctx.judged(("cli", tuple(argv)), nontrivial=bool(owned), sample={"argv": line, "variables": n})


# ------------------------------------------------------------------ workload
def workload(tier, seed):
    nA = len(ALPHABET)
    for cls in ("CNF", "OPB", "VM"):
        yield "enumerated", {"cls": cls, "alphabet": "full", "prefix": [], "lab": 0}
        for lab in (1, 2, 3, 4):
            yield "enumerated", {"cls": cls, "alphabet": "full", "prefix": [], "lab": lab}
        for i in range(nA):
            yield "enumerated", {"cls": cls, "alphabet": "full", "prefix": [i], "lab": 0}
        if tier == "thorough":
            for i in range(len(CORE)):
                for j in range(len(CORE)):
                    yield "enumerated", {"cls": cls, "alphabet": "core", "prefix": [i, j], "lab": (i + j) % 3}
    batches = 200 if tier == "quick" else 3000
    for cls in ("CNF", "OPB", "VM"):
        for b in range(batches):
            short = b % 4 == 0
            yield "sampled", {"cls": cls, "rseed": seed * 100000 + b, "count": 25,
                              "minlen": 1 if short else 3, "maxlen": 3 if short else 8}
        for b in range(4 if tier == "quick" else 60):
            yield "large", {"cls": cls, "rseed": seed * 1000 + b}
    for cls in ("CNF", "OPB", "VM"):
        for b in range(3 if tier == "quick" else 40):
            yield "huge", {"cls": cls, "rseed": seed * 1000 + b}
        for b in range(6 if tier == "quick" else 120):
            yield "two_formulas", {"cls": cls, "rseed": seed * 1000 + b, "count": 25}
    for argv in CLI_FAMILIES:
        yield "cli", {"argv": argv}

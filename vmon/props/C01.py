"""C01 -- pigeonhole, matching, counting, subset-cardinality and clique-colouring
families encode exactly their principle.

Each generator is called with the real code, its variable names are decoded
into atoms, and the exact model set (truth table) is compared with the set of
combinatorial objects enumerated by an independent reference written from the
documentation.  Beyond the variable cap objects and near misses are sampled.
"""
import collections
import itertools

from .. import tt
from .. import semantic as S
from .. import pollute

BEFORE_CASE = pollute.wreck        # state-leak adversary: see vmon/pollute.py

PYTHON_O_STRIDE = {"quick": 4, "thorough": 2}      # every n-th case is repeated in an interpreter started with -O
RULE = ("family x parameters x formula class (CNF, OPB) x graph representation (cnfgen / networkx): php m,n in 0..4 x "
        "functional x onto; graph php and subset cardinality on every bipartite graph with sides <= 3 (<= (3,2) in quick) "
        "plus seeded larger ones; binary php m <= 4, n <= 8; relativized php (m,t,n) in 0..3^3; counting M <= 7, p <= 4; "
        "perfect matching on every graph with <= 5 vertices (<= 4 in quick); clique-colouring n <= 4, k,c <= 3; all under "
        "the variable cap (18 quick / 22 thorough) decided over all 2^n assignments; larger instances by sampled objects "
        "and near misses.  distinct = (family, parameters/graph, class); trivial = formula without variables.")
ASSUMPTIONS = ["vmon/tt.py truth tables (self-checked)", "object enumerators in this module, written from the docstrings",
               "variable names reported by the formula identify the atoms (p_{i,j}, e_{u,v}, ...)"]
REQUIRED = ["exact_cases", "satisfiable_cases", "unsatisfiable_cases", "sampled_cases", "opb_cases", "cnf_cases",
            "networkx_inputs", "user_class_inputs", "refused_expected", "graph_object_histories"] + ["family_" + f for f in
            ("php", "gphp", "bphp", "rphp", "count", "matching", "subsetcard", "cliquecoloring")]
CASE_TIMEOUT = {"quick": 300, "thorough": 1800}


def gens():
    import cnfgen
    return cnfgen


def fam_count(ctx, fam, cls):
    ctx.count("family_" + fam)
    ctx.count(cls.lower() + "_cases")


def raised(ctx, fam, desc, exc, allowed=False):
    if allowed and isinstance(exc, (ValueError, TypeError)):
        ctx.count("refused_expected")
        return
    ctx.violation("%s:raises:%s" % (fam, type(exc).__name__), "%s raised %r" % (desc, exc))


# ------------------------------------------------------------------ reference objects
def placements(m, holes_of, holes, functional, onto):
    """Relations pigeon->hole: every pigeon somewhere, every hole at most one pigeon.
    holes_of: {hole: [pigeons that may use it]}.  Yields sets of (pigeon, hole)."""
    hs = list(holes)
    for choice in itertools.product(*[[None] + list(holes_of[h]) for h in hs]):
        if onto and any(c is None for c in choice):
            continue
        cnt = [0] * (m + 1)
        for c in choice:
            if c is not None:
                cnt[c] += 1
        if any(cnt[i] == 0 for i in range(1, m + 1)):
            continue
        if functional and any(cnt[i] > 1 for i in range(1, m + 1)):
            continue
        yield {(c, h) for c, h in zip(choice, hs) if c is not None}


def perfect_matchings(n, E):
    adj = {u: set() for u in range(1, n + 1)}
    for u, v in E:
        adj[u].add(v)
        adj[v].add(u)

    def rec(free):
        if not free:
            yield []
            return
        u = min(free)
        for v in adj[u]:
            if v in free:
                for rest in rec(free - {u, v}):
                    yield [(min(u, v), max(u, v))] + rest
    yield from rec(frozenset(range(1, n + 1)))


def block_partitions(M, p):
    def rec(free):
        if not free:
            yield []
            return
        u = min(free)
        others = sorted(free - {u})
        for rest in itertools.combinations(others, p - 1):
            blk = (u,) + rest
            for tail in rec(free - set(blk)):
                yield [blk] + tail
    if p >= 1:
        yield from rec(frozenset(range(1, M + 1)))


# ------------------------------------------------------------------ cases
def case_php(ctx, cls, mmax, nmax):
    tt.selfcheck()
    K = S.formula_classes()[cls]
    g = gens()
    cap = S.CAP[ctx.tier]
    for m in range(0, mmax + 1):
        for n in range(0, nmax + 1):
            if m * n > cap:
                continue
            for functional in (False, True):
                for onto in (False, True):
                    desc = "PigeonholePrinciple(%d,%d,functional=%s,onto=%s)[%s]" % (m, n, functional, onto, cls)
                    F, exc = S.build(ctx, "php", desc, g.PigeonholePrinciple, m, n, functional=functional,
                                     onto=onto, formula_class=K)
                    if F is None:
                        raised(ctx, "php", desc, exc)
                        continue
                    fam_count(ctx, "php", cls)
                    if F.number_of_variables() != m * n:
                        ctx.violation("php:numvar", "%s has %d variables" % (desc, F.number_of_variables()))
                        continue
                    at = S.decode(ctx, "php", desc, F)
                    if at is None:
                        continue
                    p = at.get("p_{#,#}", {})
                    holes_of = {h: list(range(1, m + 1)) for h in range(1, n + 1)}
                    objs = list(placements(m, holes_of, range(1, n + 1), functional, onto))
                    # closed form for the classic variants: satisfiable iff m <= n (and, onto, n == 0 or m >= 1)
                    if not onto and bool(objs) != (m <= n):
                        raise AssertionError("reference enumerator disagrees with the pigeonhole principle")
                    S.check_models(ctx, "php", desc, F, ([p[a] for a in o] for o in objs),
                                   ("php", m, n, functional, onto, cls), nontrivial=m * n > 0)


def case_gphp(ctx, cls, L, R, masks, as_nx):
    tt.selfcheck()
    K = S.formula_classes()[cls]
    g = gens()
    for mask in masks:
        for functional in (False, True):
            for onto in (False, True):
                G, E = S.bipartite_graph(L, R, mask, as_nx)
                desc = "GraphPigeonholePrinciple(B(%d,%d,%r),functional=%s,onto=%s)[%s%s]" % (
                    L, R, E, functional, onto, cls, S.rep_tag(as_nx))
                F, exc = S.build(ctx, "gphp", desc, g.GraphPigeonholePrinciple, G, functional=functional,
                                 onto=onto, formula_class=K)
                if F is None:
                    raised(ctx, "gphp", desc, exc)
                    continue
                fam_count(ctx, "gphp", cls)
                if as_nx:
                    S.count_rep(ctx, as_nx)
                if F.number_of_variables() != len(E):
                    ctx.violation("gphp:numvar", "%s has %d variables" % (desc, F.number_of_variables()))
                    continue
                at = S.decode(ctx, "gphp", desc, F)
                if at is None:
                    continue
                p = at.get("p_{#,#}", {})
                if set(p) != set(E):
                    ctx.violation("gphp:atoms", "%s: variables %r do not name the edges" % (desc, sorted(p)))
                    continue
                holes_of = {h: [u for (u, v) in E if v == h] for h in range(1, R + 1)}
                objs = placements(L, holes_of, range(1, R + 1), functional, onto)
                S.check_models(ctx, "gphp", desc, F, ([p[a] for a in o] for o in objs),
                               ("gphp", L, R, mask, functional, onto, cls, as_nx), nontrivial=len(E) > 0)


def case_bphp(ctx, cls, mmax, nmax, mmin=0):
    tt.selfcheck()
    K = S.formula_classes()[cls]
    g = gens()
    cap = S.CAP[ctx.tier]
    for m in range(mmin, mmax + 1):
        for n in range(0, nmax + 1):
            bits = (n - 1).bit_length() if n >= 1 else 0
            if m * bits > cap:
                continue
            desc = "BinaryPigeonholePrinciple(%d,%d)[%s]" % (m, n, cls)
            F, exc = S.build(ctx, "bphp", desc, g.BinaryPigeonholePrinciple, m, n, formula_class=K)
            if F is None:
                # the binary mapping needs a non-empty domain and range; refusing 0 is not a wrong formula
                raised(ctx, "bphp", desc, exc, allowed=(m == 0 or n == 0))
                continue
            fam_count(ctx, "bphp", cls)
            if F.number_of_variables() != m * bits:
                ctx.violation("bphp:numvar", "%s has %d variables, expected %d" % (desc, F.number_of_variables(), m * bits))
                continue
            at = S.decode(ctx, "bphp", desc, F)
            if at is None:
                continue
            v = at.get("v(#,#)", {})
            objs = []
            for img in itertools.permutations(range(n), m):
                objs.append([v[(i + 1, b)] for i in range(m) for b in range(bits) if (img[i] >> b) & 1])
            if bool(objs) != (m <= n):
                raise AssertionError("reference enumerator disagrees with the pigeonhole principle")
            S.check_models(ctx, "bphp", desc, F, objs, ("bphp", m, n, cls), nontrivial=m * bits > 0)


def rphp_objects(m, t, n, p, q, r):
    places = list(range(1, t + 1))
    for pch in itertools.product(*[[None] + list(range(1, m + 1)) for _ in places]):
        if any(i not in pch for i in range(1, m + 1)):
            continue
        occupied = {v for v, c in zip(places, pch) if c is not None}
        base = [p[(c, v)] for v, c in zip(places, pch) if c is not None]
        free = [v for v in places if v not in occupied]
        for k in range(len(free) + 1):
            for extra in itertools.combinations(free, k):
                active = occupied | set(extra)
                rv = [r[(v,)] for v in active]
                # q rows: active places need a non-empty set of holes, pairwise disjoint among active;
                # inactive places are unconstrained
                rows = []
                for v in places:
                    subs = []
                    for mask in range(1 << n):
                        if v in active and mask == 0:
                            continue
                        subs.append(mask)
                    rows.append(subs)
                for qch in itertools.product(*rows):
                    used = 0
                    ok = True
                    for v, mask in zip(places, qch):
                        if v in active:
                            if used & mask:
                                ok = False
                                break
                            used |= mask
                    if not ok:
                        continue
                    qv = [q[(v, w + 1)] for v, mask in zip(places, qch) for w in range(n) if (mask >> w) & 1]
                    yield base + rv + qv


def case_rphp(ctx, cls, m, t):
    tt.selfcheck()
    K = S.formula_classes()[cls]
    g = gens()
    cap = S.CAP[ctx.tier]
    for n in range(0, 4 if ctx.tier == 'quick' else 5):
        nv = m * t + t * n + t
        if nv > cap:
            continue
        desc = "RelativizedPigeonholePrinciple(%d,%d,%d)[%s]" % (m, t, n, cls)
        F, exc = S.build(ctx, "rphp", desc, g.RelativizedPigeonholePrinciple, m, t, n, formula_class=K)
        if F is None:
            raised(ctx, "rphp", desc, exc)
            continue
        fam_count(ctx, "rphp", cls)
        if F.number_of_variables() != nv:
            ctx.violation("rphp:numvar", "%s has %d variables, expected %d" % (desc, F.number_of_variables(), nv))
            continue
        at = S.decode(ctx, "rphp", desc, F)
        if at is None:
            continue
        p, q, r = at.get("p_{#,#}", {}), at.get("q_{#,#}", {}), at.get("r_{#}", {})
        objs = list(rphp_objects(m, t, n, p, q, r))
        if bool(objs) != (m <= t and m <= n):
            raise AssertionError("rphp reference: satisfiable iff m<=t and m<=n fails")
        S.check_models(ctx, "rphp", desc, F, objs, ("rphp", m, t, n, cls), nontrivial=nv > 0)


def case_count(ctx, cls):
    tt.selfcheck()
    import math
    K = S.formula_classes()[cls]
    g = gens()
    cap = S.CAP[ctx.tier]
    for M in range(0, 8 if ctx.tier == 'quick' else 10):
        for p in range(1, 5 if ctx.tier == 'quick' else 6):
            nv = math.comb(M, p)
            if nv > cap:
                continue
            desc = "CountingPrinciple(%d,%d)[%s]" % (M, p, cls)
            F, exc = S.build(ctx, "count", desc, g.CountingPrinciple, M, p, formula_class=K)
            if F is None:
                raised(ctx, "count", desc, exc)
                continue
            fam_count(ctx, "count", cls)
            if F.number_of_variables() != nv:
                ctx.violation("count:numvar", "%s has %d variables, expected %d" % (desc, F.number_of_variables(), nv))
                continue
            at = S.decode(ctx, "count", desc, F)
            if at is None:
                continue
            tmpl = "p_{" + ",".join("#" * p) + "}"
            x = at.get(tmpl, {})
            objs = [[x[b] for b in part] for part in block_partitions(M, p)]
            if bool(objs) != (M % p == 0):
                raise AssertionError("partition reference wrong")
            S.check_models(ctx, "count", desc, F, objs, ("count", M, p, cls), nontrivial=nv > 0)


def case_matching(ctx, cls, n, masks, as_nx):
    tt.selfcheck()
    K = S.formula_classes()[cls]
    g = gens()
    for mask in masks:
        G, E = S.simple_graph(n, mask, as_nx)
        desc = "PerfectMatchingPrinciple(G(%d,%r))[%s%s]" % (n, E, cls, S.rep_tag(as_nx))
        F, exc = S.build(ctx, "matching", desc, g.PerfectMatchingPrinciple, G, formula_class=K)
        if F is None:
            raised(ctx, "matching", desc, exc)
            continue
        fam_count(ctx, "matching", cls)
        if as_nx:
            S.count_rep(ctx, as_nx)
        if F.number_of_variables() != len(E):
            ctx.violation("matching:numvar", "%s has %d variables" % (desc, F.number_of_variables()))
            continue
        at = S.decode(ctx, "matching", desc, F)
        if at is None:
            continue
        e = at.get("e_{#,#}", {})
        if set(e) != set(E):
            ctx.violation("matching:atoms", "%s: variables %r do not name the edges" % (desc, sorted(e)))
            continue
        objs = [[e[x] for x in mt] for mt in perfect_matchings(n, E)]
        S.check_models(ctx, "matching", desc, F, objs, ("matching", n, mask, cls, as_nx), nontrivial=len(E) > 0)


def case_subsetcard(ctx, cls, L, R, masks, as_nx):
    tt.selfcheck()
    K = S.formula_classes()[cls]
    g = gens()
    for mask in masks:
        for eq in (False, True):
            B, E = S.bipartite_graph(L, R, mask, as_nx)
            desc = "SubsetCardinalityFormula(B(%d,%d,%r),equalities=%s)[%s%s]" % (L, R, E, eq, cls, S.rep_tag(as_nx))
            F, exc = S.build(ctx, "subsetcard", desc, g.SubsetCardinalityFormula, B, equalities=eq, formula_class=K)
            if F is None:
                raised(ctx, "subsetcard", desc, exc)
                continue
            fam_count(ctx, "subsetcard", cls)
            if as_nx:
                S.count_rep(ctx, as_nx)
            if F.number_of_variables() != len(E):
                ctx.violation("subsetcard:numvar", "%s has %d variables" % (desc, F.number_of_variables()))
                continue
            at = S.decode(ctx, "subsetcard", desc, F)
            if at is None:
                continue
            x = at.get("x_{#,#}", {})
            if set(x) != set(E):
                ctx.violation("subsetcard:atoms", "%s: variables %r do not name the edges" % (desc, sorted(x)))
                continue
            objs = []
            for k in range(len(E) + 1):
                for sub in itertools.combinations(E, k):
                    ok = True
                    for u in range(1, L + 1):
                        d = sum(1 for a, _ in E if a == u)
                        s = sum(1 for a, _ in sub if a == u)
                        if (s != (d + 1) // 2) if eq else (2 * s < d):
                            ok = False
                            break
                    if ok:
                        for v in range(1, R + 1):
                            d = sum(1 for _, b in E if b == v)
                            s = sum(1 for _, b in sub if b == v)
                            if (s != d // 2) if eq else (2 * s > d):
                                ok = False
                                break
                    if ok:
                        objs.append([x[a] for a in sub])
            S.check_models(ctx, "subsetcard", desc, F, objs, ("subsetcard", L, R, mask, eq, cls, as_nx),
                           nontrivial=len(E) > 0)


def case_cliquecoloring(ctx, cls, n):
    tt.selfcheck()
    K = S.formula_classes()[cls]
    g = gens()
    cap = S.CAP[ctx.tier]
    P = S.pairs(n)
    for k in range(0, 4):
        for c in range(0, 4):
            nv = len(P) + k * n + n * c
            if nv > cap:
                continue
            desc = "CliqueColoring(%d,%d,%d)[%s]" % (n, k, c, cls)
            F, exc = S.build(ctx, "cliquecoloring", desc, g.CliqueColoring, n, k, c, formula_class=K)
            if F is None:
                raised(ctx, "cliquecoloring", desc, exc)
                continue
            fam_count(ctx, "cliquecoloring", cls)
            if F.number_of_variables() != nv:
                ctx.violation("cliquecoloring:numvar", "%s has %d variables, expected %d" % (desc, F.number_of_variables(), nv))
                continue
            at = S.decode(ctx, "cliquecoloring", desc, F)
            if at is None:
                continue
            e, q, r = at.get("e_{#,#}", {}), at.get("q_{#,#}", {}), at.get("r_{#,#}", {})
            objs = []
            colourings = list(itertools.product(range(1, c + 1), repeat=n))
            cliques = list(itertools.permutations(range(1, n + 1), k))
            for mask in range(1 << len(P)):
                E = {pp for i, pp in enumerate(P) if (mask >> i) & 1}
                ev = [e[pp] for pp in E]
                good_cols = [col for col in colourings if all(col[u - 1] != col[v - 1] for u, v in E)]
                if not good_cols:
                    continue
                for cl in cliques:
                    if all((min(a, b), max(a, b)) in E for a, b in itertools.combinations(cl, 2)):
                        qv = [q[(i + 1, cl[i])] for i in range(k)]
                        for col in good_cols:
                            objs.append(ev + qv + [r[(v, col[v - 1])] for v in range(1, n + 1)])
            if bool(objs) != (k <= n and k <= c and (n == 0 or c >= 1)):
                # a k-clique needs k vertices and k colours; a non-empty graph needs a colour
                raise AssertionError("clique-colouring reference wrong for %r" % ((n, k, c),))
            S.check_models(ctx, "cliquecoloring", desc, F, objs, ("cliquecoloring", n, k, c, cls), nontrivial=nv > 0)


# ------------------------------------------------------------------ sampled mode (beyond the cap)
def case_sampled(ctx, cls, rseed):
    K = S.formula_classes()[cls]
    g = gens()
    r = ctx.rng("c01sampled", cls, rseed)
    # pigeonhole m x n, all four variants: objects = injections (+ extra holes for relational variants)
    for (m, n) in ((6, 8), (10, 10), (12, 10), (7, 9), (32, 32), (33, 32), (64, 65), (65, 64)):      # also around powers of two
        for functional in (False, True):
            for onto in (False, True):
                desc = "PigeonholePrinciple(%d,%d,functional=%s,onto=%s)[%s]" % (m, n, functional, onto, cls)
                F, exc = S.build(ctx, "php", desc, g.PigeonholePrinciple, m, n, functional=functional, onto=onto,
                                 formula_class=K)
                if F is None:
                    raised(ctx, "php", desc, exc)
                    continue
                at = S.decode(ctx, "php", desc, F)
                if at is None:
                    continue
                p = at["p_{#,#}"]
                good, bad = [], []
                for _ in range(20):
                    if m > n:
                        # no object exists; near misses: an injection of m-1 pigeons plus one collision
                        holes = r.sample(range(1, n + 1), n)
                        t = {p[(i + 1, holes[i % n])] for i in range(m)}
                        bad.append((t, "two pigeons share a hole"))
                        continue
                    holes = r.sample(range(1, n + 1), m)
                    rel = {(i + 1, holes[i]) for i in range(m)}
                    if onto:
                        if functional and m != n:
                            bad.append(({p[a] for a in rel}, "a hole stays empty in onto-functional php"))
                            continue
                        # give every remaining hole to some pigeon (relational variants allow it)
                        for h in set(range(1, n + 1)) - set(holes):
                            rel.add((r.randint(1, m), h))
                    good.append({p[a] for a in rel})
                    i = r.randint(1, m)
                    broken = {a for a in rel if a[0] != i}
                    bad.append(({p[a] for a in broken}, "pigeon %d has no hole" % i))
                    if m >= 2:
                        a, b = r.sample(range(1, m + 1), 2)
                        ha = next(h for (x, h) in rel if x == a)
                        bad.append(({p[x] for x in rel} | {p[(b, ha)]}, "pigeons %d and %d share hole %d" % (a, b, ha)))
                    if functional:
                        h2 = r.choice([h for h in range(1, n + 1) if (i, h) not in rel] or [None])
                        if h2 is not None:
                            bad.append(({p[x] for x in rel} | {p[(i, h2)]}, "pigeon %d in two holes" % i))
                S.check_sampled(ctx, "php", desc, F, good, bad, ("php-sampled", m, n, functional, onto, cls, rseed))
    # perfect matching on larger graphs: a planted perfect matching plus random edges
    for n in (12, 20, 30, 64, 128, 258):
        import cnfgen.graphs as cg
        G = cg.Graph(n)
        perm = r.sample(range(1, n + 1), n)
        M = [(min(perm[i], perm[i + 1]), max(perm[i], perm[i + 1])) for i in range(0, n, 2)]
        for e in M:
            G.add_edge(*e)
        for _ in range(2 * n):
            u, v = r.sample(range(1, n + 1), 2)
            G.add_edge(u, v)
        desc = "PerfectMatchingPrinciple(random graph on %d vertices, %d edges)[%s]" % (n, G.number_of_edges(), cls)
        F, exc = S.build(ctx, "matching", desc, g.PerfectMatchingPrinciple, G, formula_class=K)
        if F is None:
            raised(ctx, "matching", desc, exc)
            continue
        at = S.decode(ctx, "matching", desc, F)
        if at is None:
            continue
        e = at["e_{#,#}"]
        good = [{e[x] for x in M}]
        bad = [({e[x] for x in M[1:]}, "two vertices unmatched")]
        other = [x for x in e if x not in M]
        if other:
            bad.append(({e[x] for x in M} | {e[other[0]]}, "a vertex matched twice"))
        S.check_sampled(ctx, "matching", desc, F, good, bad, ("matching-sampled", n, cls, rseed))


# ------------------------------------------------------------------ workload
def chunks(seq, k):
    seq = list(seq)
    return [seq[i:i + k] for i in range(0, len(seq), k)]


def workload(tier, seed):
    yield "table_class", {"sizes": [(1200, 1, False), (1001, 2, False), (999, 1, False), (3, 1100, True), (2, 1001, True), (40, 40, True)]
                          if tier == "quick" else [(m, 1, False) for m in (100, 500, 1000, 1001, 1200, 2000)] +
                          [(2, n, True) for n in (100, 999, 1000, 1001, 1500)] + [(40, 40, True), (41, 40, False), (3, 1100, True)]}
    import random
    quick = tier == "quick"
    for cls in ("CNF", "OPB"):
        yield "php", {"cls": cls, "mmax": 4 if quick else 6, "nmax": 4 if quick else 6}
        for mm in range(0, (4 if quick else 5) + 1):
            yield "bphp", {"cls": cls, "mmin": mm, "mmax": mm, "nmax": 8 if quick else 16}
        for m in range(0, 4 if quick else 5):
            for t in range(0, 4 if quick else 5):
                yield "rphp", {"cls": cls, "m": m, "t": t}
        yield "count", {"cls": cls}
        for n in range(0, 5 if quick else 6):
            yield "cliquecoloring", {"cls": cls, "n": n}
        # bipartite graphs: every edge set for small sides
        sides = [(L, R) for L in range(0, 5) for R in range(0, 5) if L * R <= (9 if quick else 12)]
        for (L, R) in sides:
            allmasks = range(1 << (L * R))
            for ch in chunks(allmasks, 32):
                for as_nx in (False, True, "duck"):
                    if as_nx and (L * R > (4 if quick else 6) or L * R == 0):
                        continue
                    yield "gphp", {"cls": cls, "L": L, "R": R, "masks": ch, "as_nx": as_nx}
                    yield "subsetcard", {"cls": cls, "L": L, "R": R, "masks": ch, "as_nx": as_nx}
        r = random.Random("c01-%d" % seed)
        for (L, R) in ((4, 4), (3, 5), (4, 3)):
            masks = sorted({r.getrandbits(L * R) for _ in range(60 if quick else 1500)})
            masks = [m for m in masks if bin(m).count("1") <= 16]
            for ch in chunks(masks, 12):
                yield "gphp", {"cls": cls, "L": L, "R": R, "masks": ch, "as_nx": False}
                yield "subsetcard", {"cls": cls, "L": L, "R": R, "masks": ch, "as_nx": False}
        for n in range(0, 6 if quick else 7):
            npairs = n * (n - 1) // 2
            for ch in chunks(range(1 << npairs), 64 if n < 6 else 512):
                yield "matching", {"cls": cls, "n": n, "masks": ch, "as_nx": False}
            if n <= 4:
                for ch in chunks(range(1 << npairs), 64):
                    yield "matching", {"cls": cls, "n": n, "masks": ch, "as_nx": True}
                    yield "matching", {"cls": cls, "n": n, "masks": ch, "as_nx": "duck"}
        if quick:
            masks = sorted({r.getrandbits(15) for _ in range(200)})
            for ch in chunks(masks, 25):
                yield "matching", {"cls": cls, "n": 6, "masks": ch, "as_nx": False}
        else:
            masks = sorted({r.getrandbits(21) for _ in range(2000)})     # 7 vertices, seeded
            masks = [m for m in masks if bin(m).count("1") <= 22]
            for ch in chunks(masks, 50):
                yield "matching", {"cls": cls, "n": 7, "masks": ch, "as_nx": False}
        for (m_, n_) in ((2, 257), (2, 1025), (3, 600), (2, 65539), (1, 2 ** 20 - 3), (1, 2 ** 21 - 3)) if quick else (
                (1, 2 ** 20 - 3), (1, 2 ** 21 - 3), (1, 2 ** 22 - 5), (2, 2 ** 19 + 3),
                (2, 257), (2, 513), (2, 1025), (2, 2049), (3, 600), (3, 1030), (2, 4097), (2, 40000), (2, 65536), (2, 65537),
                (2, 65539), (3, 70001), (2, 131073), (2, 262145)):
            yield "bphp_wide", {"cls": cls, "m": m_, "n": n_}
        for pos in FAR_APART if not quick else FAR_APART[:5]:
            for rep in range(1 if quick else 4):
                yield "far_apart", {"cls": cls, "pos": pos, "nmasks": 5 if quick else 12, "rseed": seed * 10 + rep}
        for i in range(2 if quick else 12):
            yield "frozen_nx", {"cls": cls, "rseed": seed * 100 + i, "count": 60}
        for i in range(1 if quick else 6):
            yield "long_rows", {"cls": cls, "rseed": seed * 100 + i}
        for i in range(2 if quick else 16):
            yield "history", {"cls": cls, "rseed": seed * 100 + i}
            yield "sampled", {"cls": cls, "rseed": seed * 100 + i}
            yield "sampled2", {"cls": cls, "rseed": seed * 100 + i}


# ------------------------------------------------------------------ beyond the cap: more families at realistic sizes
def sampled_compare(ctx, fam, desc, F, assignments, predicate, key):
    from ..refmodels.names import eval_formula, Evaluator
    nt = nf = 0
    ev = Evaluator(F) if len(F) > 20000 else None
    for t in assignments:
        exp = predicate(t)
        got = ev.value(t) if ev else eval_formula(F, t)
        ctx.count("sampled_assignments")
        nt, nf = nt + bool(exp), nf + (not exp)
        if got != exp:
            ctx.violation("%s:sampled:%s" % (fam, "satisfied-by-non-object" if got else "object-not-a-model"),
                          "%s: an assignment that %s the documented condition %s the formula; true variables %s"
                          % (desc, "meets" if exp else "violates", "satisfies" if got else "falsifies",
                             sorted(S.name_of(F, v) for v in t)[:30]))
            break
    ctx.count("sampled_cases")
    ctx.count("sampled_true_references", nt)
    ctx.count("sampled_false_references", nf)
    ctx.judged(key, sample={"family": fam, "case": desc, "variables": F.number_of_variables(), "mode": "sampled",
                            "assignments_true": nt, "assignments_false": nf})


def perturb(r, base, universe, howmany):
    out = [set(base)]
    universe = list(universe)
    for _ in range(howmany):
        t = set(base)
        for v in r.sample(universe, min(len(universe), r.choice([1, 1, 2, 3]))):
            t ^= {v}
        out.append(t)
    return out


def case_sampled2(ctx, cls, rseed):
    from cnfgen.graphs import BipartiteGraph
    K = S.formula_classes()[cls]
    g = gens()
    r = ctx.rng("c01sampled2", cls, rseed)
    # ---- graph pigeonhole on a bipartite graph with a planted left-saturating matching
    shapes = [(8, 10, None), (12, 12, None), (15, 11, None), (33, 32, None), (64, 64, None), (100, 128, None),
              # almost regular on the left: every pigeon has d holes, except one with d+1 and one with d-1 that are neither
              # the first, the middle nor the last pigeon (so the number of edges is d*L all the same)
              (120, 120, 2), (101, 130, 3), (260, 256, 2)]
    for (L, R, d_) in shapes:
        E = set()
        if d_ is None:
            if L <= R:
                holes = r.sample(range(1, R + 1), L)
                E |= {(i + 1, holes[i]) for i in range(L)}
            for _ in range(3 * L):
                E.add((r.randint(1, L), r.randint(1, R)))
        else:
            for u in range(1, L + 1):
                for j in range(d_):
                    E.add((u, (u - 1 + j * 7) % R + 1))
            inner = [u for u in range(2, L) if u != (L + 1) // 2 and u != L // 2 and u != L // 2 + 1]
            a, b = r.sample(inner, 2)
            E.add((a, next(v for v in range(1, R + 1) if (a, v) not in E)))
            E.discard(next(e for e in sorted(E) if e[0] == b))
            ctx.count("almost_regular_bipartite_graphs")
            # a placement of all pigeons into distinct holes (augmenting paths), so that true references exist
            nb_ = {u: [v for (a_, v) in sorted(E) if a_ == u] for u in range(1, L + 1)}
            owner = {}

            def place(u, seen):
                for v in nb_[u]:
                    if v in seen:
                        continue
                    seen.add(v)
                    if v not in owner or place(owner[v], seen):
                        owner[v] = u
                        return True
                return False
            import sys as _sys
            _old = _sys.getrecursionlimit()
            _sys.setrecursionlimit(max(_old, 4 * L + 200))
            try:
                for u in range(1, L + 1):
                    place(u, set())
            finally:
                _sys.setrecursionlimit(_old)
            where = {u: v for v, u in owner.items()}
            holes = [where.get(u, nb_[u][0]) for u in range(1, L + 1)]
        E = sorted(E)
        B = BipartiteGraph(L, R)
        for e in E:
            B.add_edge(*e)
        for functional in (False, True):
            for onto in (False, True):
                desc = "GraphPigeonholePrinciple(random B(%d,%d) %d edges,functional=%s,onto=%s)[%s]" % (L, R, len(E), functional, onto, cls)
                F, exc = S.build(ctx, "gphp", desc, g.GraphPigeonholePrinciple, B, functional=functional, onto=onto, formula_class=K)
                if F is None:
                    raised(ctx, "gphp", desc, exc)
                    continue
                at = S.decode(ctx, "gphp", desc, F)
                if at is None:
                    continue
                p = at.get("p_{#,#}", {})
                if set(p) != set(E):
                    ctx.violation("gphp:atoms", "%s: variables do not name the edges" % desc)
                    continue

                def pred(t, p=p, E=E, L=L, R=R, functional=functional, onto=onto):
                    rel = [e for e in E if p[e] in t]
                    rows = [0] * (L + 1)
                    cols = [0] * (R + 1)
                    for (u, v) in rel:
                        rows[u] += 1
                        cols[v] += 1
                    if any(rows[u] == 0 for u in range(1, L + 1)) or any(cols[v] > 1 for v in range(1, R + 1)):
                        return False
                    if functional and any(rows[u] > 1 for u in range(1, L + 1)):
                        return False
                    if onto and any(cols[v] == 0 for v in range(1, R + 1)):
                        return False
                    return True
                base = {p[(i + 1, holes[i])] for i in range(L)} if L <= R else set()
                pool_ = perturb(r, base, p.values(), 30)
                if L <= 300:
                    # every pigeon in turn moved to each of its other holes, and taken out of all of them
                    for u in range(1, L + 1):
                        mine = [e for e in E if e[0] == u]
                        cur = [e for e in mine if p[e] in base]
                        for e in mine:
                            if e not in cur:
                                pool_.append((set(base) - {p[c] for c in cur}) | {p[e]})
                                pool_.append(set(base) | {p[e]})
                        pool_.append(set(base) - {p[c] for c in cur})
                sampled_compare(ctx, "gphp", desc, F, pool_, pred,
                                ("gphp-large", L, R, tuple(E), functional, onto, cls))
    # ---- binary pigeonhole with 4-5 bits
    for (m, n) in ((9, 12), (7, 20), (14, 13)):
        desc = "BinaryPigeonholePrinciple(%d,%d)[%s]" % (m, n, cls)
        F, exc = S.build(ctx, "bphp", desc, g.BinaryPigeonholePrinciple, m, n, formula_class=K)
        if F is None:
            raised(ctx, "bphp", desc, exc)
            continue
        at = S.decode(ctx, "bphp", desc, F)
        if at is None:
            continue
        v = at.get("v(#,#)", {})
        bits = (n - 1).bit_length()
        if len(v) != m * bits:
            ctx.violation("bphp:numvar", "%s has %d variables" % (desc, len(v)))
            continue

        def predb(t, v=v, m=m, n=n, bits=bits):
            vals = [sum((1 << b) for b in range(bits) if v[(i, b)] in t) for i in range(1, m + 1)]
            return all(x < n for x in vals) and len(set(vals)) == m
        pool = []
        for _ in range(30):
            if m <= n:
                img = r.sample(range(n), m)
            else:
                img = [r.randrange(n) for _ in range(m)]
            t = {v[(i + 1, b)] for i in range(m) for b in range(bits) if (img[i] >> b) & 1}
            pool.append(t)
            i, j = r.sample(range(m), 2)
            img2 = img[:]
            img2[j] = img2[i]                           # a collision
            pool.append({v[(a + 1, b)] for a in range(m) for b in range(bits) if (img2[a] >> b) & 1})
            img3 = img[:]
            img3[i] = r.randrange(n, 1 << bits) if n < (1 << bits) else img3[i]     # a code outside the range
            pool.append({v[(a + 1, b)] for a in range(m) for b in range(bits) if (img3[a] >> b) & 1})
        sampled_compare(ctx, "bphp", desc, F, pool, predb, ("bphp-large", m, n, cls, rseed))
    # ---- counting principle: random partitions into blocks
    for (M, pz) in ((12, 3), (10, 2), (11, 3), (12, 4)):
        desc = "CountingPrinciple(%d,%d)[%s]" % (M, pz, cls)
        F, exc = S.build(ctx, "count", desc, g.CountingPrinciple, M, pz, formula_class=K)
        if F is None:
            raised(ctx, "count", desc, exc)
            continue
        at = S.decode(ctx, "count", desc, F)
        if at is None:
            continue
        x = at.get("p_{" + ",".join("#" * pz) + "}", {})

        def predc(t, x=x, M=M):
            cover = [0] * (M + 1)
            for blk, var in x.items():
                if var in t:
                    for e in blk:
                        cover[e] += 1
            return all(c == 1 for c in cover[1:])
        pool = []
        for _ in range(20):
            els = list(range(1, M + 1))
            r.shuffle(els)
            blocks = [tuple(sorted(els[i:i + pz])) for i in range(0, M - M % pz, pz)]
            base = {x[b] for b in blocks}
            pool += perturb(r, base, x.values(), 3)
        sampled_compare(ctx, "count", desc, F, pool, predc, ("count-large", M, pz, cls, rseed))
    # ---- subset cardinality on larger graphs: random edge labellings judged by the inequalities / equalities
    for (L, R, d) in ((7, 7, 3), (10, 8, 4), (33, 32, 3), (64, 64, 4), (130, 128, 3)):
        E = sorted({(u, r.randint(1, R)) for u in range(1, L + 1) for _ in range(d)})
        B = BipartiteGraph(L, R)
        for e in E:
            B.add_edge(*e)
        for eq in (False, True):
            desc = "SubsetCardinalityFormula(random B(%d,%d) %d edges,equalities=%s)[%s]" % (L, R, len(E), eq, cls)
            F, exc = S.build(ctx, "subsetcard", desc, g.SubsetCardinalityFormula, B, equalities=eq, formula_class=K)
            if F is None:
                raised(ctx, "subsetcard", desc, exc)
                continue
            at = S.decode(ctx, "subsetcard", desc, F)
            if at is None:
                continue
            x = at.get("x_{#,#}", {})
            if set(x) != set(E):
                ctx.violation("subsetcard:atoms", "%s: variables do not name the edges" % desc)
                continue

            def preds(t, x=x, E=E, L=L, R=R, eq=eq):
                for u in range(1, L + 1):
                    inc = [e for e in E if e[0] == u]
                    s_ = sum(1 for e in inc if x[e] in t)
                    if (s_ != (len(inc) + 1) // 2) if eq else (2 * s_ < len(inc)):
                        return False
                for v in range(1, R + 1):
                    inc = [e for e in E if e[1] == v]
                    s_ = sum(1 for e in inc if x[e] in t)
                    if (s_ != len(inc) // 2) if eq else (2 * s_ > len(inc)):
                        return False
                return True
            pool = []
            for _ in range(60):
                # greedy: give every left vertex the ceiling of half of its edges, preferring lightly loaded right vertices
                load = {v: 0 for v in range(1, R + 1)}
                t = set()
                for u in r.sample(range(1, L + 1), L):
                    inc = [e for e in E if e[0] == u]
                    inc.sort(key=lambda e: (load[e[1]], r.random()))
                    for e in inc[:(len(inc) + 1) // 2]:
                        t.add(x[e])
                        load[e[1]] += 1
                pool += perturb(r, t, x.values(), 2)
            sampled_compare(ctx, "subsetcard", desc, F, pool, preds, ("subsetcard-large", L, R, tuple(E), eq, cls))


FAR_APART = [(1, 2, 65537), (1, 65537, 65538), (2, 65538, 131074), (1, 257, 513), (5, 65541, 131077), (3, 4099, 1048579)]


def case_long_rows(ctx, cls, rseed):
    """Two different bipartite graphs in which the same-numbered pigeon has more than 256 holes (a long adjacency row),
    used one after the other in one process, and small classic instances afterwards: every formula is the one of its
    own graph."""
    from cnfgen.graphs import BipartiteGraph
    tt.selfcheck()
    K = S.formula_classes()[cls]
    g = gens()
    r = ctx.rng("c01rows", cls, rseed)
    R = 300
    rows = [sorted(r.sample(range(1, R + 1), 260)), sorted(r.sample(range(1, R + 1), 270)), list(range(41, R + 1)), list(range(1, 258))]
    for i, row in enumerate(rows):
        E = sorted([(1, v) for v in row] + [(2, v) for v in r.sample(range(1, R + 1), 3)] + [(3, row[0]), (3, row[-1])])
        E = sorted(set(E))
        B = BipartiteGraph(3, R)
        for e in E:
            B.add_edge(*e)
        desc = "GraphPigeonholePrinciple(B(3,%d): pigeon 1 has %d holes; graph number %d of the process)[%s]" % (R, len(row), i + 1, cls)
        F, exc = S.build(ctx, "gphp", desc, g.GraphPigeonholePrinciple, B, formula_class=K)
        ctx.count("graphs_with_rows_longer_than_256")
        if F is None:
            raised(ctx, "gphp", desc, exc)
            continue
        at = S.decode(ctx, "gphp", desc, F)
        if at is None:
            continue
        p = at.get("p_{#,#}", {})
        if set(p) != set(E):
            ctx.violation("gphp:atoms", "%s: variables do not name the edges" % desc)
            continue

        def pred(t, p=p, E=E):
            rel = [e for e in E if p[e] in t]
            rows_ = collections.Counter(u for u, _ in rel)
            cols_ = collections.Counter(v for _, v in rel)
            return all(rows_[u] >= 1 for u in (1, 2, 3)) and all(c <= 1 for c in cols_.values())
        pool = []
        two, three = [e for e in E if e[0] == 2], [e for e in E if e[0] == 3]
        for v in [row[0], row[-1], row[len(row) // 2]] + r.sample(row, 12):
            for e2 in two:
                for e3 in three:
                    pool.append({p[(1, v)], p[e2], p[e3]})
            pool.append({p[(1, v)]})
            pool.append({p[(1, v)], p[(1, row[1])], p[two[0]], p[three[-1]]})
        sampled_compare(ctx, "gphp", desc, F, pool, pred, ("gphp-long-row", i, tuple(row[:5]), cls, rseed))
    # ... and the classic small instances afterwards, decided exactly
    for (m, n) in ((2, 3), (3, 3), (3, 2)):
        desc = "PigeonholePrinciple(%d,%d)[%s] after graphs with long rows" % (m, n, cls)
        F, exc = S.build(ctx, "php", desc, g.PigeonholePrinciple, m, n, formula_class=K)
        if F is None:
            raised(ctx, "php", desc, exc)
            continue
        at = S.decode(ctx, "php", desc, F)
        if at is None:
            continue
        p = at.get("p_{#,#}", {})
        holes_of = {h: list(range(1, m + 1)) for h in range(1, n + 1)}
        objs = list(placements(m, holes_of, range(1, n + 1), False, False))
        S.check_models(ctx, "php", desc, F, ([p[a] for a in o] for o in objs), ("php-after-long-rows", m, n, cls, rseed), nontrivial=True)


def case_frozen_nx(ctx, cls, rseed, count):
    """A stream of different networkx bipartite graphs, each frozen (networkx.freeze), used once and dropped, so that
    the interpreter hands the address of a dead graph to a later one: every formula must be the one of the graph it
    was asked for."""
    import gc
    import networkx
    tt.selfcheck()
    K = S.formula_classes()[cls]
    g = gens()
    r = ctx.rng("c01frozen", cls, rseed)
    seen_ids = set()
    for i in range(count):
        L, R = r.randint(1, 3), r.randint(1, 3)
        mask = r.getrandbits(L * R)
        G, E = S.bipartite_graph(L, R, mask, True)
        G = networkx.freeze(G)
        if id(G) in seen_ids:
            ctx.count("frozen_graphs_at_the_address_of_a_dead_one")
        seen_ids.add(id(G))
        functional, onto = r.random() < 0.5, r.random() < 0.3
        desc = "GraphPigeonholePrinciple(frozen networkx B(%d,%d,%r),functional=%s,onto=%s)[%s] (graph number %d of the process)" % (
            L, R, E, functional, onto, cls, i + 1)
        F, exc = S.build(ctx, "gphp", desc, g.GraphPigeonholePrinciple, G, functional=functional, onto=onto, formula_class=K)
        ctx.count("frozen_graph_arguments")
        if F is None:
            raised(ctx, "gphp", desc, exc)
        elif F.number_of_variables() != len(E):
            ctx.violation("gphp:numvar", "%s has %d variables, the graph has %d edges" % (desc, F.number_of_variables(), len(E)))
        else:
            at = S.decode(ctx, "gphp", desc, F)
            p = at.get("p_{#,#}", {}) if at is not None else None
            if p is not None and set(p) != set(E):
                ctx.violation("gphp:atoms", "%s: variables %r do not name the edges" % (desc, sorted(p)))
            elif p is not None:
                holes_of = {h: [u for (u, v) in E if v == h] for h in range(1, R + 1)}
                objs = placements(L, holes_of, range(1, R + 1), functional, onto)
                S.check_models(ctx, "gphp", desc, F, ([p[a] for a in o] for o in objs), ("gphp-frozen", L, R, mask, functional, onto, cls, i), nontrivial=len(E) > 0)
        desc = "SubsetCardinalityFormula(frozen networkx B(%d,%d,%r))[%s] (graph number %d of the process)" % (L, R, E, cls, i + 1)
        F, exc = S.build(ctx, "subsetcard", desc, g.SubsetCardinalityFormula, G, formula_class=K)
        if F is not None:
            at = S.decode(ctx, "subsetcard", desc, F)
            x = at.get("x_{#,#}", {}) if at is not None else None
            if F.number_of_variables() != len(E) or (x is not None and set(x) != set(E)):
                ctx.violation("subsetcard:atoms", "%s: %d variables %r, the graph has the edges %r" % (desc, F.number_of_variables(), sorted(x or {}), E))
        del G, F
        if i % 3 == 0:
            gc.collect()


def case_far_apart(ctx, cls, pos, nmasks, rseed):
    """Few edges between vertices whose indices are far apart: every edge set on 3 x 3 vertices, the three vertices
    of a side sitting at the positions `pos` of a long side (all the others isolated).  The objects are the ones
    of the small graph; an index arithmetic that folds two far-apart vertices onto each other changes them."""
    from cnfgen.graphs import BipartiteGraph
    tt.selfcheck()
    K = S.formula_classes()[cls]
    g = gens()
    r = ctx.rng("c01far", cls, pos, rseed)
    masks = sorted({r.getrandbits(9) for _ in range(nmasks)} | {0b111111111, 0b100010001, 0b001010100})
    for mask in masks:
        small = [(a, b) for a in range(3) for b in range(3) if (mask >> (3 * a + b)) & 1]
        # ---- pigeons 1..3, holes far apart
        E = sorted((a + 1, pos[b]) for a, b in small)
        R = pos[-1] + r.choice((0, 0, 1, 3))
        B = BipartiteGraph(3, R)
        for e in r.sample(E, len(E)):
            B.add_edge(*e)
        for functional in (False, True):
            desc = "GraphPigeonholePrinciple(B(3,%d,%r),functional=%s)[%s]" % (R, E, functional, cls)
            F, exc = S.build(ctx, "gphp", desc, g.GraphPigeonholePrinciple, B, functional=functional, formula_class=K)
            if F is None:
                raised(ctx, "gphp", desc, exc)
                continue
            ctx.count("far_apart_graphs")
            at = S.decode(ctx, "gphp", desc, F)
            if at is None:
                continue
            p = at.get("p_{#,#}", {})
            if set(p) != set(E):
                ctx.violation("gphp:atoms", "%s: variables %r do not name the edges" % (desc, sorted(p)))
                continue
            objs = []
            for k in range(len(E) + 1):
                for sub in itertools.combinations(E, k):
                    rows = collections.Counter(u for u, _ in sub)
                    cols = collections.Counter(v for _, v in sub)
                    if all(rows[u] >= 1 for u in (1, 2, 3)) and all(c <= 1 for c in cols.values()) and \
                            (not functional or all(rows[u] == 1 for u in (1, 2, 3))):
                        objs.append([p[e] for e in sub])
            S.check_models(ctx, "gphp", desc, F, objs, ("gphp-far", pos, R, mask, functional, cls), nontrivial=len(E) > 0)
        # ---- subset cardinality, both sides far apart
        lpos = r.choice(FAR_APART[:5])
        E = sorted((lpos[a], pos[b]) for a, b in small)
        L, R = lpos[-1] + r.choice((0, 2)), pos[-1] + r.choice((0, 1))
        if max(L, R) > 200000:
            L = lpos[-1]
        B = BipartiteGraph(L, R)
        for e in r.sample(E, len(E)):
            B.add_edge(*e)
        for eq in (False, True):
            desc = "SubsetCardinalityFormula(B(%d,%d,%r),equalities=%s)[%s]" % (L, R, E, eq, cls)
            F, exc = S.build(ctx, "subsetcard", desc, g.SubsetCardinalityFormula, B, equalities=eq, formula_class=K)
            if F is None:
                raised(ctx, "subsetcard", desc, exc)
                continue
            ctx.count("far_apart_graphs")
            at = S.decode(ctx, "subsetcard", desc, F)
            if at is None:
                continue
            x = at.get("x_{#,#}", {})
            if set(x) != set(E):
                ctx.violation("subsetcard:atoms", "%s: variables %r do not name the edges" % (desc, sorted(x)))
                continue
            du = collections.Counter(u for u, _ in E)
            dv = collections.Counter(v for _, v in E)
            objs = []
            for k in range(len(E) + 1):
                for sub in itertools.combinations(E, k):
                    su = collections.Counter(u for u, _ in sub)
                    sv = collections.Counter(v for _, v in sub)
                    if all(((su[u] == (d + 1) // 2) if eq else (2 * su[u] >= d)) for u, d in du.items()) and \
                            all(((sv[v] == d // 2) if eq else (2 * sv[v] <= d)) for v, d in dv.items()):
                        objs.append([x[e] for e in sub])
            S.check_models(ctx, "subsetcard", desc, F, objs, ("subsetcard-far", lpos, pos, L, R, mask, eq, cls),
                           nontrivial=len(E) > 0)


def case_history(ctx, cls, rseed):
    """PerfectMatchingPrinciple on a Graph object that is edited between calls."""
    K = S.formula_classes()[cls]
    g = gens()
    r = ctx.rng("c01hist", cls, rseed)
    for i in range(12):
        S.graph_history_check(ctx, "matching", "PerfectMatchingPrinciple[%s]" % cls,
                              lambda G: g.PerfectMatchingPrinciple(G, formula_class=K), r, n=r.randint(4, 7))
    # the same with networkx objects edited in place between two calls (edits that keep name, order and size: an edge
    # moved, two edges switched), for the simple-graph and the bipartite families
    import networkx
    body = lambda F: (F.number_of_variables(), list(F.all_variable_labels()), sorted(sorted(map(repr, c)) for c in F))
    for i in range(10):
        n = r.randint(5, 8)
        X = networkx.Graph(name="edited in place")
        X.add_nodes_from(range(1, n + 1))
        prs = S.pairs(n)
        for e in r.sample(prs, r.randint(n - 1, n + 2)):
            X.add_edge(*e)
        LB, RB = r.randint(2, 3), r.randint(3, 4)
        XB = networkx.Graph(name="edited in place")
        XB.add_nodes_from(range(1, LB + 1), bipartite=0)
        XB.add_nodes_from(range(LB + 1, LB + RB + 1), bipartite=1)
        bprs = [(u, v) for u in range(1, LB + 1) for v in range(LB + 1, LB + RB + 1)]
        for e in r.sample(bprs, r.randint(3, len(bprs) - 1)):
            XB.add_edge(*e)
        for fam, H, allp, gen in (("matching", X, prs, lambda Z: g.PerfectMatchingPrinciple(Z, formula_class=K)),
                                  ("gphp", XB, bprs, lambda Z: g.GraphPigeonholePrinciple(Z, formula_class=K)),
                                  ("subsetcard", XB, bprs, lambda Z: g.SubsetCardinalityFormula(Z, formula_class=K))):
            st, _ = ctx.call(gen, H)
            if st == "exc":
                continue
            for step in range(3):
                E = [tuple(sorted(e)) for e in H.edges()]
                free = [e for e in allp if e not in E]
                if not E or not free:
                    break
                old_e, new_e = r.choice(E), r.choice(free)
                H.remove_edge(*old_e)
                H.add_edge(*new_e)
                fresh = networkx.Graph(name=H.graph.get("name", ""))
                fresh.add_nodes_from(H.nodes(data=True))
                fresh.add_edges_from(H.edges())
                s1, F1 = ctx.call(gen, H)
                s2, F2 = ctx.call(gen, fresh)
                ctx.count("networkx_objects_edited_in_place")
                if s1 == "ok" and s2 == "ok" and body(F1) != body(F2):
                    ctx.violation("%s:graph-history:formula-of-an-earlier-state" % fam,
                                  "%s[%s] on a networkx graph after moving the edge %r to %r in place: the formula differs from the one of a "
                                  "fresh networkx graph with the same nodes and edges" % (fam, cls, old_e, new_e))
                    break


def case_table_class(ctx, sizes):
    """Pigeonhole formulas built into a CNF class of the user's that keeps its clauses in a table of its own (vmon/ducks.py):
    what the object presents must be the pigeonhole formula -- every pigeon placed, no hole shared -- also for
    constraints over more than a thousand literals."""
    from cnfgen.formula.cnf import CNF
    from ..ducks import table_class
    from ..refmodels.names import eval_many
    g = gens()
    for (m, n, functional) in sizes:
        T = table_class(CNF)
        desc = "PigeonholePrinciple(%d,%d,functional=%s)[user CNF class with its own clause table]" % (m, n, functional)
        F, exc = S.build(ctx, "php", desc, g.PigeonholePrinciple, m, n, functional=functional, formula_class=T)
        ctx.count("user_class_inputs")
        if F is None:
            ctx.count("table_class_declined")
            continue
        at = S.decode(ctx, "php", desc, F)
        if at is None:
            continue
        p = at["p_{#,#}"]
        # placements: an injection when one exists, all pigeons into hole 1, pigeon 1 nowhere, pigeon 1 twice (functional)
        pool, exp = [], []
        if m <= n:
            pool.append({p[(i, i)] for i in range(1, m + 1)})
            exp.append(True)
            if m >= 2:
                pool.append({p[(i, i)] for i in range(1, m + 1)} - {p[(m, m)]} | {p[(m, 1)]})
                exp.append(False)
        pool.append({p[(i, 1)] for i in range(1, m + 1)})
        exp.append(m <= 1)
        pool.append({p[(i, 1 + (i % n))] for i in range(2, m + 1)})
        exp.append(False)
        if functional and n >= 2 and m <= n:
            pool.append({p[(i, i)] for i in range(1, m + 1)} | {p[(1, n)]} if m < n else {p[(i, i)] for i in range(1, m + 1)} | {p[(1, 2)]})
            exp.append(False)
        got = eval_many(F, pool)
        ctx.count("sampled_cases")
        ctx.count("sampled_assignments", len(pool))
        if got != exp:
            j = next(j for j in range(len(pool)) if got[j] != exp[j])
            ctx.violation("php:sampled:%s" % ("satisfied-by-non-object" if got[j] else "object-not-a-model"),
                          "%s: placement #%d %s the formula the object presents (%d clauses), expected the opposite"
                          % (desc, j, "satisfies" if got[j] else "falsifies", len(F)))
        ctx.judged(("php-table-class", m, n, functional), sample={"family": "php", "case": desc, "clauses": len(F)})


def case_bphp_wide(ctx, cls, m, n):
    """BinaryPigeonholePrinciple with many holes (9-22 bits): pigeons sent to chosen holes against the principle."""
    K = S.formula_classes()[cls]
    g = gens()
    r = ctx.rng("c01bphpwide", cls, m, n)
    desc = "BinaryPigeonholePrinciple(%d,%d)[%s]" % (m, n, cls)
    F, exc = S.build(ctx, "bphp", desc, g.BinaryPigeonholePrinciple, m, n, formula_class=K)
    if F is None:
        raised(ctx, "bphp", desc, exc)
        return
    fam_count(ctx, "bphp", cls)
    at = S.decode(ctx, "bphp", desc, F)
    if at is None:
        return
    v = at.get("v(#,#)", {})
    bits = (n - 1).bit_length()
    if len(v) != m * bits or F.number_of_variables() != m * bits:
        ctx.violation("bphp:numvar", "%s has %d variables, expected %d" % (desc, F.number_of_variables(), m * bits))
        return
    special = sorted({0, 1, 2, 3, n - 2, n - 1, n, n + 1, (1 << bits) - 1, 1 << (bits - 1), 1024, 1025, 256, 257, 3, 5, 6, 65535, 65536, 65537, 65538, 43690, 21845} | {r.randrange(1 << bits) for _ in range(6)})
    special = [h for h in special if 0 <= h < (1 << bits)]
    pool = []
    for _ in range(60):
        img = [r.choice(special) if r.random() < 0.7 else r.randrange(n) for _ in range(m)]
        pool.append(img)
        if m >= 2:
            img2 = list(img)
            img2[1] = img2[0] ^ 1                      # neighbouring codes 2t / 2t+1 are different holes
            pool.append(img2)

    def pred(t):
        vals = [sum((1 << b) for b in range(bits) if v[(i, b)] in t) for i in range(1, m + 1)]
        return all(x < n for x in vals) and len(set(vals)) == m
    sampled_compare(ctx, "bphp", desc, F, [{v[(i + 1, b)] for i in range(m) for b in range(bits) if (img[i] >> b) & 1} for img in pool],
                    pred, ("bphp-wide", m, n, cls))

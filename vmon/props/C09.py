"""C09 -- shuffling is a signed renaming of variables plus a reordering of clauses.

Certificate checking: with the guarded hook on, Shuffle attaches the flips,
the variable permutation and the clause map it used; the witness is validated
and the output is *reconstructed* from input + witness and compared position by
position.  Independently of the hook: invariants (counts, width multiset, model
count) and, for N <= 5, an exhaustive search for a signed renaming that explains
the output.
"""
import itertools
import os
import random

from .. import tt
from ..hostile import adversary

PYTHON_O_STRIDE = {"quick": 4, "thorough": 2}      # every n-th case is repeated in an interpreter started with -O
RULE = ("(CNF, switches/explicit arguments, randomness): CNFs from tiny (0-5 variables, 0-6 clauses; empty formula, empty and "
        "duplicate clauses, unused variables) to 300 variables / 1000 clauses; all 27 combinations of fixed/shuffle/explicit for "
        "the three arguments; valid explicit arguments as list/tuple/range, invalid ones (wrong length, 0 / +-2 flips, repeated, "
        "out-of-range or 0-based images, non-permutations); seeded and adversarial RNG; the cnfshuffle tool with all switch "
        "combinations and '-T shuffle' through cnfgen.  distinct = (formula, arguments, seed); trivial = no clause.")
ASSUMPTIONS = ["the witness attached under CNFGEN_VERIF=1 is what Shuffle used (validated by reconstructing the output from it)",
               "within a clause the order of literals is not part of the statement (clauses compared as multisets of literals)"]
REQUIRED = ["witness_validated", "reconstructions", "renaming_searches", "model_counts_compared", "explicit_valid",
            "explicit_invalid_rejected", "fixed_switches", "cnfshuffle_runs", "T_shuffle_runs", "adversary_engaged", "positional_consistency_checks"]
CASE_TIMEOUT = {"quick": 300, "thorough": 1800}


def CNFclass():
    from cnfgen.formula.cnf import CNF
    return CNF


def make_cnf(N, clauses):
    F = CNFclass()(description="C09 input")
    F.update_variable_number(N)
    for c in clauses:
        F.add_clause(list(c))
    return F


def random_cnf(r, size):
    if size == "tiny":
        N = r.randint(0, 5)
        M = r.randint(0, 6)
    elif size == "small":
        N = r.randint(3, 18)
        M = r.randint(1, 40)
    else:
        N = r.randint(130, 300)
        M = r.randint(200, 1000)
    used = r.randint(0, N) if size != "large" else r.randint(129, N)
    cls = []
    for _ in range(M):
        w = r.choice([0, 1, 2, 3, 3, 4]) if used else 0
        c = [r.choice([1, -1]) * r.randint(1, used) for _ in range(w)]
        cls.append(c)
        if cls and r.random() < 0.1:
            cls.append(list(r.choice(cls)))          # duplicate clause
    return N, cls[:M] if size != "tiny" else cls[:M]


def apply_witness(clauses, flips, perm, cmap):
    """Reference shuffle: out[new] = renamed F[old]."""
    M = len(clauses)
    out = [None] * M
    for old, new in cmap:
        out[new] = [(1 if l > 0 else -1) * flips[abs(l) - 1] * perm[abs(l) - 1] for l in clauses[old]]
    return out


def canon(clauses):
    return sorted(tuple(sorted(c)) for c in clauses)


def check_invariants(ctx, mech, label, N, clauses, out_N, out):
    ok = True
    if out_N != N:
        ctx.violation(mech + ":numvar", "%s: %d variables became %d" % (label, N, out_N))
        ok = False
    if len(out) != len(clauses):
        ctx.violation(mech + ":clause-count", "%s: %d clauses became %d" % (label, len(clauses), len(out)))
        ok = False
    if sorted(map(len, out)) != sorted(map(len, clauses)):
        ctx.violation(mech + ":width-multiset", "%s: multiset of clause widths changed" % label)
        ok = False
    bad = [l for c in out for l in c if not isinstance(l, int) or isinstance(l, bool) or l == 0 or abs(l) > N]
    if bad:
        ctx.violation(mech + ":literal-range", "%s: output literal %r" % (label, bad[0]))
        ok = False
    if ok and N <= (16 if ctx.tier == "quick" else 20):
        a, b = tt.count(tt.models_cnf(N, clauses)), tt.count(tt.models_cnf(N, out))
        ctx.count("model_counts_compared")
        if a != b:
            ctx.violation(mech + ":model-count", "%s: %d models became %d" % (label, a, b))
            ok = False
    return ok


def search_renaming(N, clauses, out, allow_flips=True, allow_perm=True):
    """Is there a signed renaming mapping the clause multiset onto the output's?  (N <= 5)"""
    target = canon(out)
    perms = itertools.permutations(range(1, N + 1)) if allow_perm else [tuple(range(1, N + 1))]
    for perm in perms:
        flipss = itertools.product((1, -1), repeat=N) if allow_flips else [(1,) * N]
        for flips in flipss:
            img = [[(1 if l > 0 else -1) * flips[abs(l) - 1] * perm[abs(l) - 1] for l in c] for c in clauses]
            if canon(img) == target:
                return True
    return False


def judge_shuffle(ctx, label, N, clauses, G, pf, vp, cp, mech="shuffle"):
    """G: output formula of Shuffle(F, pf, vp, cp) (pf/vp/cp as passed)."""
    out = [list(c) for c in G]
    if not check_invariants(ctx, mech, label, N, clauses, G.number_of_variables(), out):
        return False
    M = len(clauses)
    w = getattr(G, "_verif_shuffle_witness", None)
    if w is None:
        ctx.count("witness_missing")
    else:
        flips, perm, cmap = list(w[0]), list(w[1]), [tuple(int(y) if isinstance(y, float) and y == int(y) else y for y in x) for x in w[2]]
        okw = (len(flips) == N and all(f in (1, -1) for f in flips) and sorted(perm) == list(range(1, N + 1))
               and sorted(o for o, _ in cmap) == list(range(M)) and sorted(n for _, n in cmap) == list(range(M)))
        if not okw:
            ctx.violation(mech + ":witness-invalid", "%s: flips/permutation/clause map used are not a signed renaming plus a "
                          "permutation of positions: %r" % (label, (flips, perm, cmap[:10])))
            return False
        ctx.count("witness_validated")
        ref = apply_witness(clauses, flips, perm, cmap)
        ctx.count("reconstructions")
        if [sorted(c) for c in ref] != [sorted(c) for c in out]:
            pos = next(i for i in range(M) if sorted(ref[i]) != sorted(out[i]))
            ctx.violation(mech + ":not-the-witnessed-renaming", "%s: clause at position %d is %r, the renaming it reports gives %r"
                          % (label, pos, out[pos], ref[pos]))
            return False
        # arguments applied exactly as given / switched off
        if not isinstance(pf, str) and [int(x) for x in pf] != flips:
            ctx.violation(mech + ":explicit-flips-not-applied", "%s: flips used %r" % (label, flips))
        if pf == "fixed" and flips != [1] * N:
            ctx.violation(mech + ":fixed-flips-not-identity", "%s: flips used %r" % (label, flips))
        if not isinstance(vp, str) and [int(x) for x in vp] != perm:
            ctx.violation(mech + ":explicit-variables-not-applied", "%s: permutation used %r" % (label, perm))
        if vp == "fixed" and perm != list(range(1, N + 1)):
            ctx.violation(mech + ":fixed-variables-not-identity", "%s: permutation used %r" % (label, perm))
        if not isinstance(cp, str) and sorted(cmap) != sorted((i, int(cp[i])) for i in range(M)):
            ctx.violation(mech + ":explicit-clauses-not-applied", "%s: clause map used %r" % (label, cmap[:12]))
        if cp == "fixed" and any(o != n for o, n in cmap):
            ctx.violation(mech + ":fixed-clauses-not-identity", "%s: clause map used %r" % (label, cmap[:12]))
    # hook-independent checks of explicit / fixed arguments
    flips_known = [1] * N if pf == "fixed" else (None if isinstance(pf, str) else [int(x) for x in pf])
    perm_known = list(range(1, N + 1)) if vp == "fixed" else (None if isinstance(vp, str) else [int(x) for x in vp])
    cp_known = list(range(M)) if cp == "fixed" else (None if isinstance(cp, str) else [int(x) for x in cp])
    if flips_known is not None and perm_known is not None:
        img = [[(1 if l > 0 else -1) * flips_known[abs(l) - 1] * perm_known[abs(l) - 1] for l in c] for c in clauses]
        if cp_known is not None:
            exp = [None] * M
            for i in range(M):
                exp[cp_known[i]] = img[i]
            if [sorted(c) for c in exp] != [sorted(c) for c in out]:
                ctx.violation(mech + ":explicit-arguments-not-applied", "%s: output %r, the given arguments determine %r"
                              % (label, out[:8], exp[:8]))
                return False
        elif canon(img) != canon(out):
            ctx.violation(mech + ":explicit-renaming-not-applied", "%s: the clause multiset is not the image under the given renaming" % label)
            return False
    if cp_known is not None:
        # hook-independent, any size: positions are known, so every occurrence of a variable must be sent to one
        # variable with one polarity (Shuffle keeps the order of literals inside a clause)
        ctx.count("positional_consistency_checks")
        img, back = {}, {}
        for i in range(M):
            src, dst = clauses[i], out[cp_known[i]]
            if len(src) != len(dst):
                ctx.violation(mech + ":clause-not-at-its-position", "%s: clause %d has width %d, position %d holds width %d"
                              % (label, i, len(src), cp_known[i], len(dst)))
                return False
            for a, b in zip(src, dst):
                want = (abs(b), (a > 0) == (b > 0))
                if img.setdefault(abs(a), want) != want:
                    ctx.violation(mech + ":variable-renamed-inconsistently", "%s: variable %d is sent to %r and to %r"
                                  % (label, abs(a), img[abs(a)], want))
                    return False
                if back.setdefault(abs(b), abs(a)) != abs(a):
                    ctx.violation(mech + ":renaming-not-injective", "%s: variables %d and %d are both sent to %d"
                                  % (label, back[abs(b)], abs(a), abs(b)))
                    return False
    if N <= 5 and M <= 8:
        ctx.count("renaming_searches")
        if not search_renaming(N, clauses, out, allow_flips=pf != "fixed", allow_perm=vp != "fixed"):
            ctx.violation(mech + ":no-signed-renaming", "%s: no %s explains the output %r from %r"
                          % (label, "signed renaming" if pf != "fixed" else "unsigned renaming", out, clauses))
            return False
    return True


def explicit_args(r, N, M, container):
    flips = [r.choice([1, -1]) for _ in range(N)]
    perm = list(range(1, N + 1))
    r.shuffle(perm)
    cperm = list(range(M))
    r.shuffle(cperm)
    conv = {"list": list, "tuple": tuple}[container]
    return conv(flips), conv(perm), conv(cperm)


class _Tag(str):
    pass


import enum as _enum


class _Mode(str, _enum.Enum):
    fixed = "fixed"
    shuffle = "shuffle"


def case_library(ctx, size, rseed, count):
    tt.selfcheck()
    from cnfgen.transformations.shuffle import Shuffle
    r = ctx.rng("c09", size, rseed)
    for _ in range(count):
        N, cls = random_cnf(r, size)
        M = len(cls)
        F = make_cnf(N, cls)
        if size != "large" and r.random() < 0.3:
            # a user's subclass of CNF that presents these clauses while its inherited table holds others as well
            from ..ducks import view_cnf
            decoys = [[r.choice([1, -1]) * r.randint(1, N)] for _ in range(r.randint(1, 3))] if N else [[]]
            F = view_cnf(N, cls, [list(c) for c in cls[:1]] + decoys + [list(c) for c in cls])
            ctx.count("user_class_inputs")
        for combo in itertools.product(("fixed", "shuffle", "explicit"), repeat=3):
            if size == "large" and r.random() < 0.5:
                continue
            container = r.choice(["list", "tuple"])
            ef, ev, ec = explicit_args(r, N, M, container)
            pf = ef if combo[0] == "explicit" else combo[0]
            vp = ev if combo[1] == "explicit" else combo[1]
            cp = ec if combo[2] == "explicit" else combo[2]
            if vp == "fixed" and r.random() < 0.3:
                vp = range(1, N + 1)               # a range is a valid explicit permutation
                combo = (combo[0], "explicit", combo[2])
            elif combo[1] == "explicit" and r.random() < 0.25:
                vp = range(N, 0, -1)               # ... and so is a descending one
                ctx.count("explicit_descending_range")
            if cp == "fixed" and r.random() < 0.3:
                cp = range(M)
                combo = (combo[0], combo[1], "explicit")
            elif combo[2] == "explicit" and r.random() < 0.25:
                cp = range(M - 1, -1, -1)
                ctx.count("explicit_descending_range")
            if r.random() < 0.5:
                # keywords computed at run time: equal to 'fixed' / 'shuffle' without being the same object
                kind = r.randrange(3)
                if kind == 0:
                    fresh = lambda a: ("-" + a)[1:] if isinstance(a, str) else a
                elif kind == 1:
                    fresh = lambda a: _Tag(a) if isinstance(a, str) else a          # an instance of a subclass of str
                else:
                    fresh = lambda a: _Mode(a) if isinstance(a, str) else a         # a member of a str-valued Enum
                pf, vp, cp = fresh(pf), fresh(vp), fresh(cp)
                if any(isinstance(a, str) for a in (pf, vp, cp)):
                    ctx.count("keywords_built_at_run_time")
            seed = r.randint(0, 10 ** 6)
            mode = r.choice(["fair", "fair", "low", "high", "repeat"])
            label = "Shuffle(CNF(%d vars, %r%s), %r, %r, %r) seed %d %s" % (
                N, cls[:6], "..." if M > 6 else "", pf if isinstance(pf, str) else list(pf)[:8],
                vp if isinstance(vp, str) else list(vp)[:8], cp if isinstance(cp, str) else list(cp)[:8], seed, mode)
            # one call in four with the repository's verification hook switched off (the way users run the code): only
            # the hook-independent judgements apply to it
            hook_off = r.random() < 0.25
            saved = os.environ.pop("CNFGEN_VERIF", None) if hook_off else None
            try:
                if mode == "fair":
                    random.seed(seed)
                    st, G = ctx.call(Shuffle, F, pf, vp, cp)
                else:
                    with adversary(mode, 2 * N + 5, seed) as adv:
                        st, G = ctx.call(Shuffle, F, pf, vp, cp)
                    if adv.engaged:
                        ctx.count("adversary_engaged")
            finally:
                if saved is not None:
                    os.environ["CNFGEN_VERIF"] = saved
            if hook_off:
                ctx.count("calls_with_the_hook_off")
                label += " [hook off]"
                if st == "ok" and getattr(G, "_verif_shuffle_witness", None) is not None:
                    ctx.violation("shuffle:hook-not-guarded", "%s: a witness is attached although CNFGEN_VERIF is not set" % label)
            if "explicit" in combo:
                ctx.count("explicit_valid")
            if "fixed" in combo:
                ctx.count("fixed_switches")
            if st == "exc":
                ctx.violation("shuffle:raises:%s" % type(G).__name__, "%s raised %r" % (label, G))
                continue
            if [list(c) for c in F] != cls or F.number_of_variables() != N:
                ctx.violation("shuffle:mutates-input", "%s changed its input" % label)
            judge_shuffle(ctx, label, N, cls, G, pf, vp, cp)
            if combo == ("fixed", "fixed", "fixed") and [list(c) for c in G] != cls:
                ctx.violation("shuffle:all-fixed-not-identity", "%s: output differs from the input" % label)
            ctx.judged((N, tuple(map(tuple, cls)), combo, seed, mode), nontrivial=M > 0,
                       sample={"variables": N, "clauses": cls[:5], "arguments": combo, "seed": seed, "rng": mode})


OPTIMIZED_SCRIPT = r"""
import itertools, json, sys, random
sys.path.insert(0, sys.argv[1])
import warnings; warnings.simplefilter("ignore")
from cnfgen.formula.cnf import CNF
from cnfgen.transformations.shuffle import Shuffle
N, cls = 3, [[1, -2], [2, 3], [-1]]
M = len(cls)
out = {"optimize": sys.flags.optimize, "wrong": []}
def run(**kw):
    F = CNF()
    F.update_variable_number(N)
    for c in cls:
        F.add_clause(list(c))
    random.seed(5)
    try:
        G = Shuffle(F, **kw)
        return "ok", G
    except ValueError:
        return "ValueError", None
    except Exception as e:
        return type(e).__name__, None
base = dict(polarity_flips="fixed", variables_permutation="fixed", clauses_permutation="fixed")
n = 0
for vp in itertools.product(range(0, N + 2), repeat=N):
    valid = sorted(vp) == list(range(1, N + 1))
    st, G = run(**dict(base, variables_permutation=list(vp)))
    n += 1
    if (st == "ok") != valid or st not in ("ok", "ValueError"):
        out["wrong"].append(["variables_permutation", list(vp), st])
    elif valid and [sorted(c, key=abs) for c in G] != [sorted([(1 if l > 0 else -1) * vp[abs(l) - 1] for l in c], key=abs) for c in cls]:
        out["wrong"].append(["variables_permutation", list(vp), "not applied"])
for cp in itertools.product(range(-1, M + 1), repeat=M):
    valid = sorted(cp) == list(range(M))
    st, G = run(**dict(base, clauses_permutation=list(cp)))
    n += 1
    if (st == "ok") != valid or st not in ("ok", "ValueError"):
        out["wrong"].append(["clauses_permutation", list(cp), st])
for pf in itertools.product((-1, 1, 0, 2), repeat=N):
    valid = all(x in (-1, 1) for x in pf)
    st, G = run(**dict(base, polarity_flips=list(pf)))
    n += 1
    if (st == "ok") != valid or st not in ("ok", "ValueError"):
        out["wrong"].append(["polarity_flips", list(pf), st])
out["calls"] = n
sys.stdout.write(json.dumps(out))
"""


def case_optimized(ctx):
    """Shuffle's argument validation in an interpreter started with -O (assert statements and `if __debug__:` blocks are
    compiled away): explicit arguments that are not permutations / sign vectors are refused there as well."""
    import json
    import subprocess
    import sys
    import tempfile
    from .. import REPO
    with tempfile.TemporaryDirectory(prefix="c09o-") as tmp:
        script = os.path.join(tmp, "shuffle_args.py")
        with open(script, "w") as f:
            f.write(OPTIMIZED_SCRIPT)
        for flag in ([], ["-O"], ["-OO"]):
            env = dict(os.environ)
            env.pop("PYTHONPATH", None)
            env.pop("PYTHONOPTIMIZE", None)
            try:
                p = subprocess.run([sys.executable] + flag + [script, REPO], env=env, capture_output=True, text=True, timeout=300)
            except subprocess.TimeoutExpired:
                ctx.problems.append({"kind": "spawn-failed", "case": ctx.case, "traceback": "python %s timed out" % flag})
                continue
            if p.returncode != 0:
                ctx.problems.append({"kind": "harness-error", "case": ctx.case, "traceback": "python %s: %s" % (flag, p.stderr[-500:])})
                continue
            res = json.loads(p.stdout)
            ctx.count("optimized_interpreter_calls", res["calls"])
            for which, arg, st in res["wrong"][:5]:
                ctx.violation("shuffle:python%s:%s" % ("".join(flag) or "", "accepts-invalid-" + which if st in ("ok", "not applied") else "raises:" + st),
                              "python %s: Shuffle(F, %s=%r) -> %s" % (" ".join(flag), which, arg, st))
            ctx.judged(("optimized", tuple(flag)), nontrivial=True, sample={"interpreter_flags": flag, "optimize": res["optimize"], "calls": res["calls"]})


def case_size_sweep(ctx, sizes, rseed):
    """Formulas of every size in a range (N variables, about N clauses): explicit and fixed arguments are judged position
    by position, random ones through the witness / the invariants."""
    from cnfgen.transformations.shuffle import Shuffle
    r = ctx.rng("c09sweep", rseed, tuple(sizes[:2]))
    for N in sizes:
        M = N + (N % 3)
        cls = [[(1 if (i + j) % 2 else -1) * (((i * (j + 2) + j) % N) + 1) for j in range(1 + i % 3)] for i in range(M)] if N else [[]] * (M % 2)
        cls = [sorted(set(c), key=abs) for c in cls]
        cls = [[l for k, l in enumerate(c) if -l not in c[:k]] for c in cls]
        M = len(cls)
        F = make_cnf(N, cls)
        flips = [r.choice([1, -1]) for _ in range(N)]
        perm = list(range(1, N + 1))
        r.shuffle(perm)
        cperm = list(range(M))
        r.shuffle(cperm)
        for (pf, vp, cp) in ((flips, perm, cperm), ("fixed", "shuffle", "fixed"), ("shuffle", "fixed", "shuffle"), ("shuffle", "shuffle", "shuffle")):
            seed = r.randint(0, 10 ** 6)
            random.seed(seed)
            st, G = ctx.call(Shuffle, F, pf, vp, cp)
            label = "Shuffle(CNF(%d vars, %d clauses), %s, %s, %s) seed %d" % (N, M, "explicit" if isinstance(pf, list) else pf,
                                                                               "explicit" if isinstance(vp, list) else vp,
                                                                               "explicit" if isinstance(cp, list) else cp, seed)
            ctx.count("size_sweep_calls")
            if st == "exc":
                ctx.violation("shuffle:raises:%s" % type(G).__name__, "%s raised %r" % (label, G))
                continue
            judge_shuffle(ctx, label, N, cls, G, pf, vp, cp)
            ctx.judged(("sweep", N, isinstance(pf, list), str(vp)[:8], str(cp)[:8]), nontrivial=M > 0, sample={"variables": N, "clauses": M})


class _AbsOne:
    """Not a number at all, but abs() of it is 1."""

    def __abs__(self):
        return 1

    def __repr__(self):
        return "<object whose abs() is 1>"


def invalid_args(N, M):
    """(which, value, why)"""
    out = []
    idp, idc = list(range(1, N + 1)), list(range(M))
    out.append(("flips", [1] * (N + 1), "too long"))
    if N:
        out.append(("flips", [1] * (N - 1), "too short"))
        out.append(("flips", [0] + [1] * (N - 1), "zero flip"))
        out.append(("flips", [2] + [1] * (N - 1), "flip 2"))
        out.append(("flips", tuple([-2] + [1] * (N - 1)), "flip -2 in a tuple"))
        out.append(("variables", list(range(0, N)), "0-based"))
        out.append(("variables", idp[:-1], "too short"))
        out.append(("variables", tuple(idp[:-1] + [N + 1]), "out of range, tuple"))
        out.append(("variables", idp + [N + 1], "too long"))
    if N >= 2:
        out.append(("variables", [1] + idp[:-1], "repeated image"))
        out.append(("variables", tuple([idp[0]] * N), "constant map"))
    if N >= 3:
        out.append(("variables", [1, 2.5] + idp[2:], "non-integer image"))
        out.append(("variables", idp[:-1] + [None], "None image"))
        out.append(("flips", [1.5] + [1] * (N - 1), "non-integer flip"))
    if N:
        # numbers of absolute value one that are neither +1 nor -1, placed on a variable that may occur in a clause
        for j, unit in enumerate((1j, -1j, complex(0.6, 0.8), _AbsOne())):
            pos = (j * 3 + M) % N
            out.append(("flips", [1] * pos + [unit] + [-1] * (N - pos - 1), "non-integer flip of absolute value one (%s)" % type(unit).__name__))
    if M >= 3:
        out.append(("clauses", [0, 1.5] + idc[2:], "non-integer position"))
    if N >= 7:
        # not permutations, although length, range, sum and sum of squares are those of one
        out.append(("variables", [1, 1, 4, 5, 5, 6, 6] + idp[7:], "repeated images with the sum and square sum of a permutation"))
        out.append(("variables", tuple(idp[:-7] + [v + N - 7 for v in (2, 2, 3, 3, 4, 7, 7)]), "repeated images with the sum and square sum of a permutation"))
    if M >= 7:
        out.append(("clauses", [0, 0, 3, 4, 4, 5, 5] + idc[7:], "repeated positions with the sum and square sum of a permutation"))
    if N >= 4:
        out.append(("variables", [2, 2] + idp[2:-2] + [N - 1, N - 1] if N > 4 else [1, 1, 4, 4], "repeated images with the sum of a permutation"))
    out.append(("clauses", idc + [M], "too long"))
    if M:
        out.append(("clauses", list(range(1, M + 1)), "1-based"))
        out.append(("clauses", idc[:-1], "too short"))
        out.append(("clauses", tuple(idc[:-1] + [M]), "out of range, tuple"))
    if M >= 2:
        out.append(("clauses", [0] + idc[:-1], "repeated position"))
    return out


def case_invalid(ctx, rseed, count):
    from cnfgen.transformations.shuffle import Shuffle
    r = ctx.rng("c09inv", rseed)
    for it in range(count):
        N, cls = random_cnf(r, "tiny")
        if it % 4 == 3:
            # sizes at which multisets other than 1..N share its power sums
            N = r.choice((7, 8, 9, 12))
            cls = [[r.choice((1, -1)) * r.randint(1, N) for _ in range(r.randint(1, 3))] for _ in range(r.choice((7, 8, 11)))]
        M = len(cls)
        F = make_cnf(N, cls)
        for which, val, why in invalid_args(N, M):
            kw = {"polarity_flips": "fixed", "variables_permutation": "fixed", "clauses_permutation": "fixed"}
            kw[{"flips": "polarity_flips", "variables": "variables_permutation", "clauses": "clauses_permutation"}[which]] = val
            st, G = ctx.call(Shuffle, F, **kw)
            label = "Shuffle(CNF(%d vars, %d clauses), %s=%r)" % (N, M, which, val)
            if st == "ok":
                ctx.violation("shuffle:accepts-invalid-%s(%s)" % (which, why.split(",")[0]), "%s was accepted" % label)
            elif not isinstance(G, ValueError) and not (isinstance(G, TypeError) and ("non-integer" in why or "None" in why)):
                ctx.violation("shuffle:invalid-%s-raises-%s" % (which, type(G).__name__), "%s raised %r" % (label, G))
            else:
                ctx.count("explicit_invalid_rejected")
            ctx.judged(("invalid", N, M, which, why), nontrivial=True)
        # flips that *equal* -1 / +1 without being integers (1.0, Fraction(-1), True): accepted or refused, but an
        # accepted call must give the formula of the integer flips, made of integer literals
        if N:
            import fractions
            for unit in (1.0, -1.0, fractions.Fraction(-1), True):
                flips = [r.choice((-1, 1)) for _ in range(N)]
                used = sorted({abs(l) for c in cls for l in c}) or [1]
                pos = r.choice(used) - 1
                flips[pos] = unit
                st, G = ctx.call(Shuffle, F, polarity_flips=list(flips), variables_permutation="fixed", clauses_permutation="fixed")
                label = "Shuffle(CNF(%d vars, %r), polarity_flips=%r)" % (N, cls, flips)
                ctx.count("flips_equal_to_a_sign_but_not_integers")
                if st == "exc":
                    if not isinstance(G, (ValueError, TypeError)):
                        ctx.violation("shuffle:non-integer-sign-raises-%s" % type(G).__name__, "%s raised %r" % (label, G))
                    continue
                odd = [l for c in G for l in c if type(l) is not int]
                if odd:
                    ctx.violation("shuffle:non-integer-literals", "%s was accepted and its result has the literal %r (%s)"
                                  % (label, odd[0], type(odd[0]).__name__))
                    continue
                judge_shuffle(ctx, label, N, cls, G, [int(x) for x in flips], "fixed", "fixed")
            # a variable permutation / clause permutation written with floats that equal the integers
            perm = list(range(1, N + 1))
            r.shuffle(perm)
            cperm = list(range(M))
            r.shuffle(cperm)
            for vp, cp in (([float(v) if i % 2 == 0 else v for i, v in enumerate(perm)], "fixed"),
                           ("fixed", [float(v) if i % 2 == 0 else v for i, v in enumerate(cperm)])):
                st, G = ctx.call(Shuffle, F, polarity_flips="fixed", variables_permutation=vp, clauses_permutation=cp)
                label = "Shuffle(CNF(%d vars, %r), variables_permutation=%r, clauses_permutation=%r)" % (N, cls, vp, cp)
                ctx.count("flips_equal_to_a_sign_but_not_integers")
                if st == "exc":
                    if not isinstance(G, (ValueError, TypeError)):
                        ctx.violation("shuffle:non-integer-position-raises-%s" % type(G).__name__, "%s raised %r" % (label, G))
                    continue
                odd = [l for c in G for l in c if type(l) is not int]
                if odd:
                    ctx.violation("shuffle:non-integer-literals", "%s was accepted and its result has the literal %r (%s)"
                                  % (label, odd[0], type(odd[0]).__name__))
                    continue
                judge_shuffle(ctx, label, N, cls, G, "fixed", vp if vp == "fixed" else [int(v) for v in vp],
                              cp if cp == "fixed" else [int(v) for v in cp])


def dimacs_text(N, cls):
    return "p cnf %d %d\n" % (N, len(cls)) + "".join(" ".join(map(str, c + [0])) + "\n" for c in cls)


def parse_dimacs(text):
    N = None
    toks = []
    for line in text.splitlines():
        if line.startswith("c"):
            continue
        if line.startswith("p"):
            N = int(line.split()[2])
            continue
        toks += [int(t) for t in line.split()]
    cls, cur = [], []
    for t in toks:
        if t == 0:
            cls.append(cur)
            cur = []
        else:
            cur.append(t)
    return N, cls


def case_tool(ctx, rseed, count):
    """cnfshuffle: every switch combination, through cli(mode='formula') (witness) and through main() (text)."""
    tt.selfcheck()
    import sys
    from ..cliharness import run_main, tool_module, _Stream, reset_prefix
    r = ctx.rng("c09tool", rseed)
    mod = tool_module("cnfshuffle")
    for _ in range(count):
        N, cls = random_cnf(r, r.choice(["tiny", "tiny", "small"]))
        text = dimacs_text(N, cls)
        for sw in itertools.product((False, True), repeat=3):
            flags = [f for f, on in zip(("-p", "-v", "-c"), sw) if on]
            seed = r.randint(1, 10 ** 6)
            pf, vp, cp = ("fixed" if sw[0] else "shuffle"), ("fixed" if sw[1] else "shuffle"), ("fixed" if sw[2] else "shuffle")
            label = "cnfshuffle %s -S %d on CNF(%d vars, %r)" % (" ".join(flags), seed, N, cls[:6])
            ctx.count("cnfshuffle_runs")
            # (a) formula object with the witness
            old = sys.stdin
            sys.stdin = _Stream(text)
            try:
                st, G = ctx.call(mod.cli, ["cnfshuffle", "-S", str(seed)] + flags, mode="formula")
            finally:
                sys.stdin = old
                reset_prefix()
            if st == "exc":
                ctx.violation("cnfshuffle:raises:%s" % type(G).__name__, "%s raised %r" % (label, G))
                continue
            judge_shuffle(ctx, label, N, cls, G, pf, vp, cp, mech="cnfshuffle")
            # (b) the text the tool prints
            o = run_main("cnfshuffle", ["-q", "-S", str(seed)] + flags, stdin_text=text)
            if o.exc is not None or o.rc not in (0, None):
                ctx.violation("cnfshuffle:fails", "%s: rc=%r exc=%r stderr=%r" % (label, o.rc, o.exc, o.err[:200]))
                continue
            try:
                N2, out = parse_dimacs(o.out)
            except Exception as e:       # noqa: BLE001
                ctx.violation("cnfshuffle:output-not-dimacs", "%s: %r" % (label, e))
                continue
            if check_invariants(ctx, "cnfshuffle", label, N, cls, N2, out):
                if sw == (True, True, True) and out != cls:
                    ctx.violation("cnfshuffle:all-switches-off-not-identity", "%s: %r" % (label, out[:6]))
                if sw[0] and sw[1] and canon(out) != canon(cls):
                    ctx.violation("cnfshuffle:-p-v-changes-clauses", "%s" % label)
                if sw[2] and not (sw[0] and sw[1]) and N <= 5 and len(cls) <= 8:
                    ctx.count("renaming_searches")
                    if not search_renaming(N, cls, out, allow_flips=not sw[0], allow_perm=not sw[1]):
                        ctx.violation("cnfshuffle:no-signed-renaming", "%s: output %r" % (label, out))
                # same seed, same switches: the text path and the object path agree
                if [sorted(c) for c in out] != [sorted(c) for c in G]:
                    ctx.violation("cnfshuffle:text-differs-from-object", "%s" % label)
            ctx.judged(("tool", N, tuple(map(tuple, cls)), sw, seed), nontrivial=len(cls) > 0,
                       sample={"tool": "cnfshuffle", "flags": flags, "seed": seed, "variables": N, "clauses": cls[:5]})


def case_T(ctx, rseed):
    """-T shuffle through cnfgen on deterministic families."""
    from ..cliharness import cli_formula
    r = ctx.rng("c09T", rseed)
    bases = [["php", "3", "2"], ["op", "3"], ["peb", "pyramid", "2"], ["count", "4", "2"], ["and", "2", "2"],
             ["tseitin", "first", "grid", "2", "2"], ["kclique", "2", "complete", "3"], ["or", "0", "0"]]
    flagsets = [[], ["--no-polarity-flips"], ["--no-variables-permutation"], ["--no-clauses-permutation"],
                ["--no-polarity-flips", "--no-variables-permutation"],
                ["--no-polarity-flips", "--no-variables-permutation", "--no-clauses-permutation"]]
    for base in bases:
        F = cli_formula("cnfgen", ["cnfgen"] + base)
        N, cls = F.number_of_variables(), [list(c) for c in F]
        for flags in flagsets:
            seed = r.randint(1, 10 ** 6)
            argv = ["cnfgen", "--seed", str(seed)] + base + ["-T", "shuffle"] + flags
            label = " ".join(argv)
            ctx.count("T_shuffle_runs")
            try:
                G = cli_formula("cnfgen", argv)
            except BaseException as e:       # noqa: BLE001
                if isinstance(e, KeyboardInterrupt) or type(e).__name__ == "CaseTimeout":
                    raise
                ctx.violation("T-shuffle:raises:%s" % type(e).__name__, "%s raised %r" % (label, e))
                continue
            pf = "fixed" if "--no-polarity-flips" in flags else "shuffle"
            vp = "fixed" if "--no-variables-permutation" in flags else "shuffle"
            cp = "fixed" if "--no-clauses-permutation" in flags else "shuffle"
            judge_shuffle(ctx, label, N, cls, G, pf, vp, cp, mech="T-shuffle")
            ctx.judged(("T", tuple(base), tuple(flags), seed), nontrivial=True, sample={"argv": argv})


def workload(tier, seed):
    q = tier == "quick"
    for i in range(16 if q else 800):
        yield "library", {"size": "tiny", "rseed": seed * 1000 + i, "count": 10}
    for i in range(8 if q else 400):
        yield "library", {"size": "small", "rseed": seed * 1000 + i, "count": 5}
    for i in range(12 if q else 100):
        yield "library", {"size": "large", "rseed": seed * 1000 + i, "count": 1}
    for i in range(8 if q else 48):
        yield "invalid", {"rseed": seed * 1000 + i, "count": 12}
    for i in range(16 if q else 300):
        yield "tool", {"rseed": seed * 1000 + i, "count": 3}
    for i in range(2 if q else 12):
        yield "T", {"rseed": seed * 1000 + i}
    yield "optimized", {}
    sweep = list(range(seed % 5, 700, 5)) if q else list(range(0, 1500))
    for i in range(0, len(sweep), 35):
        yield "size_sweep", {"sizes": sweep[i:i + 35], "rseed": seed}

"""C15 -- graph constructions on the command line deliver the structure they name.

Monitor shape: every graph specification is handed to the real
`make_graph_from_spec` (and, for a sample, to the real `cnfgen` command line, in
process and as a real process) while

* the outcome is judged by a reference written from graph_docs.py
  (vmon/refmodels/c15_ref.py): graph with the promised structure, or ValueError
  for a request that cannot be met -- never another exception, never a graph of
  another shape;
* options are judged *stage by stage*: the same specification is rebuilt with one
  option less under the same state of the random sources, so that "addedges m
  adds exactly m new edges" is a comparison of two observed graphs;
* the file written by `save` is read by strict readers that share no code with
  cnfgen and compared with the graph returned and with the graph decoded from
  the variable names / clauses of the formula built on it;
* a tap on the `random` module records which sampler asked for what (sparse or
  dense strategy, rejected samples, fall-backs), a tap on BipartiteGraph records
  retry exhaustion and restarts of bipartite_random_regular, and the bounded
  adversary (vmon.hostile) drives the samplers into those branches.
"""
import collections
import io
import itertools
import contextlib
import math
import os
import random
import re
import shutil
import sys
import tempfile

from ..hostile import adversary
from ..refmodels import c15_ref as ref

PYTHON_O_STRIDE = {"quick": 4, "thorough": 2}      # every n-th case is repeated in an interpreter started with -O
RULE = ("(graph type, construction, argument tokens, options in application order, token order, save format, "
        "randomness) -- arguments enumerated inside, at and just outside the documented range (gnm N<=6 every m "
        "in -1..C(N,2)+1; gnd every d in -1..N+1; glrm every m in -1..L*R+1 for L,R<=4 (5 thorough); regular/glrd "
        "every (L,R,d) up to 5 (6 thorough) incl. non-divisible; gnp/glrp p in {0,.5,1,out of range}; grid/torus 1-3 "
        "dimensions of size 0..4; complete/empty/shift/path/tree/pyramid incl. 0 and negative sizes; "
        "plantclique/plantbiclique/addedges/splitedges from -1 to one past the largest possible value on deterministic "
        "and random bases, alone and combined, option tokens permuted; save in every format with and without an "
        "explicit format); random constructions under several seeds of the global generator plus adversarial "
        "schedules low/repeat/high with budgets 6..700 (3..700 thorough); a sample through the cnfgen command line (in process and "
        "as a real process).  distinct = that tuple (seed and schedule dropped for deterministic specifications); "
        "trivial = malformed specifications and degenerate ones whose shape the documentation does not fix.")
ASSUMPTIONS = [
    "networkx is trusted for isomorphism tests and as parser of the gml/dot files written by 'save' (the other formats are read by the module's own strict readers)",
    "adversarial answers are legal values of the random functions (outcomes of positive probability); networkx's own generators (gnp/gnm/gnd) draw from random._inst and are exercised with seeds only",
    "stage-by-stage comparison relies on the base construction consuming the random sources identically with and without a trailing option; a replay that does not reproduce the base is counted (replay_nondeterministic) and not judged",
    "refusals of requests the documentation does not cover but that could be met (N=0, d=0, torus side 1 or 2, shift offsets outside 0..R, 'grid' without dimensions, explicit t=1) are accepted either way",
    "the graph a formula was built on is decoded from variable names e_{u,v} (matching), p_{i,j} (php) and from the clauses of the pebbling formula",
]
REQUIRED = [
    "accepted_and_checked", "refusals_of_impossible", "refusals_observed", "adversary_engaged",
    "isomorphism_checks", "staged_comparisons", "save_files_compared", "cli_runs", "cli_graph_decoded",
    "spawn_runs", "cli_refusals",
    "cons:simple:gnp", "cons:simple:gnm", "cons:simple:gnd", "cons:simple:grid", "cons:simple:torus",
    "cons:simple:complete", "cons:simple:empty", "cons:bipartite:glrp", "cons:bipartite:glrm",
    "cons:bipartite:glrd", "cons:bipartite:regular", "cons:bipartite:shift", "cons:bipartite:complete",
    "cons:bipartite:empty", "cons:dag:path", "cons:dag:tree", "cons:dag:pyramid",
    "opt:plantclique", "opt:plantbiclique", "opt:addedges", "opt:splitedges", "opt:save",
    "branch:glrm:dense", "branch:glrm:sparse", "branch:glrm:sparse-rejected-sample",
    "branch:regular:retry", "branch:regular:retries-exhausted", "branch:regular:restart",
    "dense_regular_requests", "dense_regular_restarts", "graphs_read_from_pipes",
    "branch:addedges:sparse-rejected-sample", "branch:addedges:dense-fallback",
    "branch:gnp:multipartite", "glrm_requests_at_maximum", "gnm_requests_at_maximum",
]
CASE_TIMEOUT = {"quick": 120, "thorough": 600}
EXHAUSTIVE_SUBSPACES = {
    "quick": ["argument tuples (not random outcomes): gnm N<=6 x m in -1..C(N,2)+1; gnd N<=7 x d in -1..N+1; "
              "glrm L,R<=4 x m in -1..L*R+1; regular and glrd L,R<=5 x d in -1..R+1; grid/torus all 1-3 dimensional "
              "shapes with sides 1..4; path/tree/pyramid sizes -2..6"],
    "thorough": ["the same with glrm L,R<=5, regular/glrd L,R<=6, gnm N<=7, gnd N<=8, path/tree/pyramid sizes -2..7"]}

ACCEPT, REFUSE, EITHER, MALFORMED = "accept", "refuse", "either", "malformed"
RANDOM_CONS = {"gnp", "gnm", "gnd", "glrp", "glrm", "glrd", "regular"}
GRAPH_KIND = {"simple": "simple", "bipartite": "bipartite", "dag": "dag"}
APPLICATION_ORDER = ("plantclique", "plantbiclique", "addedges", "splitedges", "save")


# ===================================================================== taps
TAPPED = ("sample", "randint", "random", "shuffle", "choice", "randrange")


class RngTap:
    """Which function of cnfgen asked the global `random` module for what (installed on top of the
    adversary, so both fair and adversarial answers are seen)."""

    def __init__(self):
        self.calls = collections.Counter()

    def __enter__(self):
        self.saved = {}
        for name in TAPPED:
            orig = getattr(random, name)
            self.saved[name] = orig
            setattr(random, name, self._wrap(name, orig))
        return self

    def _wrap(self, name, orig):
        calls = self.calls

        def tapped(*a, **kw):
            calls[(sys._getframe(1).f_code.co_name, name)] += 1
            return orig(*a, **kw)
        return tapped

    def __exit__(self, *exc):
        for name, orig in self.saved.items():
            setattr(random, name, orig)


class RegularTap:
    """has_edge / add_edge traffic of BipartiteGraph while bipartite_random_regular runs: a run of
    3*d*d occupied answers in a row is an exhausted retry loop; every graph the function creates after
    its first one is a restart (whether it restarts by calling itself or by looping)."""

    def __enter__(self):
        import cnfgen.graphs as g
        self.g, self.cls = g, g.BipartiteGraph
        self.run = self.maxrun = self.restarts = 0
        self.orig = (self.cls.has_edge, self.cls.add_edge, self.cls.__init__)
        orig_has, orig_add, orig_init = self.orig
        self.builds = 0
        tap = self

        def has_edge(obj, u, v):
            r = orig_has(obj, u, v)
            if sys._getframe(1).f_code.co_name != "bipartite_random_regular":
                return r
            if r:
                tap.run += 1
                if tap.run > tap.maxrun:
                    tap.maxrun = tap.run
            else:
                tap.run = 0
            return r

        def add_edge(obj, u, v):
            tap.run = 0
            return orig_add(obj, u, v)

        def init(obj, *a, **kw):
            if sys._getframe(1).f_code.co_name == "bipartite_random_regular":
                tap.builds += 1
                if tap.builds > 1:
                    tap.restarts += 1
                    tap.run = 0
            return orig_init(obj, *a, **kw)
        self.cls.has_edge, self.cls.add_edge, self.cls.__init__ = has_edge, add_edge, init
        return self

    def __exit__(self, *exc):
        self.cls.has_edge, self.cls.add_edge, self.cls.__init__ = self.orig


# ===================================================================== observation of a result
class Unreadable(Exception):
    pass


def snapshot(gtype, G):
    """The returned object in the neutral form of the reference module."""
    import cnfgen.graphs as g
    try:
        if gtype == "simple":
            if not isinstance(G, g.Graph):
                raise Unreadable("not a cnfgen Graph: %r" % type(G).__name__)
            n = G.number_of_vertices()
            E = set()
            for u, v in G.edges():
                if not (isinstance(u, int) and isinstance(v, int) and 1 <= u <= n and 1 <= v <= n and u != v):
                    raise Unreadable("edge (%r,%r) outside 1..%d" % (u, v, n))
                E.add(frozenset((u, v)))
            if len(E) != G.number_of_edges():
                raise Unreadable("edge listing has %d distinct edges, number_of_edges() says %d"
                                 % (len(E), G.number_of_edges()))
            return ("simple", n, frozenset(E))
        if gtype == "dag":
            if not isinstance(G, g.DirectedGraph):
                raise Unreadable("not a cnfgen DirectedGraph: %r" % type(G).__name__)
            n = G.number_of_vertices()
            E = set()
            for u, v in G.edges():
                if not (isinstance(u, int) and isinstance(v, int) and 1 <= u <= n and 1 <= v <= n):
                    raise Unreadable("edge (%r,%r) outside 1..%d" % (u, v, n))
                E.add((u, v))
            if len(E) != G.number_of_edges():
                raise Unreadable("edge listing / number_of_edges() mismatch")
            return ("dag", n, frozenset(E))
        if not isinstance(G, g.BipartiteGraph):
            raise Unreadable("not a cnfgen BipartiteGraph: %r" % type(G).__name__)
        L, R = G.left_order(), G.right_order()
        E = set()
        for u, v in G.edges():
            if not (isinstance(u, int) and isinstance(v, int) and 1 <= u <= L and 1 <= v <= R):
                raise Unreadable("edge (%r,%r) outside (1..%d, 1..%d)" % (u, v, L, R))
            E.add((u, v))
        if len(E) != G.number_of_edges():
            raise Unreadable("edge listing / number_of_edges() mismatch")
        return ("bipartite", (L, R), frozenset(E))
    except Unreadable:
        raise
    except Exception as e:      # noqa: BLE001 - a result whose views raise is unreadable, not a harness error
        raise Unreadable("views raised %r" % e)


def show(g):
    kind, size, E = g
    es = sorted(tuple(sorted(e)) if kind == "simple" else tuple(e) for e in E)
    return "%s %r edges=%r" % (kind, size, es[:40])


# ===================================================================== expectations
class Exp:
    __slots__ = ("verdict", "region", "check")

    def __init__(self, verdict, region, check=None):
        self.verdict, self.region, self.check = verdict, region, check


_INT = re.compile(r"[+-]?\d+$")


def as_int(tok):
    return int(tok) if _INT.match(tok) else None


def as_float(tok):
    try:
        return float(tok)
    except ValueError:
        return None


def ints(args):
    out = [as_int(a) for a in args]
    return None if any(x is None for x in out) else out


def _size(g, expected, out):
    if g[1] != expected:
        out.append(("vertex-count", "has %r vertices, %r were requested" % (g[1], expected)))
        return False
    return True


def _iso(g, H, what, out, counter):
    counter["isomorphism_checks"] += 1
    if not ref.isomorphic(ref.to_nx(g), H):
        out.append(("not-the-named-graph", "is not isomorphic to %s" % what))


COUNTS = collections.Counter()       # filled by checks, flushed into ctx by flush_counts()


def exp_gnm(args):
    v = ints(args)
    if v is None or len(v) != 2:
        return Exp(MALFORMED, "malformed")
    n, m = v
    if n < 0 or m < 0:
        return Exp(REFUSE, "negative")
    if m > ref.comb2(n):
        return Exp(REFUSE, "m>max")

    def check(g, obs):
        out = []
        _size(g, n, out)
        if len(g[2]) != m:
            out.append(("edge-count", "has %d edges, %d were requested" % (len(g[2]), m)))
        return out
    return Exp(EITHER if n == 0 else ACCEPT, "N=0" if n == 0 else "legal", check)


def _regular_check(n, d):
    def check(g, obs):
        out = []
        if _size(g, n, out):
            deg = ref.degrees_simple(n, g[2])
            if any(x != d for x in deg):
                out.append(("not-regular", "degrees %r, every vertex should have degree %d" % (deg, d)))
        return out
    return check


def exp_gnd(args):
    v = ints(args)
    if v is None or len(v) != 2:
        return Exp(MALFORMED, "malformed")
    n, d = v
    if n < 0 or d < 0:
        return Exp(REFUSE, "negative")
    if n == 0:
        return Exp(EITHER if d == 0 else REFUSE, "N=0")
    if d >= n:
        return Exp(REFUSE, "d=n" if d == n else "d>n")
    if (n * d) % 2:
        return Exp(REFUSE, "nd-odd")
    return Exp(EITHER if d == 0 else ACCEPT, "d=0" if d == 0 else "legal", _regular_check(n, d))


def exp_gnp(args):
    if len(args) not in (2, 3):
        return Exp(MALFORMED, "malformed")
    n, p = as_int(args[0]), as_float(args[1])
    t = as_int(args[2]) if len(args) == 3 else 1
    if n is None or p is None or t is None:
        return Exp(MALFORMED, "malformed")
    if n < 0 or t < 0:
        return Exp(REFUSE, "negative")
    if not 0 <= p <= 1:                  # nan included
        return Exp(REFUSE, "p-out-of-range")
    if n == 0 or t == 0:
        return Exp(EITHER, "N=0")
    region = "p=0" if p == 0 else "p=1" if p == 1 else "0<p<1"
    explicit_t1 = len(args) == 3 and t == 1

    def check(g, obs):
        out = []
        if not _size(g, n * t, out) or explicit_t1:
            return out                   # "1-partite": the documentation does not say which graph that is
        E = g[2]
        if p == 0 and E:
            out.append(("p=0:not-empty", "p = 0 but %d edges are present" % len(E)))
        elif p == 1:
            want = ref.comb2(n) if t == 1 else ref.comb2(t) * n * n
            if len(E) != want:
                out.append(("p=1:not-complete", "p = 1 but %d of the %d possible edges are present" % (len(E), want)))
            elif t > 1:
                _iso(g, ref.complete_multipartite_nx(n, t), "the complete %d-partite graph" % t, out, COUNTS)
        if t > 1 and 0 < p < 1:
            ok = ref.balanced_partition_exists(n, t, E)
            if ok is False:
                out.append(("not-multipartite", "no partition into %d independent blocks of %d vertices" % (t, n)))
        return out
    return Exp(ACCEPT, region, check)


def exp_grid(periodic):
    name = "torus" if periodic else "grid"

    def exp(args):
        v = ints(args)
        if v is None:
            return Exp(MALFORMED, "malformed")
        if not v:
            return Exp(EITHER, "no-dimensions")
        if any(d < 0 for d in v):
            return Exp(REFUSE, "negative")
        if any(d == 0 for d in v):
            return Exp(EITHER, "side=0")

        def check(g, obs):
            out = []
            if _size(g, math.prod(v), out):
                _iso(g, ref.grid_nx(v, periodic), "the %s %s" % ("x".join(map(str, v)), name), out, COUNTS)
            return out
        if periodic and any(d <= 2 for d in v):
            return Exp(EITHER, "side<=2", check)      # a cycle on 1 or 2 vertices is not a simple graph
        return Exp(ACCEPT, "legal", check)
    return exp


def exp_complete_simple(args):
    v = ints(args)
    if v is None or len(v) not in (1, 2):
        return Exp(MALFORMED, "malformed")
    n, b = v[0], (v[1] if len(v) == 2 else None)
    if n < 0 or (b is not None and b < 0):
        return Exp(REFUSE, "negative")
    if n == 0 or b == 0:
        return Exp(EITHER, "N=0")

    def check(g, obs):
        out = []
        if b is None:
            if _size(g, n, out) and len(g[2]) != ref.comb2(n):
                out.append(("not-the-named-graph", "K_%d has %d edges, the graph has %d" % (n, ref.comb2(n), len(g[2]))))
        elif _size(g, n * b, out):
            _iso(g, ref.complete_multipartite_nx(n, b), "the complete %d-partite graph with blocks of %d" % (b, n),
                 out, COUNTS)
        return out
    return Exp(ACCEPT, "legal", check)


def exp_empty_simple(args):
    v = ints(args)
    if v is None or len(v) != 1:
        return Exp(MALFORMED, "malformed")
    n = v[0]
    if n < 0:
        return Exp(REFUSE, "negative")

    def check(g, obs):
        out = []
        if _size(g, n, out) and g[2]:
            out.append(("not-the-named-graph", "the empty graph has edges %s" % show(g)))
        return out
    return Exp(EITHER if n == 0 else ACCEPT, "N=0" if n == 0 else "legal", check)


def _lr(args, k):
    """L, R and k further integers, or None."""
    v = ints(args)
    if v is None or len(v) != 2 + k:
        return None
    return v


def exp_glrp(args):
    if len(args) != 3:
        return Exp(MALFORMED, "malformed")
    L, R, p = as_int(args[0]), as_int(args[1]), as_float(args[2])
    if L is None or R is None or p is None:
        return Exp(MALFORMED, "malformed")
    if L < 0 or R < 0:
        return Exp(REFUSE, "negative")
    if not 0 <= p <= 1:
        return Exp(REFUSE, "p-out-of-range")
    if L == 0 or R == 0:
        return Exp(EITHER, "side=0")
    region = "p=0" if p == 0 else "p=1" if p == 1 else "0<p<1"

    def check(g, obs):
        out = []
        if _size(g, (L, R), out):
            if p == 0 and g[2]:
                out.append(("p=0:not-empty", "p = 0 but edges %s are present" % show(g)))
            if p == 1 and len(g[2]) != L * R:
                out.append(("p=1:not-complete", "p = 1 but only %d of %d edges are present" % (len(g[2]), L * R)))
        return out
    return Exp(ACCEPT, region, check)


def exp_glrm(args):
    v = _lr(args, 1)
    if v is None:
        return Exp(MALFORMED, "malformed")
    L, R, m = v
    if L < 0 or R < 0 or m < 0:
        return Exp(REFUSE, "negative")
    if m > L * R:
        return Exp(REFUSE, "m>max")
    if L == 0 or R == 0:
        return Exp(EITHER, "side=0")

    def check(g, obs):
        out = []
        _size(g, (L, R), out)
        if len(g[2]) != m:
            out.append(("edge-count", "has %d edges, %d were requested" % (len(g[2]), m)))
        return out
    return Exp(ACCEPT, "legal", check)


def _bip_degrees(g):
    (L, R), E = g[1], g[2]
    ld, rd = [0] * (L + 1), [0] * (R + 1)
    for u, v in E:
        ld[u] += 1
        rd[v] += 1
    return ld[1:], rd[1:]


def exp_glrd(args):
    v = _lr(args, 1)
    if v is None:
        return Exp(MALFORMED, "malformed")
    L, R, d = v
    if L < 0 or R < 0 or d < 0:
        return Exp(REFUSE, "negative")
    if d > R:
        return Exp(REFUSE, "d>R")
    if L == 0 or R == 0:
        return Exp(EITHER, "side=0")

    def check(g, obs):
        out = []
        if _size(g, (L, R), out):
            ld, _ = _bip_degrees(g)
            if any(x != d for x in ld):
                out.append(("not-left-regular", "left degrees %r, should all be %d" % (ld, d)))
        return out
    return Exp(ACCEPT, "legal", check)


def exp_regular(args):
    v = _lr(args, 1)
    if v is None:
        return Exp(MALFORMED, "malformed")
    L, R, d = v
    if L < 0 or R < 0 or d < 0:
        return Exp(REFUSE, "negative")
    if d > R:
        return Exp(REFUSE, "d>R")
    if L == 0 or R == 0:
        return Exp(EITHER, "side=0")
    if (L * d) % R:
        return Exp(REFUSE, "R-does-not-divide-L*d")

    def check(g, obs):
        out = []
        if _size(g, (L, R), out):
            ld, rd = _bip_degrees(g)
            if any(x != d for x in ld) or any(x != L * d // R for x in rd):
                why = "not-regular"
                if obs and obs.get("exhausted"):
                    why += ":after-retry-exhaustion"
                out.append((why, "left degrees %r (should be %d), right degrees %r (should be %d)"
                            % (ld, d, rd, L * d // R)))
        return out
    return Exp(ACCEPT, "legal", check)


def exp_shift(args):
    v = ints(args)
    if v is None or len(v) < 2:
        return Exp(MALFORMED, "malformed")
    L, R, pattern = v[0], v[1], v[2:]
    if L < 0 or R < 0:
        return Exp(REFUSE, "negative")
    if L == 0 or R == 0:
        return Exp(EITHER, "side=0")
    documented = len(set(pattern)) == len(pattern) and all(0 <= x <= R for x in pattern)

    def check(g, obs):
        out = []
        if _size(g, (L, R), out) and g[2] != ref.shift_edges(L, R, pattern):
            out.append(("not-the-named-graph", "edges %s, the pattern %r gives %r"
                        % (show(g), pattern, sorted(ref.shift_edges(L, R, pattern)))))
        return out
    return Exp(ACCEPT if documented else EITHER, "legal" if documented else "pattern-outside-0..R", check)


def exp_complete_bip(args):
    v = _lr(args, 0)
    if v is None:
        return Exp(MALFORMED, "malformed")
    L, R = v
    if L < 0 or R < 0:
        return Exp(REFUSE, "negative")
    if L == 0 or R == 0:
        return Exp(EITHER, "side=0")

    def check(g, obs):
        out = []
        if _size(g, (L, R), out) and len(g[2]) != L * R:
            out.append(("not-the-named-graph", "K_{%d,%d} has %d edges, the graph has %d" % (L, R, L * R, len(g[2]))))
        return out
    return Exp(ACCEPT, "legal", check)


def exp_empty_bip(args):
    v = _lr(args, 0)
    if v is None:
        return Exp(MALFORMED, "malformed")
    L, R = v
    if L < 0 or R < 0:
        return Exp(REFUSE, "negative")
    if L == 0 or R == 0:
        return Exp(EITHER, "side=0")

    def check(g, obs):
        out = []
        if _size(g, (L, R), out) and g[2]:
            out.append(("not-the-named-graph", "the empty bipartite graph has edges %s" % show(g)))
        return out
    return Exp(ACCEPT, "legal", check)


def exp_dag(name):
    builder = {"path": ref.path_nx, "tree": ref.tree_nx, "pyramid": ref.pyramid_nx}[name]

    def exp(args):
        v = ints(args)
        if v is None or len(v) != 1:
            return Exp(MALFORMED, "malformed")
        x = v[0]
        if x < 0:
            return Exp(REFUSE, "negative")

        def check(g, obs):
            out = []
            back = sorted(e for e in g[2] if e[0] >= e[1])
            if back:
                out.append(("not-acyclic", "edges %r do not go from a lower to a higher vertex" % back[:6]))
            if _size(g, ref.dag_order(name, x), out):
                _iso(g, builder(x), "the %s of size %d" % (name, x), out, COUNTS)
            return out
        return Exp(ACCEPT, "legal", check)
    return exp


EXPECT = {
    "simple": {"gnp": exp_gnp, "gnm": exp_gnm, "gnd": exp_gnd, "grid": exp_grid(False), "torus": exp_grid(True),
               "complete": exp_complete_simple, "empty": exp_empty_simple},
    "bipartite": {"glrp": exp_glrp, "glrm": exp_glrm, "glrd": exp_glrd, "regular": exp_regular,
                  "shift": exp_shift, "complete": exp_complete_bip, "empty": exp_empty_bip},
    "dag": {"path": exp_dag("path"), "tree": exp_dag("tree"), "pyramid": exp_dag("pyramid")},
}
OPTIONS = {"simple": ("plantclique", "addedges", "splitedges"), "bipartite": ("plantbiclique", "addedges"), "dag": ()}


def expect_option(gtype, opt, args, prev):
    """What `opt args` must do to the graph `prev` of the previous stage."""
    if opt not in OPTIONS[gtype]:
        return Exp(MALFORMED, "not-an-option-of-this-graph-type")
    v = ints(args)
    kind, size, base = prev
    if opt == "plantclique":
        if v is None or len(v) != 1:
            return Exp(MALFORMED, "malformed")
        k = v[0]
        if k < 0:
            return Exp(REFUSE, "negative")
        if k > size:
            return Exp(REFUSE, "k>n")

        def check(g, obs):
            out = []
            if _size(g, size, out) and not ref.clique_explains(size, base, g[2], k):
                if not ref.has_clique(size, g[2], k):
                    out.append(("no-clique-of-requested-size", "no %d vertices are pairwise adjacent in %s" % (k, show(g))))
                else:
                    out.append(("not-base-plus-one-clique", "%s is not %s plus the pairs of one %d-set"
                                % (show(g), show(prev), k)))
            return out
        return Exp(ACCEPT, "legal", check)
    if opt == "plantbiclique":
        if v is None or len(v) != 2:
            return Exp(MALFORMED, "malformed")
        a, b = v
        if a < 0 or b < 0:
            return Exp(REFUSE, "negative")
        if a > size[0] or b > size[1]:
            return Exp(REFUSE, "does-not-fit")

        def check(g, obs):
            out = []
            if _size(g, size, out) and not ref.biclique_explains(size[0], size[1], base, g[2], a, b):
                out.append(("no-biclique-of-requested-size", "%s is not %s plus A x B with |A|=%d, |B|=%d"
                            % (show(g), show(prev), a, b)))
            return out
        return Exp(ACCEPT, "legal", check)
    if opt == "addedges":
        if v is None or len(v) != 1:
            return Exp(MALFORMED, "malformed")
        m = v[0]
        if m < 0:
            return Exp(REFUSE, "negative")
        total = ref.comb2(size) if kind == "simple" else size[0] * size[1]
        if m > total - len(base):
            return Exp(REFUSE, "m>missing")

        def check(g, obs):
            out = []
            if _size(g, size, out):
                if not base <= g[2]:
                    out.append(("loses-edges", "edges of the base graph disappeared: %s -> %s" % (show(prev), show(g))))
                elif len(g[2]) - len(base) != m:
                    out.append(("new-edge-count", "%d new edges instead of %d: %s -> %s"
                                % (len(g[2]) - len(base), m, show(prev), show(g))))
            return out
        return Exp(ACCEPT, "legal", check)
    # splitedges
    if v is None or len(v) != 1:
        return Exp(MALFORMED, "malformed")
    k = v[0]
    if k < 0:
        return Exp(REFUSE, "negative")
    if k > len(base):
        return Exp(REFUSE, "k>edges")

    def check(g, obs):
        out = []
        if g[1] != size + k or len(g[2]) != len(base) + k:
            out.append(("count", "%d vertices / %d edges became %d / %d with k = %d"
                        % (size, len(base), g[1], len(g[2]), k)))
        elif not ref.subdivision_explains(size, base, g[1], g[2], k):
            out.append(("not-a-subdivision", "%s is not %s with %d edges subdivided" % (show(g), show(prev), k)))
        return out
    return Exp(ACCEPT, "legal", check)


# ===================================================================== running and judging
def flush_counts(ctx):
    for k, v in COUNTS.items():
        ctx.count(k, v)
    COUNTS.clear()


def build(ctx, gtype, tokens, rnd, regular_d=None):
    """One monitored call of make_graph_from_spec under the randomness rnd = (mode, budget, seed)."""
    from cnfgen.clitools.graph_args import make_graph_from_spec
    mode, budget, seed = rnd
    random.seed(seed)                  # the global generator: networkx's samplers and the fair schedule
    with contextlib.ExitStack() as stack:
        adv = stack.enter_context(adversary(mode, budget, seed)) if mode != "fair" else None
        rt = stack.enter_context(RegularTap()) if regular_d is not None else None
        tap = stack.enter_context(RngTap())
        st, val = ctx.call(make_graph_from_spec, gtype, list(tokens))
    obs = {"calls": tap.calls, "engaged": adv.engaged if adv else 0}
    if adv is not None and adv.engaged:
        ctx.count("adversary_engaged")
        ctx.count("adversary_engaged:" + mode)
    if rt is not None:
        obs["exhausted"] = regular_d > 0 and rt.maxrun >= 3 * regular_d * regular_d
        obs["restarts"] = rt.restarts
        if obs["exhausted"]:
            ctx.count("branch:regular:retries-exhausted")
        if rt.restarts:
            ctx.count("branch:regular:restart")
    c = tap.calls
    by_m = [fn for (caller, fn) in c if caller == "bipartite_random_m_edges"]
    if any(fn != "randint" for fn in by_m):
        obs["branch"] = "dense"
        ctx.count("branch:glrm:dense")
    elif by_m:
        obs["branch"] = "sparse"
        ctx.count("branch:glrm:sparse")
    if c.get(("add_random_missing_edges", "sample")):
        ctx.count("branch:addedges:dense-fallback")
    if c.get(("multipartite_tnp", "random")):
        ctx.count("branch:gnp:multipartite")
    return st, val, obs


def region_of(name, exp, obs):
    """The argument region of the expectation; for glrm inside its range the sampling strategy that
    was observed (the defect classes differ by strategy, not by argument)."""
    if name == "glrm" and exp.verdict == ACCEPT and obs.get("branch"):
        return obs["branch"]
    return exp.region


def judge(ctx, label, name, exp, st, val, obs, gtype):
    """Outcome of one build against the expectation; returns the snapshot of an accepted graph."""
    region = region_of(name, exp, obs)
    if st == "exc":
        if isinstance(val, ValueError):
            ctx.count("refusals_observed")
            if exp.verdict == ACCEPT:
                ctx.violation("%s:%s:refuses-feasible" % (name, region),
                              "%s was refused (%s) although the request is inside the documented range and can be met"
                              % (label, str(val)[:200]))
            elif exp.verdict == REFUSE:
                ctx.count("refusals_of_impossible")
                ctx.count("refused:%s:%s" % (name, region))
            return None
        ctx.violation("%s:%s:raises:%s" % (name, region, type(val).__name__),
                      "%s ended in %r instead of a graph or a ValueError" % (label, val))
        return None
    try:
        g = snapshot(gtype, val)
    except Unreadable as e:
        ctx.violation("%s:result-unreadable" % name, "%s returned an object that cannot be listed: %s" % (label, e))
        return None
    if exp.verdict == REFUSE:
        ctx.violation("%s:%s:accepts-impossible" % (name, region),
                      "%s cannot be met but returned %s" % (label, show(g)))
        return g
    if exp.verdict == MALFORMED:
        ctx.count("malformed_accepted_unjudged")
        return g
    if exp.check is not None:
        for suffix, msg in exp.check(g, obs):
            ctx.violation("%s:%s" % (name, suffix), "%s: %s" % (label, msg))
        ctx.count("accepted_and_checked")
    else:
        ctx.count("accepted_shape_not_documented")
    return g


def nontrivial(exp, st):
    return exp.verdict in (ACCEPT, REFUSE) or (exp.verdict == EITHER and exp.check is not None and st == "ok")


def schedules(r, tier, cons_random, hostile_useful, nseeds):
    """(mode, budget, seed) triples for one specification."""
    if not cons_random:
        return [("fair", 0, 0)]
    out = [("fair", 0, r.randrange(1 << 30)) for _ in range(nseeds)]
    if hostile_useful:
        budgets = (6, 60, 700) if tier == "quick" else (3, 6, 25, 60, 250, 700)
        for mode in ("low", "repeat", "high"):
            for b in budgets:
                if mode == "repeat" and b not in (6, 700):
                    continue                   # `repeat` coincides with `low` on the functions used here
                out.append((mode, b, r.randrange(1 << 30)))
    return out


def label_of(gtype, tokens, rnd):
    return "%s graph `%s` [%s]" % (gtype, " ".join(tokens), "%s budget=%d seed=%d" % rnd)


# ----------------------------------------------------------------- constructions
def case_family(ctx, gtype, cons, arglists, nseeds):
    r = ctx.rng("c15-family", gtype, cons, repr(arglists), nseeds)
    for args in arglists:
        exp = EXPECT[gtype][cons](args)
        tokens = [cons] + list(args)
        israndom = cons in RANDOM_CONS
        # networkx's samplers do not ask the functions the adversary replaces
        t = as_int(args[2]) if cons == "gnp" and len(args) == 3 else 1
        hostile = israndom and not (cons in ("gnm", "gnd") or (cons == "gnp" and (t is None or t <= 1)))
        regular_d = None
        if cons == "regular":
            v = ints(args)
            regular_d = v[2] if v and len(v) == 3 and v[2] >= 0 else 0
        for rnd in schedules(r, ctx.tier, israndom and exp.verdict != MALFORMED, hostile, nseeds):
            st, val, obs = build(ctx, gtype, tokens, rnd, regular_d)
            ctx.count("cons:%s:%s" % (gtype, cons))
            judge(ctx, label_of(gtype, tokens, rnd), cons, exp, st, val, obs, gtype)
            c = obs["calls"]
            v = ints(args)
            if cons == "glrm" and exp.verdict == ACCEPT and v[2] == v[0] * v[1]:
                ctx.count("glrm_requests_at_maximum")
            if cons == "gnm" and exp.verdict == ACCEPT and v[0] > 1 and v[1] == math.comb(v[0], 2):
                ctx.count("gnm_requests_at_maximum")
            if cons == "glrm" and v and len(v) == 3 and c.get(("bipartite_random_m_edges", "randint"), 0) > 2 * max(v[2], 0):
                ctx.count("branch:glrm:sparse-rejected-sample")
            if cons == "regular" and v and len(v) == 3 and \
                    c.get(("bipartite_random_regular", "randint"), 0) > 2 * v[0] * max(v[2], 0) and not obs.get("restarts"):
                ctx.count("branch:regular:retry")
            key = ("lib", gtype, tuple(tokens)) + (rnd if israndom else ())
            ctx.judged(key, nontrivial=nontrivial(exp, st),
                       sample={"graph type": gtype, "spec": " ".join(tokens), "randomness": list(rnd),
                               "expected": exp.verdict + "/" + exp.region,
                               "outcome": "graph" if st == "ok" else repr(val)[:120]})
    flush_counts(ctx)


def case_big_constructions(ctx, specs, rseed):
    """Constructions at sizes where samplers switch strategy for memory's sake: more than a million candidate pairs,
    sides of different lengths, dense and sparse requests.  One fair seed each (seconds per request)."""
    r = ctx.rng("c15-big", rseed, repr(specs))
    for gtype, tokens in specs:
        cons, args = tokens[0], tokens[1:]
        exp = EXPECT[gtype][cons](args)
        rnd = ("fair", 0, r.randrange(1 << 30))
        st, val, obs = build(ctx, gtype, tokens, rnd)
        ctx.count("cons:%s:%s" % (gtype, cons))
        ctx.count("big_constructions")
        judge(ctx, label_of(gtype, tokens, rnd), cons, exp, st, val, obs, gtype)
        ctx.judged(("big", gtype, tuple(tokens)), nontrivial=True, sample={"spec": " ".join(tokens), "outcome": "graph" if st == "ok" else repr(val)[:100]})
    flush_counts(ctx)


DENSE_REGULAR = [[str(x) for x in t] for t in ((12, 12, 11), (16, 16, 15), (14, 14, 13), (18, 12, 11), (20, 20, 19),
                                               (15, 10, 9), (18, 18, 17))]


def case_dense_regular(ctx, args, seeds, headroom):
    """Nearly complete regular graphs: the construction gets stuck most of the times and starts again, hundreds of
    times for the densest requests.  The caller is `headroom` frames away from the interpreter's recursion limit, as a
    caller deep inside a framework or a recursive procedure is."""
    exp = EXPECT["bipartite"]["regular"](args)
    tokens = ["regular"] + list(args)
    d = ints(args)[2]
    for seed in seeds:
        rnd = ("fair", 0, seed)
        old = sys.getrecursionlimit()
        depth = 0
        f = sys._getframe()
        while f is not None:
            depth += 1
            f = f.f_back
        sys.setrecursionlimit(depth + headroom)
        try:
            st, val, obs = build(ctx, "bipartite", tokens, rnd, d)
        finally:
            sys.setrecursionlimit(old)
        ctx.count("cons:bipartite:regular")
        ctx.count("dense_regular_requests")
        ctx.count("dense_regular_restarts", obs.get("restarts", 0))
        if obs.get("restarts", 0) > headroom:
            ctx.count("dense_regular_more_restarts_than_stack_frames_left")
        judge(ctx, label_of("bipartite", tokens, rnd) + " [caller %d frames below the recursion limit]" % headroom,
              "regular", exp, st, val, obs, "bipartite")
        ctx.judged(("lib-dense", tuple(tokens), seed, headroom), nontrivial=True,
                   sample={"spec": " ".join(tokens), "seed": seed, "restarts": obs.get("restarts"),
                           "frames left": headroom, "outcome": "graph" if st == "ok" else repr(val)[:120]})
    flush_counts(ctx)


# ----------------------------------------------------------------- options, stage by stage
def spec_tokens(base, opts, order, tmp=None):
    """Tokens of base + the options `opts` (list of [name, args]) written in the order `order`."""
    toks = list(base)
    for i in order:
        name, args = opts[i]
        toks.append(name)
        toks.extend(args)
    return toks


def run_staged(ctx, gtype, base, opts, order, rnd, via="lib"):
    """Judge `base opts...` stage by stage.  opts are in application order; `order` is the order in
    which their tokens are written.  Returns (final status, final snapshot or None)."""
    cons, cargs = base[0], base[1:]
    exp = EXPECT[gtype][cons](cargs)
    israndom = cons in RANDOM_CONS
    regular_d = None
    if cons == "regular":
        v = ints(cargs)
        regular_d = v[2] if v and len(v) == 3 and v[2] >= 0 else 0
    st, val, obs = build(ctx, gtype, base, rnd, regular_d)
    ctx.count("cons:%s:%s" % (gtype, cons))
    prev = judge(ctx, label_of(gtype, base, rnd), cons, exp, st, val, obs, gtype)
    full = tuple(spec_tokens(base, opts, order))
    keytail = rnd if (israndom or opts) else ()
    if prev is None or exp.verdict in (REFUSE, MALFORMED):
        # the base is refused (or should have been): the full specification must be refused as well
        if opts:
            st2, val2, obs2 = build(ctx, gtype, full, rnd, regular_d)
            if st2 == "exc" and not isinstance(val2, ValueError):
                ctx.violation("%s:%s:raises:%s" % (cons, region_of(cons, exp, obs2), type(val2).__name__),
                              "%s ended in %r" % (label_of(gtype, full, rnd), val2))
            elif st2 == "ok" and exp.verdict == REFUSE:
                ctx.violation("%s:%s:accepts-impossible" % (cons, exp.region),
                              "%s cannot be met but returned a graph" % label_of(gtype, full, rnd))
        ctx.judged((via, gtype, full) + keytail, nontrivial=nontrivial(exp, st),
                   sample={"spec": " ".join(full), "randomness": list(rnd), "stage": "base",
                           "outcome": "graph" if st == "ok" else repr(val)[:100]})
        return st, prev
    applied = []
    for i, (name, args) in enumerate(opts):
        applied.append(i)
        toks = spec_tokens(base, opts, [j for j in order if j in applied])
        oexp = expect_option(gtype, name, args, prev)
        st, val, obs = build(ctx, gtype, toks, rnd, regular_d)
        ctx.count("opt:" + name)
        ctx.count("staged_comparisons")
        lab = label_of(gtype, toks, rnd)
        before = ctx.counters.get("violations_raw", 0)
        g = judge(ctx, lab, name, oexp, st, val, obs, gtype)
        if name == "addedges" and oexp.verdict == ACCEPT:
            m = as_int(args[0])
            per = 2 if gtype == "bipartite" else 1
            if obs["calls"].get(("edge_sampler", "sample"), 0) > per * m:
                ctx.count("branch:addedges:sparse-rejected-sample")
        if g is not None and oexp.verdict == ACCEPT and ctx.counters.get("violations_raw", 0) > before:
            # a failed comparison could be the harness's fault: did the base replay identically?
            st3, val3, _ = build(ctx, gtype, spec_tokens(base, opts, [j for j in order if j in applied[:-1]]), rnd, regular_d)
            try:
                if st3 != "ok" or snapshot(gtype, val3) != prev:
                    ctx.count("replay_nondeterministic")
            except Unreadable:
                pass
        ctx.judged((via, gtype, tuple(toks)) + rnd, nontrivial=nontrivial(oexp, st),
                   sample={"spec": " ".join(toks), "randomness": list(rnd), "stage": name,
                           "before": show(prev), "expected": oexp.verdict + "/" + oexp.region,
                           "outcome": show(g) if g is not None else repr(val)[:100]})
        if g is None or oexp.verdict != ACCEPT:
            return st, None
        prev = g
    return "ok", prev


def case_options(ctx, gtype, base, optsets, nseeds):
    r = ctx.rng("c15-options", gtype, repr(base), repr(optsets))
    cons = base[0]
    israndom = cons in RANDOM_CONS
    for opts in optsets:
        opts = sorted(opts, key=lambda o: APPLICATION_ORDER.index(o[0]) if o[0] in APPLICATION_ORDER else 99)
        order = list(range(len(opts)))
        r.shuffle(order)
        # options are random as well: always several schedules
        for rnd in schedules(r, ctx.tier, True, True, nseeds):
            run_staged(ctx, gtype, base, opts, order, rnd)
    flush_counts(ctx)


# ----------------------------------------------------------------- the same numbers, spelled differently
def respell(r, tok):
    """Another decimal spelling of the same integer ('7' -> '07', '+7'; '0' -> '-0', '00'); other tokens unchanged."""
    if not re.match(r"[0-9]+$", tok):
        return tok
    if tok == "0":
        return r.choice(["0", "-0", "+0", "00"])
    return r.choice([tok, "0" + tok, "+" + tok, "00" + tok, "+0" + tok])


def case_respell(ctx, gtype, cons, arglists, nseeds):
    """A specification means its numbers, not their spelling: with the integers written as 07 / +7 / -0 the outcome under
    the same random choices is the same graph, and a request that is refused in plain spelling is refused in any
    spelling.  (A stricter parser that rejects the unusual spelling of an acceptable request is tolerated.)"""
    r = ctx.rng("c15-respell", gtype, cons)
    for args in arglists:
        plain = [cons] + list(args)
        for _ in range(nseeds):
            other = [cons] + [respell(r, t) for t in args]
            if other == plain:
                continue
            rnd = ("fair", 0, r.randrange(1 << 30))
            st1, val1, _ = build(ctx, gtype, plain, rnd)
            st2, val2, _ = build(ctx, gtype, other, rnd)
            ctx.count("respelled_pairs")
            lab = "%s vs %s" % (label_of(gtype, plain, rnd), " ".join(other))
            if st2 == "exc" and not isinstance(val2, ValueError):
                ctx.violation("%s:respelled:raises:%s" % (cons, type(val2).__name__), "%s: the second ended in %r" % (lab, val2))
            elif st1 == "exc" and isinstance(val1, ValueError) and st2 == "ok":
                ctx.violation("%s:respelled:accepts-what-it-refuses-in-plain-spelling" % cons,
                              "%s: the first is refused (%s), the second returns a graph" % (lab, str(val1)[:120]))
            elif st1 == "ok" and st2 == "ok":
                try:
                    g1, g2 = snapshot(gtype, val1), snapshot(gtype, val2)
                except Unreadable:
                    continue
                if g1 != g2:
                    ctx.violation("%s:respelled:another-graph" % cons, "%s: %s vs %s" % (lab, show(g1), show(g2)))
            elif st1 == "ok":
                ctx.count("respelled_refused_by_stricter_parser")
            ctx.judged(("respell", gtype, tuple(other)) + rnd, nontrivial=st1 == "ok" or st2 == "ok",
                       sample={"plain": " ".join(plain), "respelled": " ".join(other), "outcomes": [st1, st2]})
    flush_counts(ctx)


# ----------------------------------------------------------------- graphs read from files, then modified
os.environ.setdefault("VMONVAR", "expanded")
ODD_FILE_NAMES = ["plain", "net{v2}", "K{}", "B{left}", "{0}", "}{", "{", "a{0!r}b", "{{x}}", "100%", "a%sb", "%(x)s", "two words", "caf\u00e9",
                  "$(x)", "in$VMONVAR", "${VMONVAR}", "cost$", "~tilde", "semi;colon", "it's", 'q"uote', "back\\slash", "star*", "tilde~", "hash#1", "c", "p edge", "+ 3 random edges"]


def case_pipe_base(ctx, gtype, nseeds):
    """A graph given as a file that is not a regular file: a named pipe, and /dev/fd/N as a shell's process substitution
    produces (`kthlist <(zcat g.kthlist.gz)`).  Such files report size 0 and cannot be rewound, but deliver the whole
    graph: the request, with or without options, is an ordinary feasible one."""
    import threading
    import cnfgen.graphs as cg
    r = ctx.rng("c15-pipebase", gtype)
    tmp = tempfile.mkdtemp(prefix="vmon-c15p-")
    try:
        for k in range(4 * nseeds):
            fmt = ("kthlist", "gml", "dimacs")[k % 3] if gtype != "bipartite" else ("kthlist", "matrix", "gml")[k % 3]
            if gtype == "simple":
                n = r.randint(4, 7)
                E = {frozenset(p) for p in itertools.combinations(range(1, n + 1), 2) if r.random() < 0.4}
                G = cg.Graph(n)
                for e in E:
                    G.add_edge(*sorted(e))
                want = ("simple", n, frozenset(E))
                opts = r.choice([[], ["addedges", "0"], ["plantclique", "1"]])
            elif gtype == "bipartite":
                L, R = r.randint(2, 4), r.randint(2, 5)
                E = {(u, v) for u in range(1, L + 1) for v in range(1, R + 1) if r.random() < 0.4}
                G = cg.BipartiteGraph(L, R)
                for e in sorted(E):
                    G.add_edge(*e)
                want = ("bipartite", (L, R), frozenset(E))
                opts = r.choice([[], ["addedges", "0"], ["plantbiclique", "0", "0"]])
            else:
                n = r.randint(3, 6)
                E = {(u, v) for u in range(1, n + 1) for v in range(u + 1, n + 1) if r.random() < 0.4}
                G = cg.DirectedGraph(n)
                for e in sorted(E):
                    G.add_edge(*e)
                want = ("dag", n, frozenset(E))
                opts = []
            buf = io.StringIO()
            try:
                cg.writeGraph(G, buf, gtype, fmt)
            except Exception:       # noqa: BLE001
                ctx.count("file_base_not_prepared")
                continue
            text = buf.getvalue()
            for source in ("fifo", "devfd"):
                fds = []
                if source == "fifo":
                    path = os.path.join(tmp, "pipe%d.%s" % (k, fmt))
                    os.mkfifo(path)

                    def feed(path=path):
                        try:
                            with open(path, "w") as f:
                                f.write(text)
                        except OSError:
                            pass
                else:
                    rd, wr = os.pipe()
                    fds = [rd]
                    path = "/dev/fd/%d" % rd

                    def feed(wr=wr):
                        try:
                            with os.fdopen(wr, "w") as f:
                                f.write(text)
                        except OSError:
                            pass
                th = threading.Thread(target=feed, daemon=True)
                th.start()
                save = os.path.join(tmp, "out%d.%s" % (k, fmt))
                toks = [fmt, path] + opts + (["save", fmt, save] if k % 2 else [])
                st, val, obs = build(ctx, gtype, toks, ("fair", 0, r.randrange(1 << 30)))
                if source == "fifo":
                    try:            # let a writer go whose pipe was never opened
                        os.close(os.open(path, os.O_RDONLY | os.O_NONBLOCK))
                    except OSError:
                        pass
                for fd in fds:
                    try:
                        os.close(fd)
                    except OSError:
                        pass
                th.join(5)
                lab = "%s graph `%s %s %s` where the file is %s" % (gtype, fmt, "<pipe>", " ".join(toks[2:]).replace(tmp, "<dir>"),
                                                                 "a named pipe" if source == "fifo" else "/dev/fd/N of a pipe")
                ctx.count("graphs_read_from_pipes")
                if st == "exc":
                    ctx.violation("file:pipe:%s" % ("refuses-readable-file" if isinstance(val, ValueError) else "raises:" + type(val).__name__),
                                  "%s ended in %r" % (lab, val))
                    continue
                try:
                    got = snapshot(gtype, val)
                except Unreadable as e:
                    ctx.violation("file:result-unreadable", "%s: %s" % (lab, e))
                    continue
                if got != want:
                    ctx.violation("file:pipe:graph-differs-from-file", "%s: got %s, the pipe delivered %s" % (lab, show(got), show(want)))
                if k % 2:
                    try:
                        f = ref.read_saved(GRAPH_KIND[gtype], fmt, save)
                        if f != want:
                            ctx.violation("save:%s:file-differs-from-graph" % fmt, "%s: file holds %s, the graph is %s" % (lab, show(f), show(want)))
                    except (ref.FileFormatError, OSError) as e:
                        ctx.violation("save:%s:file-not-in-format" % fmt, "%s: %s" % (lab, e))
                ctx.judged(("pipe-base", gtype, fmt, source, tuple(opts), k % 2), nontrivial=True, sample={"spec": lab})
    finally:
        shutil.rmtree(tmp, ignore_errors=True)


def case_file_base(ctx, gtype, nseeds):
    """A graph given as a file (whose path may contain characters that mean something to string formatting, shells or
    the formats themselves), followed by each option: the option acts on the graph in the file."""
    import cnfgen.graphs as cg
    r = ctx.rng("c15-filebase", gtype)
    tmp = tempfile.mkdtemp(prefix="vmon-c15-")
    try:
        for k, stem in enumerate(ODD_FILE_NAMES):
            fmt = ("kthlist", "gml")[k % 2] if gtype != "bipartite" else ("kthlist", "matrix", "gml")[k % 3]
            if gtype == "simple":
                n = r.randint(4, 7)
                E = {frozenset(p) for p in itertools.combinations(range(1, n + 1), 2) if r.random() < 0.4}
                G = cg.Graph(n)
                for e in E:
                    G.add_edge(*sorted(e))
                want = ("simple", n, frozenset(E))
                optlist = [["plantclique", [str(r.randint(0, 3))]], ["addedges", [str(r.randint(0, 2))]],
                           ["splitedges", [str(min(len(E), r.randint(0, 2)))]]]
            elif gtype == "bipartite":
                L, R = r.randint(2, 4), r.randint(2, 5)
                E = {(u, v) for u in range(1, L + 1) for v in range(1, R + 1) if r.random() < 0.4}
                G = cg.BipartiteGraph(L, R)
                for e in sorted(E):
                    G.add_edge(*e)
                want = ("bipartite", (L, R), frozenset(E))
                optlist = [["plantbiclique", [str(r.randint(0, 2)), str(r.randint(0, 2))]], ["addedges", [str(r.randint(0, 2))]]]
            else:
                n = r.randint(3, 6)
                E = {(u, v) for u in range(1, n + 1) for v in range(u + 1, n + 1) if r.random() < 0.4}
                G = cg.DirectedGraph(n)
                for e in sorted(E):
                    G.add_edge(*e)
                want = ("dag", n, frozenset(E))
                optlist = []
            path = os.path.join(tmp, "%s.%s" % (stem, fmt))
            try:
                cg.writeGraph(G, path, gtype if gtype != "dag" else "dag", fmt)
            except Exception as e:       # noqa: BLE001 - a file the harness cannot prepare decides nothing
                ctx.count("file_base_not_prepared")
                continue
            shown = "<dir>/%s.%s" % (stem, fmt)
            if not any(ch.isspace() for ch in path):
                # the documented one-string form of a specification: the same words separated by blanks
                from cnfgen.clitools.graph_args import make_graph_from_spec
                for spec in ("%s %s" % (fmt, path), path):
                    random.seed(1)
                    st, val = ctx.call(make_graph_from_spec, gtype, spec)
                    ctx.count("specifications_given_as_one_string")
                    lab0 = "%s graph from the one-string specification %r" % (gtype, spec.replace(tmp, "<dir>"))
                    if st == "exc":
                        ctx.violation("file:string-spec:%s" % ("refuses-readable-file" if isinstance(val, ValueError) else "raises:" + type(val).__name__),
                                      "%s ended in %r" % (lab0, val))
                        continue
                    try:
                        if snapshot(gtype, val) != want:
                            ctx.violation("file:string-spec:graph-differs-from-file", "%s: got %s, the file holds %s" % (lab0, show(snapshot(gtype, val)), show(want)))
                    except Unreadable as e:
                        ctx.violation("file:result-unreadable", "%s: %s" % (lab0, e))
            # the unmodified graph stored again in every format: the file name travels in the graph's name
            from cnfgen.clitools.graph_args import formats as _formats
            for sfmt in _formats[gtype]:
                if sfmt == "dot" and not cg.has_dot_library():
                    continue
                out = os.path.join(tmp, "stored%d.%s" % (k, sfmt))
                rnd = ("fair", 0, r.randrange(1 << 30))
                st, val, obs = build(ctx, gtype, [path, "save", sfmt, out], rnd)
                lab = "%s graph from file %s save %s <out>" % (gtype, shown, sfmt)
                ctx.count("opt:save")
                ctx.count("file_base_saves")
                if st == "exc":
                    ctx.violation("save:%s:%s" % (sfmt, "refuses" if isinstance(val, ValueError) else "raises:" + type(val).__name__),
                                  "%s ended in %r" % (lab, val))
                    continue
                try:
                    f = ref.read_saved(GRAPH_KIND[gtype], sfmt, out)
                except ref.FileFormatError as e:
                    ctx.violation("save:%s:file-not-in-format" % sfmt, "%s: the file is not a %s description of a %s graph: %s" % (lab, sfmt, gtype, e))
                    continue
                except OSError:
                    ctx.violation("save:no-file-written", "%s returned a graph but wrote no file" % lab)
                    continue
                if f != want:
                    ctx.violation("save:%s:file-differs-from-graph" % sfmt, "%s: file holds %s, the graph is %s" % (lab, show(f), show(want)))
                ctx.judged(("file-base-save", gtype, stem, sfmt), nontrivial=True, sample={"spec": "%s save %s <out>" % (shown, sfmt)})
                if sfmt != fmt and k % 2 == 0:
                    # ... and stored onto the very file it was read from, in another format (both formats spelled out)
                    original = open(path, "rb").read()
                    st, val, obs = build(ctx, gtype, [fmt, path, "save", sfmt, path], rnd)
                    lab = "%s graph from file %s %s save %s <the same file>" % (gtype, fmt, shown, sfmt)
                    ctx.count("opt:save")
                    ctx.count("file_base_saves_onto_the_input_file")
                    try:
                        if st == "exc":
                            if not isinstance(val, ValueError):
                                ctx.violation("save:%s:raises:%s" % (sfmt, type(val).__name__), "%s ended in %r" % (lab, val))
                            else:
                                ctx.count("refusals_observed")
                        else:
                            try:
                                f = ref.read_saved(GRAPH_KIND[gtype], sfmt, path)
                                if f != want:
                                    ctx.violation("save:%s:file-differs-from-graph" % sfmt, "%s: file holds %s, the graph is %s" % (lab, show(f), show(want)))
                            except ref.FileFormatError as e:
                                ctx.violation("save:%s:file-not-in-format" % sfmt, "%s: afterwards the file is not a %s description of a %s graph: %s"
                                              % (lab, sfmt, gtype, e))
                        ctx.judged(("file-base-save-onto-input", gtype, stem, fmt, sfmt), nontrivial=True, sample={"spec": lab})
                    finally:
                        with open(path, "wb") as fh:
                            fh.write(original)
            for opts in [[]] + [[o] for o in optlist] + ([optlist] if len(optlist) > 1 else []):
                for _ in range(nseeds):
                    rnd = ("fair", 0, r.randrange(1 << 30))
                    st, val, obs = build(ctx, gtype, [path], rnd)
                    lab0 = "%s graph from file %s" % (gtype, shown)
                    ctx.count("file_base_builds")
                    if st == "exc":
                        ctx.violation("file:%s" % ("refuses-readable-file" if isinstance(val, ValueError) else "raises:" + type(val).__name__),
                                      "%s ended in %r" % (lab0, val))
                        break
                    try:
                        prev = snapshot(gtype, val)
                    except Unreadable as e:
                        ctx.violation("file:result-unreadable", "%s: %s" % (lab0, e))
                        break
                    if prev != want:
                        ctx.violation("file:graph-differs-from-file", "%s: got %s, the file holds %s" % (lab0, show(prev), show(want)))
                        break
                    toks = [path]
                    okay = True
                    for name, args in opts:
                        toks = toks + [name] + list(args)
                        oexp = expect_option(gtype, name, args, prev)
                        st, val, obs = build(ctx, gtype, toks, rnd)
                        lab = "%s graph from file %s" % (gtype, " ".join([shown] + toks[1:]))
                        ctx.count("opt:" + name)
                        ctx.count("file_base_option_stages")
                        g = judge(ctx, lab, name, oexp, st, val, obs, gtype)
                        ctx.judged(("file-base", gtype, stem, tuple(toks[1:])) + rnd, nontrivial=nontrivial(oexp, st),
                                   sample={"spec": " ".join([shown] + toks[1:]), "stage": name, "before": show(prev),
                                           "outcome": show(g) if g is not None else repr(val)[:100]})
                        if g is None or oexp.verdict != ACCEPT:
                            okay = False
                            break
                        prev = g
                    if not opts:
                        ctx.judged(("file-base", gtype, stem, ()) + rnd, nontrivial=True, sample={"spec": shown, "graph": show(prev)})
    finally:
        shutil.rmtree(tmp, ignore_errors=True)
    flush_counts(ctx)


# ----------------------------------------------------------------- save
def case_save(ctx, gtype, specs, nseeds):
    from cnfgen.clitools.graph_args import formats
    r = ctx.rng("c15-save", gtype, repr(specs))
    tmp = tempfile.mkdtemp(prefix="vmon-c15-")
    other_fs = None
    try:
        if os.path.isdir("/dev/shm") and os.access("/dev/shm", os.W_OK) and os.stat("/dev/shm").st_dev != os.stat(tmp).st_dev:
            other_fs = tempfile.mkdtemp(prefix="vmon-c15-", dir="/dev/shm")
    except OSError:
        other_fs = None
    try:
        n = 0
        for spec in specs:
            for fmt in formats[gtype]:
                for explicit in (False, True):
                    for _ in range(nseeds):
                        n += 1
                        path = os.path.join(tmp, "g%d.%s" % (n, "txt" if explicit else fmt))
                        if other_fs and n % 3 == 0:
                            # a target on another file system than the default temporary directory
                            path = os.path.join(other_fs, "g%d.%s" % (n, "txt" if explicit else fmt))
                            ctx.count("save_targets_on_another_file_system")
                        where = (["save", fmt, path] if explicit else ["save", path])
                        # `save` may stand anywhere among the options
                        cut = len(spec)
                        optpos = [i for i, t in enumerate(spec) if t in APPLICATION_ORDER]
                        if optpos and r.random() < 0.5:
                            cut = r.choice(optpos)
                        tokens = list(spec[:cut]) + where + list(spec[cut:])
                        rnd = ("fair", 0, r.randrange(1 << 30)) if r.random() < 0.7 else \
                            (r.choice(["low", "high"]), r.choice([6, 60]), r.randrange(1 << 30))
                        st, val, obs = build(ctx, gtype, tokens, rnd)
                        shown = [t if t != path else "<file>" for t in tokens]
                        lab = label_of(gtype, shown, rnd)
                        ctx.count("opt:save")
                        if st == "exc":
                            if not isinstance(val, ValueError):
                                # mechanism of the construction's own failure, reported by case_family as well
                                exp = EXPECT[gtype][spec[0]](consumed_numbers(spec[1:]))
                                ctx.violation("%s:%s:raises:%s" % (spec[0], region_of(spec[0], exp, obs), type(val).__name__),
                                              "%s ended in %r" % (lab, val))
                            else:
                                ctx.count("refusals_observed")
                            ctx.judged(("save", gtype, tuple(shown), fmt, explicit) + rnd, nontrivial=False)
                            continue
                        try:
                            g = snapshot(gtype, val)
                        except Unreadable as e:
                            ctx.violation("save:result-unreadable", "%s: %s" % (lab, e))
                            continue
                        if not os.path.exists(path):
                            ctx.violation("save:no-file-written", "%s returned a graph but wrote no file" % lab)
                        else:
                            try:
                                f = ref.read_saved(GRAPH_KIND[gtype], fmt, path)
                            except ref.FileFormatError as e:
                                ctx.violation("save:%s:file-not-in-format" % fmt,
                                              "%s: the file is not a %s description of a %s graph: %s" % (lab, fmt, gtype, e))
                                f = None
                            if f is not None:
                                ctx.count("save_files_compared")
                                ctx.count("save:%s:%s" % (gtype, fmt))
                                if f != g:
                                    ctx.violation("save:%s:file-differs-from-graph" % fmt,
                                                  "%s: file holds %s, the graph returned is %s" % (lab, show(f), show(g)))
                            os.unlink(path)
                        ctx.judged(("save", gtype, tuple(shown), fmt, explicit) + rnd, nontrivial=len(g[2]) > 0,
                                   sample={"spec": " ".join(shown), "format": fmt, "graph": show(g)})
    finally:
        shutil.rmtree(tmp, ignore_errors=True)
        if other_fs:
            shutil.rmtree(other_fs, ignore_errors=True)
    flush_counts(ctx)


def consumed_numbers(tokens):
    out = []
    for t in tokens:
        if as_float(t) is None:
            break
        out.append(t)
    return out


# ----------------------------------------------------------------- through the command line
_E = re.compile(r"e_\{(\d+),(\d+)\}$")
_P = re.compile(r"p_\{(\d+),(\d+)\}$")
_X = re.compile(r"x\((\d+)\)$")


def decode_formula(family, labels, clauses):
    """What the formula shows of the graph it was built on: (kind, size or None, edges)."""
    if family == "matching":
        E = set()
        for l in labels:
            m = _E.match(l)
            if not m:
                return None
            E.add(frozenset((int(m.group(1)), int(m.group(2)))))
        n = sum(1 for c in clauses if all(x > 0 for x in c))       # one "is matched" clause per vertex
        return ("simple", n, frozenset(E))
    if family == "php":
        E = set()
        for l in labels:
            m = _P.match(l)
            if not m:
                return None
            E.add((int(m.group(1)), int(m.group(2))))
        L = sum(1 for c in clauses if all(x > 0 for x in c))       # one "sits somewhere" clause per pigeon
        return ("bipartite", (L, None), frozenset(E))
    if family == "peb":
        ids = []
        for l in labels:
            m = _X.match(l)
            if not m:
                return None
            ids.append(int(m.group(1)))
        if ids != list(range(1, len(ids) + 1)):
            return None
        E = set()
        for c in clauses:
            pos = [x for x in c if x > 0]
            if len(pos) == 1:
                E |= {(-x, pos[0]) for x in c if x < 0}
        return ("dag", len(ids), frozenset(E))
    return None


def compare_formula_graph(ctx, lab, dec, g):
    """dec: decoded from the formula; g: complete graph (file or returned)."""
    ok = dec[2] == g[2]
    if dec[0] == "bipartite":
        ok = ok and dec[1][0] == g[1][0]
    else:
        ok = ok and dec[1] == g[1]
    if not ok:
        ctx.violation("save:formula-built-on-another-graph",
                      "%s: the formula shows %s, the saved file holds %s" % (lab, show(dec), show(g)))
    return ok


FAMILY_OF = {"simple": ["matching"], "bipartite": ["php"], "dag": ["peb"]}


def case_cli(ctx, gtype, specs, fmts, nseeds):
    """cnfgen <family> <graph spec> [save <file>] in process: refusal discipline, structure, and
    saved file == graph the formula was built on."""
    from ..cliharness import cli_formula
    from cnfgen.clitools.graph_args import formats
    r = ctx.rng("c15-cli", gtype, repr(specs))
    family = FAMILY_OF[gtype][0]
    tmp = tempfile.mkdtemp(prefix="vmon-c15-")
    try:
        n = 0
        for spec in specs:
            cons, cargs = spec[0], consumed_numbers(spec[1:])
            has_opts = len(spec) > 1 + len(cargs)
            exp = EXPECT[gtype][cons](cargs) if cons in EXPECT[gtype] else Exp(MALFORMED, "malformed")
            for fmt in fmts:
                if fmt is not None and fmt not in formats[gtype]:
                    continue
                for _ in range(nseeds if cons in RANDOM_CONS or has_opts else 1):
                    n += 1
                    path = os.path.join(tmp, "g%d.%s" % (n, fmt)) if fmt else None
                    argv = ["cnfgen", family] + list(spec) + (["save", path] if fmt else [])
                    shown = [t if t != path else "<file>" for t in argv]
                    seed = r.randrange(1 << 30)
                    lab = "`%s` [seed=%d]" % (" ".join(shown), seed)
                    random.seed(seed)
                    with RngTap() as tap:
                        st, F = ctx.call(cli_formula, "cnfgen", argv)
                    ctx.count("cli_runs")
                    ctx.count("cons:%s:%s" % (gtype, cons))
                    branch = None
                    if any(caller == "bipartite_random_m_edges" for caller, _ in tap.calls):
                        branch = "dense" if any(c == "bipartite_random_m_edges" and fn != "randint"
                                                for c, fn in tap.calls) else "sparse"
                        ctx.count("branch:glrm:" + branch)
                    region = branch if (cons == "glrm" and exp.verdict == ACCEPT and branch) else exp.region
                    key = ("cli", tuple(shown), seed)
                    if st == "exc":
                        if type(F).__name__ == "CLIError":
                            ctx.count("cli_refusals")
                            ctx.count("refusals_observed")
                            if exp.verdict == ACCEPT and not has_opts:
                                ctx.violation("%s:%s:refuses-feasible" % (cons, region), "%s was refused: %s" % (lab, str(F)[:200]))
                            elif exp.verdict == REFUSE:
                                ctx.count("refusals_of_impossible")
                        else:
                            ctx.violation("%s:%s:raises:%s" % (cons, region, type(F).__name__),
                                          "%s ended in %r instead of a formula or a command line error" % (lab, F))
                        ctx.judged(key, nontrivial=exp.verdict in (ACCEPT, REFUSE),
                                   sample={"argv": shown, "outcome": type(F).__name__})
                        continue
                    if exp.verdict == REFUSE:
                        ctx.violation("%s:%s:accepts-impossible" % (cons, region),
                                      "%s cannot be met but a formula was built" % lab)
                    try:
                        labels = list(F.all_variable_labels())
                        clauses = [list(c) for c in F]
                        dec = decode_formula(family, labels, clauses)
                    except Exception:      # noqa: BLE001 - the formula cannot be read: not this property's business
                        dec = None
                    if dec is None:
                        ctx.count("cli_formula_not_decodable")
                        ctx.judged(key, nontrivial=False)
                        continue
                    ctx.count("cli_graph_decoded")
                    g = None
                    if path:
                        ctx.count("opt:save")
                        if not os.path.exists(path):
                            ctx.violation("save:no-file-written", "%s built a formula but wrote no file" % lab)
                        else:
                            try:
                                g = ref.read_saved(GRAPH_KIND[gtype], fmt, path)
                            except ref.FileFormatError as e:
                                ctx.violation("save:%s:file-not-in-format" % fmt, "%s: %s" % (lab, e))
                            os.unlink(path)
                        if g is not None:
                            ctx.count("save_files_compared")
                            ctx.count("cli_file_vs_formula")
                            compare_formula_graph(ctx, lab, dec, g)
                    # structure of the construction, seen through the file (complete) or the formula (edges)
                    if not has_opts and exp.check is not None and exp.verdict in (ACCEPT, EITHER):
                        seen = g
                        if seen is None and dec[0] != "bipartite":
                            seen = dec
                        if seen is not None:
                            for suffix, msg in exp.check(seen, {}):
                                ctx.violation("%s:%s" % (cons, suffix), "%s: %s" % (lab, msg))
                            ctx.count("accepted_and_checked")
                    ctx.judged(key, nontrivial=True, sample={"argv": shown, "formula shows": show(dec)})
    finally:
        shutil.rmtree(tmp, ignore_errors=True)
    flush_counts(ctx)


def parse_dimacs_with_names(text):
    labels, clauses = {}, []
    for line in text.splitlines():
        if line.startswith("c varname "):
            _, _, i, name = line.split(None, 3)
            labels[int(i)] = name.strip()
        elif line and line[0] not in "cp":
            lits = [int(x) for x in line.split()]
            if lits and lits[-1] == 0:
                clauses.append(lits[:-1])
    return [labels[i] for i in sorted(labels)], clauses


def case_spawn(ctx, items):
    """The same through real `cnfgen` processes."""
    from ..cliharness import spawn
    tmp = tempfile.mkdtemp(prefix="vmon-c15-")
    try:
        for n, (gtype, spec, fmt) in enumerate(items):
            family = FAMILY_OF[gtype][0]
            cons, cargs = spec[0], consumed_numbers(spec[1:])
            has_opts = len(spec) > 1 + len(cargs)
            exp = EXPECT[gtype][cons](cargs)
            path = os.path.join(tmp, "g%d.%s" % (n, fmt)) if fmt else None
            argv = ["--varnames", family] + list(spec) + (["save", path] if fmt else [])
            shown = ["cnfgen"] + [t if t != path else "<file>" for t in argv]
            lab = "process `%s`" % " ".join(shown)
            o = spawn("cnfgen", argv, timeout=100)
            ctx.count("spawn_runs")
            ctx.count("cons:%s:%s" % (gtype, cons))
            key = ("spawn", tuple(shown))
            if "Traceback (most recent call last)" in o.err:
                last = [l for l in o.err.strip().splitlines() if re.match(r"[\w.]+(Error|Exception|Interrupt)\b", l)]
                tname = last[-1].split(":")[0].split(".")[-1] if last else "unknown"
                ctx.violation("%s:%s:raises:%s" % (cons, exp.region, tname),
                              "%s died with a traceback: %s" % (lab, o.err.strip().splitlines()[-1][:200]))
                ctx.judged(key, sample={"argv": shown, "outcome": "traceback"})
                continue
            if o.rc != 0:
                ctx.count("cli_refusals")
                ctx.count("refusals_observed")
                if "ERROR" not in o.err + o.out:
                    ctx.violation("%s:%s:refused-without-message" % (cons, exp.region),
                                  "%s exited with %r and no error message" % (lab, o.rc))
                if exp.verdict == ACCEPT and not has_opts:
                    ctx.violation("%s:%s:refuses-feasible" % (cons, exp.region), "%s was refused: %s" % (lab, o.err[-200:]))
                elif exp.verdict == REFUSE:
                    ctx.count("refusals_of_impossible")
                ctx.judged(key, sample={"argv": shown, "outcome": "exit %r" % o.rc})
                continue
            if exp.verdict == REFUSE:
                ctx.violation("%s:%s:accepts-impossible" % (cons, exp.region), "%s cannot be met but printed a formula" % lab)
            try:
                labels, clauses = parse_dimacs_with_names(o.out)
                dec = decode_formula(family, labels, clauses)
            except Exception:          # noqa: BLE001
                dec = None
            if dec is None:
                ctx.count("cli_formula_not_decodable")
                ctx.judged(key, nontrivial=False)
                continue
            ctx.count("cli_graph_decoded")
            if path:
                if not os.path.exists(path):
                    ctx.violation("save:no-file-written", "%s printed a formula but wrote no file" % lab)
                else:
                    try:
                        g = ref.read_saved(GRAPH_KIND[gtype], fmt, path)
                        ctx.count("save_files_compared")
                        ctx.count("cli_file_vs_formula")
                        if compare_formula_graph(ctx, lab, dec, g) and exp.check is not None and not has_opts:
                            for suffix, msg in exp.check(g, {}):
                                ctx.violation("%s:%s" % (cons, suffix), "%s: %s" % (lab, msg))
                            ctx.count("accepted_and_checked")
                    except ref.FileFormatError as e:
                        ctx.violation("save:%s:file-not-in-format" % fmt, "%s: %s" % (lab, e))
            ctx.judged(key, sample={"argv": shown, "formula shows": show(dec)})
    finally:
        shutil.rmtree(tmp, ignore_errors=True)
    flush_counts(ctx)


# ===================================================================== workloads
def S(*xs):
    return [str(x) for x in xs]


def chunks(lst, k):
    for i in range(0, len(lst), k):
        yield lst[i:i + k]


def family_arglists(tier):
    """construction -> list of argument token lists: inside, at and just outside the legal range."""
    T = tier == "thorough"
    out = collections.OrderedDict()
    # ---- simple
    nmax = 7 if T else 6
    out["simple", "gnm"] = [S(n, m) for n in range(0, nmax + 1) for m in range(-1, math.comb(n, 2) + 2)] + \
        [S(-1, 0), S(3), S(3, 1, 1), ["3", "1.0"], ["3", "1e0"], ["3", "inf"], ["3", "nan"], []]
    out["simple", "gnd"] = [S(n, d) for n in range(0, (9 if T else 8)) for d in range(-1, n + 2)] + \
        [S(-2, 1), S(4), S(4, 2, 1), ["4", "2.0"], ["4", "inf"], []] + [S(10, 3), S(12, 11), S(12, 12), S(9, 4)]
    ps = ["0", "1", "0.5", "0.0", "1.0", ".25", "-0.1", "1.5", "nan", "inf", "-0.0"]
    out["simple", "gnp"] = [[str(n), p] for n in (1, 2, 4, 6) for p in ps] + \
        [[str(n), p, str(t)] for n in (1, 2, 3) for t in (1, 2, 3) for p in ("0", "1", "0.5", "2")] + \
        [S(0, 0), S(-1, 1), ["3", "0.5", "0"], ["3", "0.5", "-1"], ["3"], ["3", ".5", "2", "2"],
         ["3", "0.5", "1.5"], ["4", "0.3", "2"], ["2", "0.7", "4"]]
    sides = range(0, 5)
    shapes = [[]] + [[a] for a in range(-1, 6)] + [[a, b] for a in sides for b in sides] + \
        [[a, b, c] for a in range(1, 5) for b in range(1, 5) for c in range(1, 5)] + [[0, 2, 2], [2, -1], [2, 2, 2, 2], [5, 5]]
    out["simple", "grid"] = [S(*s) for s in shapes] + [["2", "1.5"], ["2", "inf"]]
    out["simple", "torus"] = [S(*s) for s in shapes] + [["3", "1.5"], ["3", "nan"]]
    out["simple", "complete"] = [S(n) for n in range(-1, 8)] + [S(n, b) for n in range(-1, 4) for b in range(-1, 5)] + \
        [[], S(2, 2, 2), ["2.5"]]
    out["simple", "empty"] = [S(n) for n in range(-1, 8)] + [[], S(2, 2), ["1.5"], ["inf"]]
    # ---- bipartite
    lm = 5 if T else 4
    out["bipartite", "glrm"] = [S(L, R, m) for L in range(1, lm + 1) for R in range(1, lm + 1) for m in range(-1, L * R + 2)] + \
        [S(0, 3, 0), S(3, 0, 0), S(0, 0, 0), S(0, 3, 1), S(-1, 3, 1), S(3, 3), S(3, 3, 1, 1), ["3", "3", "1.0"], ["3", "3", "inf"], [],
         S(6, 7, 14), S(6, 7, 15), S(7, 6, 42), S(8, 8, 21), S(8, 8, 22)]
    dm = 6 if T else 5
    out["bipartite", "regular"] = [S(L, R, d) for L in range(1, dm + 1) for R in range(1, dm + 1) for d in range(-1, R + 2)] + \
        [S(0, 3, 0), S(3, 0, 0), S(3, 0, 1), S(-1, 3, 1), S(3, 3), S(3, 3, 1, 1), ["3", "3", "1.0"], [],
         S(6, 3, 2), S(8, 4, 2), S(6, 6, 5), S(7, 7, 3), S(4, 8, 4), S(9, 6, 4)] + \
        [S(24, 24, 1), S(9, 9, 9), S(9, 9, 10), S(2, 40, 20), S(12, 12, 10)]
    out["bipartite", "glrd"] = [S(L, R, d) for L in range(1, dm + 1) for R in range(1, dm + 1) for d in range(-1, R + 2)] + \
        [S(0, 3, 0), S(3, 0, 0), S(3, 0, 1), S(-1, 3, 1), S(3, 3), S(3, 3, 1, 1), ["3", "3", "nan"], [], S(7, 9, 4)]
    out["bipartite", "glrp"] = [[str(L), str(R), p] for L in (1, 2, 4) for R in (1, 3, 4) for p in ps] + \
        [S(0, 2, 1), S(2, 0, 0), S(-1, 2, 1), S(2, 2), ["2", "2", ".5", "1"], []]
    pats = [[], [0], [1], [0, 1], [1, 0], [2, 0, 1]]
    sh = []
    for L in range(1, 5):
        for R in range(1, 5):
            sh += [S(L, R, *p) for p in pats]
            sh += [S(L, R, R), S(L, R, 0, R), S(L, R, R + 1), S(L, R, -1), S(L, R, 1, 1), S(L, R, *range(0, R + 1))]
    out["bipartite", "shift"] = sh + [S(0, 3, 1), S(3, 0), S(3), [], S(-1, 2, 0), ["3", "3", "1.5"], S(5, 7, 1, 2, 4), S(7, 5, 0, 3)]
    out["bipartite", "complete"] = [S(L, R) for L in range(-1, 6) for R in range(-1, 6)] + [S(2), S(2, 2, 2), [], ["2", "1.5"]]
    out["bipartite", "empty"] = [S(L, R) for L in range(-1, 6) for R in range(-1, 6)] + [S(2), S(2, 2, 2), [], ["2", "inf"]]
    # ---- dag
    hi = 7 if T else 6
    for name in ("path", "tree", "pyramid"):
        out["dag", name] = [S(x) for x in range(-2, hi + 1)] + [[], S(2, 2), ["1.5"], ["inf"], ["nan"]]
    out["dag", "path"] += [S(25)]
    return out


def option_sets(gtype, base_n, base_edges_max, tier):
    """Option lists (application order) for a base with `base_n` vertices (simple) / (L,R)."""
    sets = []
    if gtype == "simple":
        n = base_n
        total = math.comb(n, 2)
        for k in range(-1, n + 2):
            sets.append([["plantclique", S(k)]])
        for m in sorted({-1, 0, 1, 2, total // 2, total - base_edges_max - 1, total - base_edges_max,
                         total - base_edges_max + 1, total, total + 1}):
            sets.append([["addedges", S(m)]])
        for k in sorted({-1, 0, 1, 2, base_edges_max - 1, base_edges_max, base_edges_max + 1}):
            sets.append([["splitedges", S(k)]])
        for k in (0, 2, 3, n):
            for m in (0, 1, 3):
                sets.append([["plantclique", S(k)], ["addedges", S(m)]])
                for j in (0, 1, 2):
                    sets.append([["plantclique", S(k)], ["addedges", S(m)], ["splitedges", S(j)]])
            sets.append([["plantclique", S(k)], ["splitedges", S(1)]])
        sets.append([["addedges", S(2)], ["splitedges", S(2)]])
        sets += [[["plantclique", []]], [["plantclique", S(1, 2)]], [["addedges", ["1.5"]]], [["splitedges", []]],
                 [["plantbiclique", S(1, 1)]], [["plantclique", ["inf"]]]]
    else:
        L, R = base_n
        for a in range(-1, L + 2):
            for b in range(-1, R + 2):
                if tier == "thorough" or a in (-1, 0, 1, L, L + 1) or b in (0, R, R + 1):
                    sets.append([["plantbiclique", S(a, b)]])
        total = L * R
        for m in sorted({-1, 0, 1, 2, total // 2, total - base_edges_max - 1, total - base_edges_max,
                         total - base_edges_max + 1, total, total + 1}):
            sets.append([["addedges", S(m)]])
        for a, b in ((0, 0), (1, 1), (2, 2), (L, 1), (L, R)):
            for m in (0, 1, 3):
                sets.append([["plantbiclique", S(a, b)], ["addedges", S(m)]])
        sets += [[["plantbiclique", S(1)]], [["plantbiclique", []]], [["addedges", []]], [["splitedges", S(1)]],
                 [["plantclique", S(2)]]]
    return sets


SIMPLE_BASES = [  # (tokens, n, edges (max for random bases))
    (S("empty", 1), 1, 0), (S("empty", 4), 4, 0), (S("empty", 6), 6, 0), (S("complete", 4), 4, 6),
    (S("complete", 2, 2), 4, 4), (S("grid", 2, 3), 6, 7), (S("torus", 3), 3, 3), (S("grid", 5), 5, 4),
    (S("gnm", 6, 5), 6, 5), (S("gnm", 5, 10), 5, 10), (["gnp", "5", "0.5"], 5, 10), (S("gnd", 6, 3), 6, 9),
    (["gnp", "2", "0.5", "3"], 6, 12), (S("gnm", 7, 0), 7, 0)]
BIP_BASES = [
    (S("empty", 3, 3), (3, 3), 0), (S("empty", 1, 4), (1, 4), 0), (S("complete", 2, 3), (2, 3), 6),
    (S("shift", 4, 4, 0, 1), (4, 4), 8), (S("glrm", 4, 4, 5), (4, 4), 5), (S("glrm", 3, 4, 9), (3, 4), 9),
    (S("glrd", 3, 4, 2), (3, 4), 6), (S("regular", 4, 4, 2), (4, 4), 8), (["glrp", "3", "3", "0.5"], (3, 3), 9),
    (S("regular", 6, 3, 2), (6, 3), 12)]


def workload(tier, seed):
    T = tier == "thorough"
    # ---- constructions
    fam = family_arglists(tier)
    for (gtype, cons), arglists in fam.items():
        israndom = cons in RANDOM_CONS
        nseeds = (250 if T else 5) if israndom else 1
        per = {True: 4 if T else 40, False: 150}[israndom]
        if cons in ("regular", "glrm", "glrd"):
            per = 2 if T else 24
        for part in chunks(arglists, per):
            yield "family", {"gtype": gtype, "cons": cons, "arglists": part, "nseeds": nseeds}
    # retry exhaustion of bipartite_random_regular shows up under fair seeds about once in 10^3 runs
    for rep in range(24 if T else 4):
        yield "family", {"gtype": "bipartite", "cons": "regular",
                         "arglists": [S(6, 3, 2), S(3, 3, 2), S(4, 4, 3), S(2, 2, 2), S(5, 5, 4)],
                         "nseeds": (400 if T else 100) + rep}
    for spec in ((["bipartite", S("glrm", 1600, 640, 345000)],), (["bipartite", S("glrm", 640, 1600, 400000)],),
                 (["bipartite", S("glrm", 1001, 1000, 340000)], ["bipartite", S("glrm", 2000, 600, 1000)]),
                 (["simple", S("gnm", 1500, 400000)], ["bipartite", S("glrd", 1500, 700, 300)])) + \
            (((["bipartite", S("glrm", 3000, 700, 900000)],), (["bipartite", S("glrm", 700, 3000, 2100000)],)) if T else ()):
        yield "big_constructions", {"specs": [list(x) for x in spec], "rseed": seed}
    # nearly complete regular graphs need hundreds of restarts
    r = random.Random("c15-dense-%s" % seed)
    for args in DENSE_REGULAR:
        for rep in range(6 if T else 2):
            yield "dense_regular", {"args": args, "seeds": [r.randrange(1 << 30) for _ in range(4)],
                                    "headroom": 400 if rep % 2 == 0 else 900}
    # ---- options
    for base, n, emax in SIMPLE_BASES:
        sets = option_sets("simple", n, emax, tier)
        for part in chunks(sets, 3 if T else 24):
            yield "options", {"gtype": "simple", "base": base, "optsets": part, "nseeds": 80 if T else 2}
    for base, lr, emax in BIP_BASES:
        sets = option_sets("bipartite", lr, emax, tier)
        for part in chunks(sets, 3 if T else 24):
            yield "options", {"gtype": "bipartite", "base": base, "optsets": part, "nseeds": 80 if T else 2}
    for gtype in ("simple", "bipartite", "dag"):
        yield "file_base", {"gtype": gtype, "nseeds": 3 if T else 1}
        yield "pipe_base", {"gtype": gtype, "nseeds": 3 if T else 1}
    for (gtype, cons), lists in family_arglists(tier).items():
        ints_only = [a for a in lists if a and all(re.match(r"-?[0-9]+$", t) for t in a)]
        if cons == "shift":
            ints_only += [S(6, 7, 1, 3, 1), S(5, 5, 2, 2), S(4, 4, 0, 0), S(12, 12, 10, 3, 10), S(6, 7, 1, 3), S(3, 3, 0, 1, 2)]
        for part in chunks(ints_only[:: (1 if T else 3)], 60):
            yield "respell", {"gtype": gtype, "cons": cons, "arglists": part, "nseeds": 3 if T else 2}
    # ---- save
    save_specs = {
        "simple": [S("gnm", 6, 7), S("gnm", 12, 20), S("grid", 3, 4), S("complete", 11), S("empty", 3),
                   S("gnd", 6, 3) + S("plantclique", 4), S("gnm", 5, 4) + S("addedges", 2) + S("splitedges", 3),
                   ["gnp", "10", "0.4"] + S("splitedges", 2), S("torus", 3, 4) + S("plantclique", 3) + S("addedges", 1)],
        "bipartite": [S("glrd", 4, 5, 2), S("glrm", 3, 4, 3), S("regular", 6, 4, 2), S("complete", 2, 3), S("empty", 2, 2),
                      S("shift", 5, 7, 1, 2, 4), S("glrd", 6, 6, 1) + S("plantbiclique", 2, 3),
                      S("empty", 4, 8) + S("addedges", 5), ["glrp", "5", "6", "0.5"] + S("plantbiclique", 1, 2) + S("addedges", 2)],
        "dag": [S("pyramid", 3), S("tree", 3), S("path", 11), S("path", 0), S("pyramid", 4), S("tree", 0)],
    }
    for gtype, specs in save_specs.items():
        for part in chunks(specs, 3 if not T else 1):
            yield "save", {"gtype": gtype, "specs": part, "nseeds": 6 if T else 1}
    # ---- command line, in process
    cli_specs = {
        "simple": [S("gnm", 6, 7), S("gnm", 4, 6), S("gnm", 4, 7), S("gnm", 5, 0), S("gnd", 6, 3), S("gnd", 4, 4), S("gnd", 5, 3),
                   S("grid", 2, 3), S("torus", 3, 3), S("complete", 4), S("complete", 2, 2), S("empty", 3), S("empty", 0),
                   ["gnp", "4", "1"], ["gnp", "4", "0"], ["gnp", "3", "1", "2"], ["gnp", "3", "1.5"],
                   S("empty", 5) + S("plantclique", 3), S("empty", 3) + S("plantclique", 4), S("gnm", 5, 3) + S("addedges", 2),
                   S("complete", 3) + S("addedges", 1), S("grid", 2, 2) + S("splitedges", 2), S("grid", 2, 2) + S("splitedges", 5),
                   S("gnm", 6, 5) + S("plantclique", 3) + S("addedges", 2) + S("splitedges", 1), S("grid", -1), S("complete", 3, -1)],
        "bipartite": [S("glrm", 3, 3, m) for m in range(0, 11)] +
                     [S("glrd", 3, 4, 2), S("glrd", 3, 4, 5), S("regular", 4, 4, 2), S("regular", 3, 2, 1), S("regular", 4, 2, 1),
                      S("regular", 2, 2, 3), ["glrp", "3", "3", "1"], ["glrp", "3", "3", "0"], ["glrp", "3", "3", "7"],
                      S("shift", 4, 4, 0, 1), S("shift", 4, 4, 5), S("complete", 2, 3), S("empty", 2, 2), S("empty", 2, -2),
                      S("empty", 3, 3) + S("plantbiclique", 2, 2), S("empty", 3, 3) + S("plantbiclique", 4, 1),
                      S("glrd", 3, 3, 1) + S("addedges", 3), S("complete", 2, 2) + S("addedges", 1)],
        "dag": [S(name, x) for name in ("path", "tree", "pyramid") for x in (-1, 0, 1, 2, 3)] + [S("tree"), S("pyramid", 2, 2)],
    }
    for gtype, specs in cli_specs.items():
        for part in chunks(specs, 6 if T else 9):
            yield "cli", {"gtype": gtype, "specs": part, "fmts": [None, "kthlist", "gml", "dot", "dimacs", "matrix"] if T
                          else [None, "kthlist", "matrix" if gtype == "bipartite" else "dimacs"],
                          "nseeds": 8 if T else 2}
    # ---- command line, real processes
    spawn_items = [["simple", S("gnm", 6, 7), "kthlist"], ["dag", S("pyramid", 3), "dimacs"],
                   ["bipartite", S("glrd", 4, 3, 2), "matrix"], ["simple", S("gnm", 3, 4), None],
                   ["dag", S("tree", -1), None], ["bipartite", S("regular", 3, 2, 1), None]]
    if T:
        spawn_items += [["simple", S("gnd", 6, 3) + S("plantclique", 3) + S("addedges", 1), "gml"],
                        ["simple", S("torus", 3, 3), "dot"], ["bipartite", S("regular", 4, 4, 2), "kthlist"],
                        ["bipartite", S("glrm", 3, 3, 2) + S("plantbiclique", 2, 2), "gml"], ["dag", S("path", 4), "kthlist"],
                        ["dag", S("tree", 2), "gml"], ["simple", S("gnd", 5, 3), None], ["simple", S("complete", 0), None],
                        ["bipartite", S("glrd", 2, 2, 3), None], ["dag", S("pyramid", -2), None]]
    for part in chunks(spawn_items, 2):
        yield "spawn", {"items": part}

"""C02 -- graph-problem families are satisfiable exactly when the graph has the property.

Real generators on every small graph; exact model sets (truth table) against
brute-force graph algorithms written for the purpose.  Where the variables are
exactly the witness the model set is compared object by object (hence the
counts: 2^(|E|-|V|+c) Tseitin labellings, #isomorphisms, ...); where auxiliary
variables exist (dominating set index map, Ramsey selector) the projection on
the witness variables is compared.
"""
import itertools

from .. import tt
from .. import semantic as S
from .. import pollute

BEFORE_CASE = pollute.wreck        # state-leak adversary: see vmon/pollute.py

PYTHON_O_STRIDE = {"quick": 4, "thorough": 2}      # every n-th case is repeated in an interpreter started with -O
RULE = ("family x graph x parameters x formula class: every simple graph with <= 4 vertices (cnfgen and networkx objects) and "
        "seeded 5/6-vertex graphs; Tseitin with every charge vector (also short/long/non-boolean), k-colouring k in 0..4 x "
        "functional, even colouring, dominating set d in 1..n+1 x alternative, tiling, isomorphism on all pairs of graphs "
        "with <= 3 vertices (<= 4 same-order in thorough), automorphism, subgraph x induced (x symbreak for complete/empty H), "
        "clique / binary clique k in 0..n+1 x symbreak, Ramsey witness (k,s) in 0..4^2 x symbreak; under the variable cap; "
        "distinct = (family, graph, parameters, class); trivial = formula without variables.")
ASSUMPTIONS = ["vmon/tt.py truth tables (self-checked)", "brute-force graph algorithms in this module",
               "k-colouring names x_{vc} are decoded digit-wise (vertex and colour numbers are single digits in every case)",
               "beyond the cap (7-30 vertices) the formula is evaluated on constructed witnesses and their 1-3 flip perturbations against a direct predicate"]
REQUIRED = ["exact_cases", "satisfiable_cases", "unsatisfiable_cases", "projected_cases", "opb_cases", "cnf_cases",
            "networkx_inputs", "user_class_inputs", "refused_expected", "tseitin_count_formula_checked", "sampled_cases", "sampled_true_references",
            "sampled_false_references", "graph_object_histories", "tseitin_degree_9_or_more"] + ["family_" + f for f in
            ("tseitin", "kcolor", "ec", "domset", "tiling", "iso", "auto", "subgraph", "kclique", "kcliquebin", "ramlb")]
CASE_TIMEOUT = {"quick": 300, "thorough": 1800}


def gens():
    import cnfgen
    return cnfgen


def fam_count(ctx, fam, cls, as_nx=False):
    ctx.count("family_" + fam)
    ctx.count(cls.lower() + "_cases")
    if as_nx:
        S.count_rep(ctx, as_nx)


def raised(ctx, fam, desc, exc, allowed=False):
    if allowed and isinstance(exc, (ValueError, TypeError)):
        ctx.count("refused_expected")
        return
    ctx.violation("%s:raises:%s" % (fam, type(exc).__name__), "%s raised %r" % (desc, exc))


def adjacency(n, E):
    adj = {u: set() for u in range(1, n + 1)}
    for u, v in E:
        adj[u].add(v)
        adj[v].add(u)
    return adj


def components(n, E):
    adj = adjacency(n, E)
    seen, comps = set(), []
    for s in range(1, n + 1):
        if s in seen:
            continue
        comp, todo = set(), [s]
        while todo:
            u = todo.pop()
            if u in comp:
                continue
            comp.add(u)
            todo.extend(adj[u] - comp)
        seen |= comp
        comps.append(comp)
    return comps


def edge_subsets(E):
    for k in range(len(E) + 1):
        yield from itertools.combinations(E, k)


def gdesc(n, E):
    return "G(%d,%r)" % (n, E)


def setup(ctx, fam, cls, desc, fn, *a, allowed_refusal=False, **kw):
    """Build + decode.  Returns (F, atoms) or (None, None)."""
    K = S.formula_classes()[cls]
    F, exc = S.build(ctx, fam, desc, fn, *a, formula_class=K, **kw)
    if F is None:
        raised(ctx, fam, desc, exc, allowed=allowed_refusal)
        return None, None
    at = S.decode(ctx, fam, desc, F)
    if at is None:
        return None, None
    return F, at


# ------------------------------------------------------------------ Tseitin
CHARGE_EXTRAS = [[], [1], [True, True, True, True, True, True, True], [2, 0, "x"], [None, 3.5]]


def case_tseitin(ctx, cls, n, masks, as_nx):
    tt.selfcheck()
    g = gens()
    for mask in masks:
        G, E = S.simple_graph(n, mask, as_nx)
        vectors = [None] + [list(bits) for bits in itertools.product([False, True], repeat=n)]
        vectors += [[int(b) for b in v] for v in vectors[1:3]] + CHARGE_EXTRAS
        for vi, ch in enumerate(vectors):
            desc = "TseitinFormula(%s,charges=%r)[%s%s]" % (gdesc(n, E), ch, cls, S.rep_tag(as_nx))
            arg = None if ch is None else list(ch)
            how = (vi + mask) % 6 if ch is not None and vi <= 2 ** n else 0
            if how in (1, 2, 3):
                # the same charges handed over as another kind of sequence / as a one-shot iterable
                given = (tuple(ch), iter(list(ch)), (c for c in list(ch)))[how - 1]
                desc = desc.replace("charges=", "charges=%s of " % ("tuple", "iter()", "generator")[how - 1])
                ctx.count("tseitin_charges_as_%s" % ("tuple", "iterator", "generator")[how - 1])
                F, at = setup(ctx, "tseitin", cls, desc, g.TseitinFormula, G, given, allowed_refusal=(how != 1))
            else:
                F, at = setup(ctx, "tseitin", cls, desc, g.TseitinFormula, G, arg)
            if F is None:
                continue
            fam_count(ctx, "tseitin", cls, as_nx)
            if arg is not None and arg != ch:
                ctx.violation("tseitin:mutates-charges", "%s changed its charge list to %r" % (desc, arg))
            ev = at.get("E_{#,#}", {})
            if set(ev) != set(E) or F.number_of_variables() != len(E):
                ctx.violation("tseitin:atoms", "%s: variables %r do not name the edges" % (desc, sorted(ev)))
                continue
            if ch is None:
                charge = [True] + [False] * (n - 1)
            else:
                charge = [bool(c) for c in ch][:n]
                charge += [False] * (n - len(charge))
            charge = charge[:n]
            objs = []
            for sub in edge_subsets(E):
                deg = [0] * (n + 1)
                for u, v in sub:
                    deg[u] += 1
                    deg[v] += 1
                if all(deg[v] % 2 == int(charge[v - 1]) for v in range(1, n + 1)):
                    objs.append([ev[e] for e in sub])
            comps = components(n, E)
            sat = all(sum(charge[v - 1] for v in c) % 2 == 0 for c in comps)
            expect = 2 ** (len(E) - n + len(comps)) if sat else 0
            if len(objs) != expect:
                raise AssertionError("Tseitin reference count %d != closed form %d" % (len(objs), expect))
            ctx.count("tseitin_count_formula_checked")
            S.check_models(ctx, "tseitin", desc, F, objs, ("tseitin", n, mask, repr(ch), cls, as_nx),
                           nontrivial=len(E) > 0)


# ------------------------------------------------------------------ colourings
def case_kcolor(ctx, cls, n, masks, as_nx):
    tt.selfcheck()
    g = gens()
    cap = S.CAP[ctx.tier]
    for mask in masks:
        G, E = S.simple_graph(n, mask, as_nx)
        for k in range(0, 5):
            for functional in (True, False):
                if n * k > (cap if functional else min(cap, 12)):
                    continue
                desc = "GraphColoringFormula(%s,%d,functional=%s)[%s%s]" % (gdesc(n, E), k, functional, cls, S.rep_tag(as_nx))
                F, at = setup(ctx, "kcolor", cls, desc, g.GraphColoringFormula, G, k, functional=functional)
                if F is None:
                    continue
                fam_count(ctx, "kcolor", cls, as_nx)
                if F.number_of_variables() != n * k:
                    ctx.violation("kcolor:numvar", "%s has %d variables" % (desc, F.number_of_variables()))
                    continue
                raw = at.get("x_{#}", {})
                x = {(d[0] // 10, d[0] % 10): v for d, v in raw.items()}
                if set(x) != {(v, c) for v in range(1, n + 1) for c in range(1, k + 1)}:
                    ctx.count("names_not_decodable")
                    continue
                objs = []
                if functional:
                    for col in itertools.product(range(1, k + 1), repeat=n):
                        if all(col[u - 1] != col[v - 1] for u, v in E):
                            objs.append([x[(v, col[v - 1])] for v in range(1, n + 1)])
                else:
                    sets = [s for r in range(1, k + 1) for s in itertools.combinations(range(1, k + 1), r)]
                    for col in itertools.product(sets, repeat=n):
                        if all(not set(col[u - 1]) & set(col[v - 1]) for u, v in E):
                            objs.append([x[(v, c)] for v in range(1, n + 1) for c in col[v - 1]])
                S.check_models(ctx, "kcolor", desc, F, objs, ("kcolor", n, mask, k, functional, cls, as_nx),
                               nontrivial=n * k > 0)


def case_ec(ctx, cls, n, masks, as_nx):
    tt.selfcheck()
    g = gens()
    for mask in masks:
        G, E = S.simple_graph(n, mask, as_nx)
        adj = adjacency(n, E)
        even = all(len(adj[v]) % 2 == 0 for v in adj)
        desc = "EvenColoringFormula(%s)[%s%s]" % (gdesc(n, E), cls, S.rep_tag(as_nx))
        K = S.formula_classes()[cls]
        F, exc = S.build(ctx, "ec", desc, g.EvenColoringFormula, G, formula_class=K)
        fam_count(ctx, "ec", cls, as_nx)
        if not even:
            if F is not None:
                ctx.violation("ec:accepts-odd-degree", "%s returned a formula for a graph with an odd-degree vertex" % desc)
            elif not isinstance(exc, ValueError):
                ctx.violation("ec:raises:%s" % type(exc).__name__, "%s raised %r instead of ValueError" % (desc, exc))
            else:
                ctx.count("refused_expected")
            ctx.judged(("ec-odd", n, mask, cls, as_nx), nontrivial=True)
            continue
        if F is None:
            raised(ctx, "ec", desc, exc)
            continue
        at = S.decode(ctx, "ec", desc, F)
        if at is None:
            continue
        ev = at.get("e(#,#)", {})
        if set(ev) != set(E):
            ctx.violation("ec:atoms", "%s: variables %r do not name the edges" % (desc, sorted(ev)))
            continue
        objs = []
        for sub in edge_subsets(E):
            deg = [0] * (n + 1)
            for u, v in sub:
                deg[u] += 1
                deg[v] += 1
            if all(2 * deg[v] == len(adj[v]) for v in adj):
                objs.append([ev[e] for e in sub])
        # documented: satisfiable only if every component has an even number of edges
        comps = components(n, E)
        if objs and any(sum(1 for u, v in E if u in c) % 2 for c in comps):
            raise AssertionError("even colouring reference contradicts Markstrom's criterion")
        S.check_models(ctx, "ec", desc, F, objs, ("ec", n, mask, cls, as_nx), nontrivial=len(E) > 0)


# ------------------------------------------------------------------ domination
def closed_nbhd(n, E):
    adj = adjacency(n, E)
    return {v: adj[v] | {v} for v in adj}


def case_domset(ctx, cls, n, masks, as_nx):
    tt.selfcheck()
    g = gens()
    cap = S.CAP[ctx.tier]
    for mask in masks:
        G, E = S.simple_graph(n, mask, as_nx)
        N = closed_nbhd(n, E)
        for d in range(0, n + 2):
            for alt in (False, True):
                if n + n * d > cap:
                    continue
                desc = "DominatingSet(%s,%d,alternative=%s)[%s%s]" % (gdesc(n, E), d, alt, cls, S.rep_tag(as_nx))
                F, at = setup(ctx, "domset", cls, desc, g.DominatingSet, G, d, alternative=alt, allowed_refusal=(d == 0))
                if F is None:
                    continue
                fam_count(ctx, "domset", cls, as_nx)
                if F.number_of_variables() != n + n * d:
                    ctx.violation("domset:numvar", "%s has %d variables" % (desc, F.number_of_variables()))
                    continue
                x = at.get("x_{#}", {})
                if set(x) != {(v,) for v in range(1, n + 1)}:
                    ctx.count("names_not_decodable")
                    continue
                objs = []
                for r in range(0, min(d, n) + 1):
                    for Sset in itertools.combinations(range(1, n + 1), r):
                        if all(N[v] & set(Sset) for v in N):
                            objs.append([x[(v,)] for v in Sset])
                S.check_models(ctx, "domset", desc, F, objs, ("domset", n, mask, d, alt, cls, as_nx),
                               keep=[x[(v,)] for v in range(1, n + 1)], nontrivial=n > 0)


def case_tiling(ctx, cls, n, masks, as_nx):
    tt.selfcheck()
    g = gens()
    for mask in masks:
        G, E = S.simple_graph(n, mask, as_nx)
        N = closed_nbhd(n, E)
        desc = "Tiling(%s)[%s%s]" % (gdesc(n, E), cls, S.rep_tag(as_nx))
        F, at = setup(ctx, "tiling", cls, desc, g.Tiling, G)
        if F is None:
            continue
        fam_count(ctx, "tiling", cls, as_nx)
        x = at.get("x_{#}", {})
        if set(x) != {(v,) for v in range(1, n + 1)} or F.number_of_variables() != n:
            ctx.violation("tiling:atoms", "%s: variables %r" % (desc, sorted(x)))
            continue
        objs = []
        for r in range(0, n + 1):
            for Sset in itertools.combinations(range(1, n + 1), r):
                if all(len(N[v] & set(Sset)) == 1 for v in N):
                    objs.append([x[(v,)] for v in Sset])
        S.check_models(ctx, "tiling", desc, F, objs, ("tiling", n, mask, cls, as_nx), nontrivial=n > 0)


# ------------------------------------------------------------------ isomorphism
def case_iso(ctx, cls, n1, n2, pairs, as_nx):
    tt.selfcheck()
    g = gens()
    for (m1, m2) in pairs:
        G1, E1 = S.simple_graph(n1, m1, as_nx)
        G2, E2 = S.simple_graph(n2, m2, as_nx)
        desc = "GraphIsomorphism(%s,%s)[%s%s]" % (gdesc(n1, E1), gdesc(n2, E2), cls, S.rep_tag(as_nx))
        F, at = setup(ctx, "iso", cls, desc, g.GraphIsomorphism, G1, G2)
        if F is None:
            continue
        fam_count(ctx, "iso", cls, as_nx)
        x = at.get("x_{#,#}", {})
        if F.number_of_variables() != n1 * n2 or len(x) != n1 * n2:
            ctx.violation("iso:numvar", "%s has %d variables" % (desc, F.number_of_variables()))
            continue
        s1, s2 = set(E1), set(E2)
        objs = []
        if n1 == n2:
            for perm in itertools.permutations(range(1, n1 + 1)):
                if all(((min(perm[u - 1], perm[v - 1]), max(perm[u - 1], perm[v - 1])) in s2) == ((u, v) in s1)
                       for u, v in S.pairs(n1)):
                    objs.append([x[(u, perm[u - 1])] for u in range(1, n1 + 1)])
        S.check_models(ctx, "iso", desc, F, objs, ("iso", n1, m1, n2, m2, cls, as_nx), nontrivial=n1 * n2 > 0)


def case_cli_two_graphs(ctx):
    """`iso G1 -e G2` and `iso G1` asked on the command line of both tools, the graphs given as files -- among them the
    graphs with no vertex and with one vertex, which no construction of the command line can produce: the number of
    models is the number of isomorphisms (automorphisms without -e)."""
    import os
    import shutil
    import tempfile
    import cnfgen.graphs as cg
    from ..cliharness import cli_formula
    tt.selfcheck()
    tmp = tempfile.mkdtemp(prefix="c02cli-")
    try:
        graphs = [(0, []), (1, []), (2, []), (2, [(1, 2)]), (3, [(1, 2)]), (3, [(1, 2), (2, 3)]), (3, [(1, 3), (2, 3)]), (3, [(1, 2), (2, 3), (1, 3)])]
        files = {}
        for i, (n, E) in enumerate(graphs):
            G = cg.Graph(n)
            for e in E:
                G.add_edge(*e)
            for fmt in ("kthlist", "dimacs", "gml"):
                p_ = os.path.join(tmp, "g%d.%s" % (i, fmt))
                try:
                    cg.writeGraph(G, p_, "simple", fmt)
                    files[i, fmt] = p_
                except Exception:       # noqa: BLE001
                    pass

        def isos(a, b):
            (n1, E1), (n2, E2) = graphs[a], graphs[b]
            if n1 != n2:
                return 0
            s1, s2 = set(E1), set(E2)
            return sum(1 for perm in itertools.permutations(range(1, n1 + 1))
                       if all(((min(perm[u - 1], perm[v - 1]), max(perm[u - 1], perm[v - 1])) in s2) == ((u, v) in s1) for u, v in S.pairs(n1)))
        for a in range(len(graphs)):
            for b in [None] + list(range(len(graphs))):
                fa = ("kthlist", "dimacs", "gml")[(a + (b or 0)) % 3]
                fb = ("gml", "kthlist", "dimacs")[(a + (b or 0)) % 3]
                if (a, fa) not in files or (b is not None and (b, fb) not in files):
                    continue
                for tool in ("cnfgen", "pbgen"):
                    argv = [tool, "-q", "iso", files[a, fa]] + ([] if b is None else ["-e", files[b, fb]])
                    label = "%s iso <graph %r>%s" % (tool, graphs[a], "" if b is None else " -e <graph %r>" % (graphs[b],))
                    try:
                        F = cli_formula(tool, argv)
                    except BaseException as e:      # noqa: BLE001
                        if isinstance(e, KeyboardInterrupt) or type(e).__name__ == "CaseTimeout":
                            raise
                        ctx.count("cli_two_graphs_refused")
                        continue
                    ctx.count("cli_two_graph_commands")
                    expected = isos(a, a if b is None else b)
                    if b is None:
                        expected -= 1           # the automorphism formula excludes the identity
                    if F.number_of_variables() <= 16:
                        got = tt.count(tt.models_of(F))
                        if got != max(expected, 0):
                            ctx.violation("iso:cli:model-count", "%s: %d models, the graphs have %d %s" %
                                          (label, got, max(expected, 0), "non-trivial automorphisms" if b is None else "isomorphisms"))
                    ctx.judged(("cli-iso", a, b, tool), nontrivial=True, sample={"command": label})
    finally:
        shutil.rmtree(tmp, ignore_errors=True)


def case_auto(ctx, cls, n, masks, as_nx):
    tt.selfcheck()
    g = gens()
    for mask in masks:
        G, E = S.simple_graph(n, mask, as_nx)
        desc = "GraphAutomorphism(%s)[%s%s]" % (gdesc(n, E), cls, S.rep_tag(as_nx))
        F, at = setup(ctx, "auto", cls, desc, g.GraphAutomorphism, G)
        if F is None:
            continue
        fam_count(ctx, "auto", cls, as_nx)
        x = at.get("x_{#,#}", {})
        if F.number_of_variables() != n * n or len(x) != n * n:
            ctx.violation("auto:numvar", "%s has %d variables" % (desc, F.number_of_variables()))
            continue
        s1 = set(E)
        objs = []
        for perm in itertools.permutations(range(1, n + 1)):
            if all(perm[i] == i + 1 for i in range(n)):
                continue
            if all(((min(perm[u - 1], perm[v - 1]), max(perm[u - 1], perm[v - 1])) in s1) == ((u, v) in s1)
                   for u, v in S.pairs(n)):
                objs.append([x[(u, perm[u - 1])] for u in range(1, n + 1)])
        S.check_models(ctx, "auto", desc, F, objs, ("auto", n, mask, cls, as_nx), nontrivial=n > 0)


# ------------------------------------------------------------------ subgraphs and cliques
def embeddings(k, EH, N, EG, induced, increasing):
    sh, sg = set(EH), set(EG)
    it = itertools.combinations(range(1, N + 1), k) if increasing else itertools.permutations(range(1, N + 1), k)
    for f in it:
        ok = True
        for i1, i2 in S.pairs(k):
            ge = (min(f[i1 - 1], f[i2 - 1]), max(f[i1 - 1], f[i2 - 1])) in sg
            he = (i1, i2) in sh
            if not ((ge == he) or (ge and not induced)):
                ok = False
                break
        if ok:
            yield f


def case_subgraph(ctx, cls, N, k, gmasks, hmasks, as_nx):
    tt.selfcheck()
    g = gens()
    npk = k * (k - 1) // 2
    for gm in gmasks:
        for hm in hmasks:
            for induced in (False, True):
                symmetric = hm in (0, (1 << npk) - 1)
                for symbreak in ((False, True) if symmetric else (False,)):
                    G, EG = S.simple_graph(N, gm, as_nx)
                    H, EH = S.simple_graph(k, hm, as_nx)
                    desc = "SubgraphFormula(%s,%s,induced=%s,symbreak=%s)[%s%s]" % (
                        gdesc(N, EG), gdesc(k, EH), induced, symbreak, cls, S.rep_tag(as_nx))
                    F, at = setup(ctx, "subgraph", cls, desc, g.SubgraphFormula, G, H, induced=induced, symbreak=symbreak)
                    if F is None:
                        continue
                    fam_count(ctx, "subgraph", cls, as_nx)
                    s = at.get("s_{#,#}", {})
                    if F.number_of_variables() != k * N or len(s) != k * N:
                        ctx.violation("subgraph:numvar", "%s has %d variables" % (desc, F.number_of_variables()))
                        continue
                    objs = [[s[(i + 1, f[i])] for i in range(k)]
                            for f in embeddings(k, EH, N, EG, induced, increasing=symbreak)]
                    S.check_models(ctx, "subgraph", desc, F, objs,
                                   ("subgraph", N, gm, k, hm, induced, symbreak, cls, as_nx), nontrivial=k * N > 0)


def cliques(n, E, k, independent=False):
    s = set(E)
    for c in itertools.combinations(range(1, n + 1), k):
        if all((((u, v) in s) != independent) for u, v in itertools.combinations(c, 2)):
            yield c


def case_clique(ctx, cls, n, masks, as_nx):
    tt.selfcheck()
    g = gens()
    cap = S.CAP[ctx.tier]
    for mask in masks:
        G, E = S.simple_graph(n, mask, as_nx)
        for k in range(0, n + 2):
            for symbreak in (True, False):
                # unary encoding
                if k * n <= cap:
                    desc = "CliqueFormula(%s,%d,symbreak=%s)[%s%s]" % (gdesc(n, E), k, symbreak, cls, S.rep_tag(as_nx))
                    F, at = setup(ctx, "kclique", cls, desc, g.CliqueFormula, G, k, symbreak=symbreak)
                    if F is not None:
                        fam_count(ctx, "kclique", cls, as_nx)
                        s = at.get("s_{#,#}", {})
                        if F.number_of_variables() != k * n or len(s) != k * n:
                            ctx.violation("kclique:numvar", "%s has %d variables" % (desc, F.number_of_variables()))
                        else:
                            objs = []
                            for c in cliques(n, E, k):
                                orders = [c] if symbreak else itertools.permutations(c)
                                for f in orders:
                                    objs.append([s[(i + 1, f[i])] for i in range(k)])
                            S.check_models(ctx, "kclique", desc, F, objs, ("kclique", n, mask, k, symbreak, cls, as_nx),
                                           nontrivial=k * n > 0)
                # binary encoding
                bits = (n - 1).bit_length() if n >= 1 else 0
                if k * bits <= cap:
                    desc = "BinaryCliqueFormula(%s,%d,symbreak=%s)[%s%s]" % (gdesc(n, E), k, symbreak, cls, S.rep_tag(as_nx))
                    F, at = setup(ctx, "kcliquebin", cls, desc, g.BinaryCliqueFormula, G, k, symbreak=symbreak,
                                  allowed_refusal=(k == 0 or n == 0))
                    if F is not None:
                        fam_count(ctx, "kcliquebin", cls, as_nx)
                        y = at.get("y_{#,#}", {})
                        if F.number_of_variables() != k * bits or len(y) != k * bits:
                            ctx.violation("kcliquebin:numvar", "%s has %d variables, expected %d"
                                          % (desc, F.number_of_variables(), k * bits))
                        else:
                            objs = []
                            for c in cliques(n, E, k):
                                orders = [c] if symbreak else itertools.permutations(c)
                                for f in orders:
                                    objs.append([y[(i + 1, b)] for i in range(k) for b in range(bits)
                                                 if ((f[i] - 1) >> b) & 1])
                            S.check_models(ctx, "kcliquebin", desc, F, objs,
                                           ("kcliquebin", n, mask, k, symbreak, cls, as_nx), nontrivial=k * bits > 0)


def case_ramlb(ctx, cls, n, masks, as_nx):
    tt.selfcheck()
    g = gens()
    cap = S.CAP[ctx.tier]
    for mask in masks:
        G, E = S.simple_graph(n, mask, as_nx)
        for k in range(0, 5):
            for s_ in range(0, 5):
                for symbreak in (True, False):
                    desc = "RamseyWitnessFormula(%s,%d,%d,symbreak=%s)[%s%s]" % (
                        gdesc(n, E), k, s_, symbreak, cls, S.rep_tag(as_nx))
                    K = S.formula_classes()[cls]
                    F, exc = S.build(ctx, "ramlb", desc, g.RamseyWitnessFormula, G, k, s_, symbreak=symbreak, formula_class=K)
                    if F is None:
                        raised(ctx, "ramlb", desc, exc)
                        continue
                    if F.number_of_variables() > cap:
                        continue
                    fam_count(ctx, "ramlb", cls, as_nx)
                    has_c = any(True for _ in cliques(n, E, k))
                    has_i = any(True for _ in cliques(n, E, s_, independent=True))
                    sat = bool(tt.models_of(F))
                    ctx.count("exact_cases")
                    ctx.count("satisfiable_cases" if sat else "unsatisfiable_cases")
                    if F.number_of_variables() != 1 + max(k, s_) * n:
                        ctx.violation("ramlb:numvar", "%s has %d variables, expected 1 + max(k,s)*n = %d"
                                      % (desc, F.number_of_variables(), 1 + max(k, s_) * n))
                        continue
                    if sat != (has_c or has_i):
                        mech = "ramlb:satisfiability" if k == s_ else "ramlb:ignores-s(k!=s):satisfiability"
                        ctx.violation(mech, "%s is %ssatisfiable but the graph has %s %d-clique and %s %d-independent set"
                                      % (desc, "" if sat else "un", "a" if has_c else "no", k, "an" if has_i else "no", s_))
                    if k == s_:
                        at = S.decode(ctx, "ramlb", desc, F)
                        if at is None:
                            continue
                        sv, C = at.get("s_{#,#}", {}), at.get("C", {}).get(())
                        if C is None or len(sv) != k * n:
                            ctx.violation("ramlb:atoms", "%s: variables do not name C and the %dx%d map" % (desc, k, n))
                            continue
                        objs = []
                        for indep in (False, True):
                            for c in cliques(n, E, k, independent=indep):
                                orders = [c] if symbreak else itertools.permutations(c)
                                for f in orders:
                                    base = [sv[(i + 1, f[i])] for i in range(k)]
                                    if k <= 1:
                                        # no pair of indices: the selector is unconstrained
                                        objs.append(base)
                                        objs.append(base + [C])
                                    else:
                                        objs.append(base + ([] if indep else [C]))
                        # de-duplicate (k <= 1 lists each map under both polarities of `indep`)
                        objs = [list(t) for t in {tuple(sorted(o)) for o in objs}]
                        S.check_models(ctx, "ramlb", desc, F, objs, ("ramlb", n, mask, k, s_, symbreak, cls, as_nx),
                                       nontrivial=n > 0)
                    else:
                        ctx.judged(("ramlb", n, mask, k, s_, symbreak, cls, as_nx), nontrivial=n > 0)


# ------------------------------------------------------------------ workload
def chunks(seq, k):
    seq = list(seq)
    return [seq[i:i + k] for i in range(0, len(seq), k)]


def graph_masks(tier, seed):
    """[(n, [masks])]: all graphs up to 4 vertices; seeded samples of 5 and 6."""
    import random
    r = random.Random("c02-%d" % seed)
    out = [(n, list(range(1 << (n * (n - 1) // 2)))) for n in range(0, 5)]
    if tier == "quick":
        out.append((5, sorted({0, (1 << 10) - 1} | {r.getrandbits(10) for _ in range(40)})))
        out.append((6, sorted({0, (1 << 15) - 1} | {r.getrandbits(15) for _ in range(12)})))
    else:
        out.append((5, list(range(1 << 10))))                       # every 5-vertex graph
        out.append((6, sorted({0, (1 << 15) - 1} | {r.getrandbits(15) for _ in range(600)})))
    return out


def mask_of(n, E):
    idx = {p: i for i, p in enumerate(S.pairs(n))}
    return sum(1 << idx[(min(a, b), max(a, b))] for a, b in E)


def special_shapes(n):
    """Edge lists on n >= 12 vertices with a structure that random graphs of that size do not have: a vertex adjacent to
    all others (first / last), twins (adjacent and not), two components of equal size, an isolated vertex in the
    middle / at the end, a vertex of degree one hanging from the last vertex."""
    h = n // 2
    path = [(v, v + 1) for v in range(1, n)]
    out = [[(1, v) for v in range(2, n + 1)] + [(2, 3), (4, 5)],                                  # vertex 1 sees everybody
           [(v, n) for v in range(1, n)] + [(1, 2), (3, 4), (5, 6)],                              # vertex n sees everybody
           [(5, 7), (5, 8), (6, 7), (6, 8), (5, 6)] + [(v, v + 1) for v in range(8, n)] + [(1, 2), (2, 3), (3, 4), (4, 7)],   # adjacent twins 5, 6
           [(5, 7), (5, 8), (6, 7), (6, 8)] + [(v, v + 1) for v in range(8, n)] + [(1, 2), (2, 3), (3, 4), (4, 7)],           # twins 5, 6, not adjacent
           [(v, v + 1) for v in range(1, h)] + [(1, h)] + [(v, v + 1) for v in range(h + 1, 2 * h)] + [(h + 1, 2 * h)],       # two cycles of equal length
           [e for e in path if 7 not in e],                                                       # vertex 7 isolated, paths on both sides
           [e for e in path if n not in e],                                                       # the last vertex isolated
           [(v, v + 1) for v in range(1, n - 1)] + [(1, n - 1), (n - 1, n)],                       # a pendant last vertex on a cycle
           [(u, v) for u in range(1, 5) for v in range(u + 1, 5)] + [(v, v + 1) for v in range(5, n)]]  # K4 plus a path: two components
    return [sorted({(min(a, b), max(a, b)) for a, b in E if a != b and max(a, b) <= n}) for E in out]


def workload(tier, seed):
    quick = tier == "quick"
    gm = graph_masks(tier, seed)
    yield "cli_two_graphs", {}
    # tilings decided exactly on 12-14 vertices (one variable per vertex): forests with isolated vertices, hubs, caterpillars --
    # graphs in which different closed neighbourhoods are written with the same digits ({1,2} / {12}, {1,23} / {12,3})
    import random as _random
    rr = _random.Random("c02tiling-%d" % seed)
    for n in (12, 13, 14):
        shapes = [[(2, v) for v in range(1, 12) if v != 2], [(1, 2)], [(1, 2), (3, 12)], [(v, v + 1) for v in range(1, 7)] + [(v, v + 6) for v in range(1, 7)],
                  [(v, v + 1) for v in range(1, n)], [(1, v) for v in range(2, n + 1)], [(1, 2), (3, 4), (5, 6), (7, 8), (9, 10), (11, 12)]]
        shapes += special_shapes(n)
        for _ in range(4 if quick else 40):
            shapes.append(rr.sample(S.pairs(n), rr.randint(3, n)))
        masks = [mask_of(n, E) for E in shapes]
        for cls in ("CNF", "OPB"):
            for ch in chunks(masks, 3):
                yield "tiling", {"cls": cls, "n": n, "masks": ch, "as_nx": False}
    for cls in ("CNF", "OPB"):
        for n, masks in gm:
            for as_nx in (False, True, "duck", "nx-mixed"):
                if as_nx and n > (4 if as_nx in ("duck", "nx-mixed") else 3):
                    continue
                if as_nx == "nx-mixed" and n < 3:
                    continue
                if n <= 4 or not quick:
                    for ch in chunks(masks, 4 if n >= 4 else 8):
                        if n <= 5:
                            yield "tseitin", {"cls": cls, "n": n, "masks": ch, "as_nx": as_nx}
                for ch in chunks(masks, 8):
                    if n <= 4 or (n == 5 and not quick):
                        yield "kcolor", {"cls": cls, "n": n, "masks": ch, "as_nx": as_nx}
                        yield "domset", {"cls": cls, "n": n, "masks": ch, "as_nx": as_nx}
                        yield "clique", {"cls": cls, "n": n, "masks": ch, "as_nx": as_nx}
                    if n <= 4:
                        yield "auto", {"cls": cls, "n": n, "masks": ch, "as_nx": as_nx}
                    if n <= 3 or (n == 4 and not quick):
                        yield "ramlb", {"cls": cls, "n": n, "masks": ch, "as_nx": as_nx}
                    yield "ec", {"cls": cls, "n": n, "masks": ch, "as_nx": as_nx}
                    yield "tiling", {"cls": cls, "n": n, "masks": ch, "as_nx": as_nx}
        # isomorphism: all pairs of graphs with <= 3 vertices, any orders; same-order 4-vertex pairs sampled / all
        small = [(n, m) for n in range(0, 4) for m in range(1 << (n * (n - 1) // 2))]
        for n1 in range(0, 4):
            for n2 in range(0, 4):
                prs = [(m1, m2) for (a, m1) in small if a == n1 for (b, m2) in small if b == n2]
                for ch in chunks(prs, 16):
                    yield "iso", {"cls": cls, "n1": n1, "n2": n2, "pairs": ch, "as_nx": False}
        yield "iso", {"cls": cls, "n1": 2, "n2": 2, "pairs": [(0, 0), (0, 1), (1, 1)], "as_nx": True}
        yield "iso", {"cls": cls, "n1": 3, "n2": 3, "pairs": [(m1, m2) for m1 in range(8) for m2 in (0, 3, 5, 7)], "as_nx": "duck"}
        import random
        r = random.Random("c02iso-%d" % seed)
        prs = [(r.getrandbits(6), r.getrandbits(6)) for _ in range(80)] if quick else \
            [(a, b) for a in range(64) for b in range(64)]           # thorough: every pair of 4-vertex graphs
        # isomorphic pairs on purpose: a graph and a relabelled copy
        for _ in range(20 if quick else 200):
            m = r.getrandbits(6)
            perm = list(range(1, 5))
            r.shuffle(perm)
            P = S.pairs(4)
            m2 = 0
            for i, (u, v) in enumerate(P):
                if (m >> i) & 1:
                    a, b = perm[u - 1], perm[v - 1]
                    m2 |= 1 << P.index((min(a, b), max(a, b)))
            prs.append((m, m2))
        for ch in chunks(prs, 10):
            yield "iso", {"cls": cls, "n1": 4, "n2": 4, "pairs": ch, "as_nx": False}
        # subgraph: G up to 4 vertices, H up to 3 vertices
        for N in range(0, 5 if quick else 6):
            for k in range(0, 4):
                if k * N > S.CAP[tier]:
                    continue
                gmasks = list(range(1 << (N * (N - 1) // 2)))
                if N == 5:
                    gmasks = sorted(r.sample(gmasks, 160))
                hmasks = list(range(1 << (k * (k - 1) // 2)))
                for ch in chunks(gmasks, 8):
                    yield "subgraph", {"cls": cls, "N": N, "k": k, "gmasks": ch, "hmasks": hmasks, "as_nx": False}
        yield "subgraph", {"cls": cls, "N": 3, "k": 2, "gmasks": [0, 3, 7], "hmasks": [0, 1], "as_nx": True}
        yield "subgraph", {"cls": cls, "N": 4, "k": 3, "gmasks": [0, 7, 21, 45, 63], "hmasks": [0, 3, 7], "as_nx": "duck"}
        for d in (9, 10) if quick else (9, 10, 11, 12):
            yield "tseitin_highdeg", {"cls": cls, "d": d}
        for i in range(2 if quick else 24):
            yield "large", {"cls": cls, "rseed": seed * 100 + i}
            yield "history", {"cls": cls, "rseed": seed * 100 + i}


# ------------------------------------------------------------------ beyond the cap: sampled assignments at realistic sizes
def random_graph(r, n, m):
    E = set()
    allp = S.pairs(n)
    for e in r.sample(allp, min(m, len(allp))):
        E.add(e)
    return sorted(E)


def graph_obj(n, E):
    from cnfgen.graphs import Graph
    G = Graph(n)
    for e in E:
        G.add_edge(*e)
    return G


def sampled_compare(ctx, fam, desc, F, assignments, predicate, key):
    """assignments: iterable of sets of true variables; predicate(trueset) -> bool (the reference)."""
    from ..refmodels.names import eval_formula
    nt = nf = 0
    for t in assignments:
        exp = predicate(t)
        got = eval_formula(F, t)
        ctx.count("sampled_assignments")
        if exp:
            nt += 1
        else:
            nf += 1
        if got != exp:
            ctx.violation("%s:sampled:%s" % (fam, "satisfied-by-non-object" if got else "object-not-a-model"),
                          "%s: an assignment that %s the documented condition %s the formula; true variables %s"
                          % (desc, "meets" if exp else "violates", "satisfies" if got else "falsifies",
                             sorted(S.name_of(F, v) for v in t)[:30]))
            break
    ctx.count("sampled_cases")
    ctx.count("sampled_true_references", nt)
    ctx.count("sampled_false_references", nf)
    ctx.judged(key, sample={"family": fam, "case": desc, "variables": F.number_of_variables(), "mode": "sampled",
                            "assignments_true": nt, "assignments_false": nf})


def perturb(r, base, universe, howmany):
    out = [set(base)]
    universe = list(universe)
    for _ in range(howmany):
        t = set(base)
        for v in r.sample(universe, min(len(universe), r.choice([1, 1, 2, 3]))):
            t ^= {v}
        out.append(t)
    return out


def case_large(ctx, cls, rseed):
    g = gens()
    r = ctx.rng("c02large", cls, rseed)
    K = S.formula_classes()[cls]
    # ---- Tseitin on larger graphs: a solution from a spanning forest, then perturbations
    for n, m in ((12, 20), (20, 34), (30, 45), (63, 100), (64, 100), (65, 110), (128, 200), (257, 400)):      # also around powers of two
        E = random_graph(r, n, m)
        adj = adjacency(n, E)
        comps = components(n, E)
        charge = [r.random() < 0.5 for _ in range(n)]
        for c in comps:                      # make every component even, so that solutions exist
            if sum(charge[v - 1] for v in c) % 2:
                v = min(c)
                charge[v - 1] = not charge[v - 1]
        desc = "TseitinFormula(random graph %d vertices %d edges, random even charges)[%s]" % (n, len(E), cls)
        F, at = setup(ctx, "tseitin", cls, desc, g.TseitinFormula, graph_obj(n, E), list(charge))
        if F is None:
            continue
        ev = at.get("E_{#,#}", {})
        if set(ev) != set(E):
            ctx.violation("tseitin:atoms", "%s: variables do not name the edges" % desc)
            continue
        # solve: start from all-false, fix parities bottom-up along a DFS forest
        val = {e: False for e in E}
        seen = set()
        order, parent = [], {}
        for s0 in range(1, n + 1):
            if s0 in seen:
                continue
            stack = [s0]
            seen.add(s0)
            while stack:
                u = stack.pop()
                order.append(u)
                for w in sorted(adj[u]):
                    if w not in seen:
                        seen.add(w)
                        parent[w] = u
                        stack.append(w)
        for u in reversed(order):
            if u in parent:
                par = sum(val[(min(u, w), max(u, w))] for w in adj[u]) % 2
                if par != int(charge[u - 1]):
                    e = (min(u, parent[u]), max(u, parent[u]))
                    val[e] = not val[e]
        base = {ev[e] for e in E if val[e]}

        def pred(t, ev=ev, E=E, charge=charge, n=n):
            deg = [0] * (n + 1)
            for (u, v) in E:
                if ev[(u, v)] in t:
                    deg[u] += 1
                    deg[v] += 1
            return all(deg[v] % 2 == int(charge[v - 1]) for v in range(1, n + 1))
        if not pred(base):
            raise AssertionError("Tseitin spanning-forest solution is wrong")
        # cycles keep a solution a solution: flip the edges of a random triangle-free cycle found via two tree paths is
        # more work than needed; perturbations by 1-3 edges are (almost always) non-solutions, the base is a solution
        sampled_compare(ctx, "tseitin", desc, F, perturb(r, base, ev.values(), 40), pred, ("tseitin-large", n, tuple(E), cls, rseed))
    # ---- k-colouring with a planted colouring (single-digit vertices and colours: names are x_{vc})
    for n, k in ((9, 3), (8, 4), (9, 2)):
        part = [r.randrange(k) for _ in range(n)]
        E = [(u, v) for (u, v) in S.pairs(n) if part[u - 1] != part[v - 1] and r.random() < 0.5]
        for functional in (True, False):
            desc = "GraphColoringFormula(planted %d-partite graph on %d vertices, %d, functional=%s)[%s]" % (k, n, k, functional, cls)
            F, at = setup(ctx, "kcolor", cls, desc, g.GraphColoringFormula, graph_obj(n, E), k, functional=functional)
            if F is None:
                continue
            x = {(d[0] // 10, d[0] % 10): v for d, v in at.get("x_{#}", {}).items()}
            if set(x) != {(v, c) for v in range(1, n + 1) for c in range(1, k + 1)}:
                ctx.count("names_not_decodable")
                continue
            base = {x[(v, part[v - 1] + 1)] for v in range(1, n + 1)}

            def pred(t, x=x, E=E, n=n, k=k, functional=functional):
                col = {v: [c for c in range(1, k + 1) if x[(v, c)] in t] for v in range(1, n + 1)}
                if any(not col[v] for v in col) or (functional and any(len(col[v]) > 1 for v in col)):
                    return False
                return all(not set(col[u]) & set(col[v]) for u, v in E)
            sampled_compare(ctx, "kcolor", desc, F, perturb(r, base, x.values(), 40), pred,
                            ("kcolor-large", n, k, functional, tuple(E), cls, rseed))
    # ---- cliques with a planted clique, unary and binary encodings
    for n, k in ((10, 4), (13, 5), (17, 3), (33, 4), (65, 3)):
        clique = sorted(r.sample(range(1, n + 1), k))
        E = sorted(set(random_graph(r, n, 2 * n)) | {(u, v) for u, v in itertools.combinations(clique, 2)})
        sE = set(E)
        for symbreak in (True, False):
            desc = "CliqueFormula(random graph %d vertices + planted %d-clique, symbreak=%s)[%s]" % (n, k, symbreak, cls)
            F, at = setup(ctx, "kclique", cls, desc, g.CliqueFormula, graph_obj(n, E), k, symbreak=symbreak)
            if F is not None:
                s = at.get("s_{#,#}", {})
                if len(s) == k * n:
                    base = {s[(i + 1, clique[i])] for i in range(k)}

                    def pred(t, s=s, n=n, k=k, sE=sE, symbreak=symbreak):
                        img = []
                        for i in range(1, k + 1):
                            js = [j for j in range(1, n + 1) if s[(i, j)] in t]
                            if len(js) != 1:
                                return False
                            img.append(js[0])
                        if len(set(img)) != k or (symbreak and img != sorted(img)):
                            return False
                        return all((min(a, b), max(a, b)) in sE for a, b in itertools.combinations(img, 2))
                    pool = perturb(r, base, s.values(), 30)
                    if not symbreak:
                        perm = clique[:]
                        r.shuffle(perm)
                        pool.append({s[(i + 1, perm[i])] for i in range(k)})
                    sampled_compare(ctx, "kclique", desc, F, pool, pred, ("kclique-large", n, k, symbreak, tuple(E), cls, rseed))
            desc = "BinaryCliqueFormula(random graph %d vertices + planted %d-clique, symbreak=%s)[%s]" % (n, k, symbreak, cls)
            F, at = setup(ctx, "kcliquebin", cls, desc, g.BinaryCliqueFormula, graph_obj(n, E), k, symbreak=symbreak)
            if F is not None:
                y = at.get("y_{#,#}", {})
                bits = (n - 1).bit_length()
                if len(y) == k * bits:
                    base = {y[(i + 1, b)] for i in range(k) for b in range(bits) if ((clique[i] - 1) >> b) & 1}

                    def predb(t, y=y, n=n, k=k, bits=bits, sE=sE, symbreak=symbreak):
                        img = [1 + sum((1 << b) for b in range(bits) if y[(i, b)] in t) for i in range(1, k + 1)]
                        if any(j > n for j in img) or len(set(img)) != k or (symbreak and img != sorted(img)):
                            return False
                        return all((min(a, b), max(a, b)) in sE for a, b in itertools.combinations(img, 2))
                    sampled_compare(ctx, "kcliquebin", desc, F, perturb(r, base, y.values(), 40), predb,
                                    ("kcliquebin-large", n, k, symbreak, tuple(E), cls, rseed))
    # ---- isomorphism with a relabelled copy
    for n in (7, 10, 12):
        E1 = random_graph(r, n, 2 * n)
        perm = list(range(1, n + 1))
        r.shuffle(perm)
        E2 = sorted((min(perm[u - 1], perm[v - 1]), max(perm[u - 1], perm[v - 1])) for u, v in E1)
        desc = "GraphIsomorphism(random graph on %d vertices, relabelled copy)[%s]" % (n, cls)
        F, at = setup(ctx, "iso", cls, desc, g.GraphIsomorphism, graph_obj(n, E1), graph_obj(n, E2))
        if F is None:
            continue
        x = at.get("x_{#,#}", {})
        if len(x) != n * n:
            continue
        base = {x[(u, perm[u - 1])] for u in range(1, n + 1)}
        s1, s2 = set(E1), set(E2)

        def predi(t, x=x, n=n, s1=s1, s2=s2):
            img = {}
            for u in range(1, n + 1):
                vs = [v for v in range(1, n + 1) if x[(u, v)] in t]
                if len(vs) != 1:
                    return False
                img[u] = vs[0]
            if len(set(img.values())) != n:
                return False
            return all(((min(img[u], img[v]), max(img[u], img[v])) in s2) == ((u, v) in s1) for u, v in S.pairs(n))
        pool = perturb(r, base, x.values(), 25)
        for _ in range(10):                      # other bijections (almost never isomorphisms)
            p2 = perm[:]
            i, j = r.sample(range(n), 2)
            p2[i], p2[j] = p2[j], p2[i]
            pool.append({x[(u, p2[u - 1])] for u in range(1, n + 1)})
        sampled_compare(ctx, "iso", desc, F, pool, predi, ("iso-large", n, tuple(E1), tuple(perm), cls, rseed))
    # ---- dominating set / tiling on larger graphs: full assignments built from vertex sets
    # (also graphs of 12-25 vertices in which different closed neighbourhoods are written with the same digits: {1,2} and {12},
    # {1,23} and {12,3}; vertices of degree 0 and 1 next to a hub)
    structured = []
    for n in (12, 13, 21, 25):
        hub = [(2, v) for v in range(1, 12) if v != 2]                   # hub 2 joined to 1, 3..11; 12.. isolated
        structured.append((n, sorted((min(a, b), max(a, b)) for a, b in hub), 1))
        structured.append((n, sorted((min(a, b), max(a, b)) for a, b in hub + [(1, n)]), 2))
        cat = [(v, v + 1) for v in range(1, 7)] + [(v, v + 6) for v in range(1, 7) if v + 6 <= n]     # a caterpillar
        structured.append((n, sorted(set(cat)), 4))
        structured.append((n, [(1, 2), (3, 12)] + ([(1, 23)] if n >= 23 else []), n - 3))
    for n in (12, 15, 16):
        for E_ in special_shapes(n):
            structured.append((n, E_, r.choice((1, 2, 3, n // 3))))
    for n, m, d in [(10, 14, 4), (14, 20, 5), (33, 50, 8), (65, 100, 12)] + structured:
        E = random_graph(r, n, m) if isinstance(m, int) else list(m)
        N = closed_nbhd(n, E)
        for alt in (False, True):
            desc = "DominatingSet(random graph %d vertices %d edges, %d, alternative=%s)[%s]" % (n, len(E), d, alt, cls)
            F, at = setup(ctx, "domset", cls, desc, g.DominatingSet, graph_obj(n, E), d, alternative=alt)
            if F is None:
                continue
            x, f = at.get("x_{#}", {}), at.get("f(#)=#", {})
            if len(x) != n or len(f) != n * d:
                continue
            pool = []
            for _ in range(40):
                Sset = sorted(r.sample(range(1, n + 1), r.randint(1, d)))
                t = {x[(v,)] for v in Sset} | {f[(v, i + 1)] for i, v in enumerate(Sset)}
                pool.append((t, all(N[v] & set(Sset) for v in N)))
            if not isinstance(m, int):
                # the sets that dominate everything but one vertex of small degree
                for skip in range(1, n + 1):
                    if len(N[skip]) <= 2:
                        left, Sset = set(range(1, n + 1)) - N[skip], []
                        while left and len(Sset) < d:
                            v = max((u for u in range(1, n + 1) if u not in N[skip]), key=lambda u: (len(N[u] & left), -u), default=None)
                            if v is None or not (N[v] & left):
                                break
                            Sset.append(v)
                            left -= N[v]
                        if Sset:
                            Sset = sorted(Sset)
                            t = {x[(v,)] for v in Sset} | {f[(v, i + 1)] for i, v in enumerate(Sset)}
                            pool.append((t, all(N[v] & set(Sset) for v in N)))
            # greedy dominating sets so that satisfying assignments are present
            for _ in range(10):
                left, Sset = set(range(1, n + 1)), []
                while left and len(Sset) < d:
                    v = max(range(1, n + 1), key=lambda u: (len(N[u] & left), r.random()))
                    Sset.append(v)
                    left -= N[v]
                Sset = sorted(Sset)
                t = {x[(v,)] for v in Sset} | {f[(v, i + 1)] for i, v in enumerate(Sset)}
                pool.append((t, not left))
            exp = {frozenset(t): e for t, e in pool}
            sampled_compare(ctx, "domset", desc, F, [set(t) for t in exp], lambda t, exp=exp: exp[frozenset(t)],
                            ("domset-large", n, d, alt, tuple(E), cls, rseed))


def case_history(ctx, cls, rseed):
    """Every simple-graph family on a Graph object that is edited between calls (caches keyed on the object)."""
    K = S.formula_classes()[cls]
    g = gens()
    r = ctx.rng("c02hist", cls, rseed)
    fams = [("tseitin", lambda G: g.TseitinFormula(G, formula_class=K)),
            ("kcolor", lambda G: g.GraphColoringFormula(G, 3, formula_class=K)),
            ("domset", lambda G: g.DominatingSet(G, 2, formula_class=K)),
            ("tiling", lambda G: g.Tiling(G, formula_class=K)),
            ("auto", lambda G: g.GraphAutomorphism(G, formula_class=K)),
            ("iso", lambda G: g.GraphIsomorphism(G, G, formula_class=K)),
            ("subgraph", lambda G: g.SubgraphFormula(G, S.simple_graph(3, 7)[0], formula_class=K)),
            ("kclique", lambda G: g.CliqueFormula(G, 3, formula_class=K)),
            ("kclique", lambda G: g.CliqueFormula(G, 3, symbreak=False, formula_class=K)),
            ("kcliquebin", lambda G: g.BinaryCliqueFormula(G, 3, formula_class=K)),
            ("ramlb", lambda G: g.RamseyWitnessFormula(G, 3, 2, formula_class=K))]
    for fam, gen in fams:
        for i in range(3):
            S.graph_history_check(ctx, fam, "%s[%s]" % (fam, cls), gen, r, n=r.randint(4, 6))
    # the same on sparse graphs with 31-70 vertices (per-object memos may start at any size)
    for fam, gen in fams[1:4] + [("matching", lambda G: g.PerfectMatchingPrinciple(G, formula_class=K))]:
        for n_ in (31, 32, 33, 40, 64, 70):
            S.graph_history_check(ctx, fam, "%s[%s]" % (fam, cls), gen, r, n=n_, rounds=4, max_edges=2 * n_)
            ctx.count("histories_on_graphs_with_31_to_70_vertices")


def case_tseitin_highdeg(ctx, cls, d):
    """Stars and brooms with a vertex of degree d >= 9: exact model sets (|E| <= 13 variables)."""
    tt.selfcheck()
    g = gens()
    r = ctx.rng("c02highdeg", cls, d)
    shapes = []
    n = d + 1
    shapes.append((n, [(1, v) for v in range(2, n + 1)]))                                   # hub is vertex 1
    shapes.append((n, sorted((min(v, n), max(v, n)) for v in range(1, n))))                 # hub is the last vertex
    shapes.append((n + 2, [(1, v) for v in range(2, n + 1)] + [(n, n + 1), (n + 1, n + 2)]))  # broom
    shapes.append((n, [(1, v) for v in range(2, n + 1)] + [(2, 3)]))                        # star plus one edge
    for (nn, E) in shapes:
        G = graph_obj(nn, E)
        for _ in range(4):
            charge = [r.random() < 0.5 for _ in range(nn)]
            desc = "TseitinFormula(%s,charges=%r)[%s]" % (gdesc(nn, E), [int(c) for c in charge], cls)
            F, at = setup(ctx, "tseitin", cls, desc, g.TseitinFormula, G, list(charge))
            if F is None:
                continue
            fam_count(ctx, "tseitin", cls)
            ctx.count("tseitin_degree_9_or_more")
            ev = at.get("E_{#,#}", {})
            if set(ev) != set(E):
                ctx.violation("tseitin:atoms", "%s: variables do not name the edges" % desc)
                continue
            objs = []
            for sub in edge_subsets(E):
                deg = [0] * (nn + 1)
                for u, v in sub:
                    deg[u] += 1
                    deg[v] += 1
                if all(deg[v] % 2 == int(charge[v - 1]) for v in range(1, nn + 1)):
                    objs.append([ev[e] for e in sub])
            S.check_models(ctx, "tseitin", desc, F, objs, ("tseitin-highdeg", nn, tuple(E), tuple(charge), cls))

"""C14 -- graph files round-trip in every supported format; bad files are rejected.

Three monitors around the real readGraph / writeGraph / from_file / command-line code:

* round trip: a graph held as a plain Python edge set is built, written and read
  back (StringIO, real files with extension autodetection, file handles,
  `from_file`, the graph argument `<file>` / `save <file>` of the command line,
  the real `cnfgen` main); the result must be the same vertex count, the same
  left/right split and exactly the same edges;
* hostile texts: per-format mutations of valid files are read; any exception
  but ValueError is a violation; for the in-house formats a reference reader
  (vmon/refmodels/c14_readers.py) decides which texts must be refused and which
  graph an accepted text denotes; gml/dot (third-party parsers) are judged by
  exception discipline only;
* dag gate: whatever `readGraph(..., 'dag', ...)` returns has only edges u < v,
  and a written digraph with a back edge or a loop is refused as a dag.
"""
import contextlib
import io
import os
import shutil
import sys
import tempfile
import traceback

from .. import REPO
from ..refmodels import c14_readers as ref

PYTHON_O_STRIDE = {"quick": 4, "thorough": 2}      # every n-th case is repeated in an interpreter started with -O
RULE = ("round trips: every simple graph / dag with <= 4 vertices, every digraph (loops allowed) with <= 3 "
        "vertices, every bipartite graph with <= 4 vertices (both sides may be empty), a fixed list of graphs with "
        "10..12 vertices, and seeded graphs with 0..15 vertices (half of them >= 10 vertices, densities 0..1, isolated "
        "vertices, empty sides, complete bipartite objects, default / single-line / empty / newline-terminated "
        "names, shuffled insertion order), in every format of supported_file_formats(), through StringIO, path and "
        "handle with extension autodetection, from_file, make_graph_from_spec (file argument, format + file with a "
        "missing or misleading extension, save) and the real cnfgen main (file argument + save).  dag gate: seeded "
        "and fixed digraphs with 0..2 edges u >= v written as digraph, read as dag.  Texts: a fixed corpus (one or "
        "two texts per class of damage) and 1-3 stacked mutations (truncation, deleted / duplicated / swapped / "
        "blank / comment / garbage lines, CRLF, exotic characters, token replacement / insertion / deletion, wrong "
        "declared counts, missing terminators, repeated or decreasing vertex lines, out-of-range ids, self-loops, "
        "back edges, format-specific damage of gml / dot) of written files and of hand-written templates, read as "
        "every type the format supports, through StringIO and through a file given as command-line graph argument. "
        "distinct = (type, format, channel, graph, name) for round trips, (format, graph) for the dag gate, (type, "
        "format, text) for texts; trivial = graph without edges / text without a digit.")
ASSUMPTIONS = [
    "the reference readers in vmon/refmodels/c14_readers.py (checked against the examples of the format "
    "descriptions at start-up) define 'consistent with the text' for kthlist, DIMACS edge and matrix files; "
    "features the descriptions leave open (lenient integer spellings, exotic white space, kthlist continuation "
    "lines, glued descriptor letters, 'p col') are not judged beyond the exception discipline",
    "a refusal with ValueError (including its subclasses, e.g. UnicodeError) is always acceptable for a text "
    "that was not produced by the writer",
    "gml and dot are parsed by networkx / pydot: only round trip, exception discipline and the dag gate are judged",
    "bipartite kthlist: left side = vertices up to the largest one that owns a line (the documented rule)",
]
REQUIRED = [
    "roundtrip_ok", "roundtrip_ge10_vertices", "roundtrip_isolated_vertices", "roundtrip_empty_side",
    "roundtrip:kthlist", "roundtrip:gml", "roundtrip:dot", "roundtrip:dimacs", "roundtrip:matrix",
    "channel:stringio", "channel:path", "channel:handle", "channel:from_file", "channel:cli-spec",
    "channel:cli-save", "channel:cli-main",
    "texts_refused_with_ValueError", "texts_accepted_as_reference_graph", "texts_third_party_accepted",
    "ref_graph", "ref_reject", "ref_unclear",
    "ref_reject:kthlist:vertex-out-of-range", "ref_reject:kthlist:missing-terminator",
    "ref_reject:kthlist:no-size-line", "ref_reject:kthlist:second-size-line",
    "ref_reject:kthlist:bipartition-violation", "ref_reject:kthlist:back-edge-under-dag",
    "ref_reject:kthlist:self-loop", "ref_reject:kthlist:non-integer",
    "ref_reject:dimacs:declared-edge-count", "ref_reject:dimacs:vertex-out-of-range",
    "ref_reject:dimacs:back-edge-under-dag", "ref_reject:dimacs:no-problem-line",
    "ref_reject:dimacs:edge-before-problem-line", "ref_reject:dimacs:self-loop",
    "ref_reject:matrix:too-few-entries", "ref_reject:matrix:too-many-entries", "ref_reject:matrix:entry-not-0-1",
    "ref_reject:matrix:non-integer",
    "texts_with_blank_line", "texts_with_comment_line", "texts_repeated_vertex_line", "texts_decreasing_vertex_lines",
    "dag_gate_cyclic_refused", "dag_gate_acyclic_accepted", "dag_results_checked_edgewise",
    "texts_via_command_line_argument", "explicit_format_beats_extension", "written_text_checked_by_reference", "corpus_texts",
    "large_graph_roundtrips",
]
CASE_TIMEOUT = {"quick": 240, "thorough": 900}
EXHAUSTIVE_SUBSPACES = {
    "quick": ["round trip through StringIO of every simple graph and dag with <= 4 vertices, every digraph with "
              "<= 3 vertices (loops included), every bipartite graph with L+R <= 4, in every supported format"],
    "thorough": ["the same, plus every digraph without loops on 4 vertices in kthlist, gml and dimacs"]}

DOT_LEXI = "dot:integer-labels-ordered-as-strings"
DEFAULT = "<default>"
NAMES = (DEFAULT, "a single line name", "", "name with trailing newline\n", 'a "quoted" name', "from file 'it''s \"x\".gml'", "ends with \\",
         "semi;colon { brace", "a -- b -> c", "c comment", "p edge 3 2",
         # names of several lines, and the characters that some line splitters take for a line end and others do not
         "two\nlines", "tail looks like data\n1 : 2 3 0", "tail\ne 1 3", "tail\np edge 9 0\n2", "carriage\rreturn",
         "form\x0cfeed 1 : 2 0", "line\u2028separator 2", "next\x85line", "vertical\x0btab", "file\x1cseparator 3 : 1 0")


# ------------------------------------------------------------------ plumbing
def G_():
    import cnfgen.graphs as g
    return g


@contextlib.contextmanager
def quiet(ctx):
    """pydot prints parse diagnostics on stdout."""
    buf = io.StringIO()
    with contextlib.redirect_stdout(buf):
        yield
    if buf.getvalue():
        ctx.count("parser_stdout_captured")


def formats_for(gtype):
    g = G_()
    return g.supported_graph_formats()[gtype]


def kind_of(gtype):
    return {"simple": "simple", "digraph": "digraph", "dag": "digraph", "bipartite": "bipartite"}[gtype]


def build(desc, name=DEFAULT, order=None, complete=False, how="add_edge"):
    """cnfgen object for a plain description; edges inserted in the given order.  how='refused-batch': the edges come
    in through one add_edges_from call that ends with a pair the graph refuses, and the caller carries on with the
    object (all its edges are in by then); how='user-class': a read-only subclass with computed edges (vmon/ducks.py)."""
    g = G_()
    edges = list(order) if order is not None else sorted(desc[-1])
    if how == "user-class" and not complete:
        from .. import ducks
        if desc[0] == "bipartite":
            return ducks.computed_bipartite(desc[1], desc[2], edges, name=None if name == DEFAULT else name)
        if desc[0] == "simple":
            return ducks.computed_graph(desc[1], edges, name=None if name == DEFAULT else name)
        return ducks.computed_dag(desc[1], edges, name=None if name == DEFAULT else name)
    if desc[0] == "bipartite":
        if complete:
            return g.CompleteBipartiteGraph(desc[1], desc[2])
        G = g.BipartiteGraph(desc[1], desc[2]) if name == DEFAULT else g.BipartiteGraph(desc[1], desc[2], name)
    elif desc[0] == "simple":
        G = g.Graph(desc[1]) if name == DEFAULT else g.Graph(desc[1], name)
    else:
        G = g.DirectedGraph(desc[1]) if name == DEFAULT else g.DirectedGraph(desc[1], name)
    if how == "refused-batch":
        bad = (0, 1) if desc[0] != "simple" else (1, 1) if desc[1] >= 1 else (0, 1)
        try:
            G.add_edges_from(list(edges) + [bad, (desc[1] + 7, 1)])
        except Exception:       # noqa: BLE001 - the refusal is what is expected
            pass
        if all(G.has_edge(u, v) for u, v in edges) and G.number_of_edges() == len(set(map(tuple, edges))):
            return G
        # (a graph type that takes nothing from a refused batch: fall back to edge-by-edge insertion)
    for u, v in edges:
        G.add_edge(u, v)
    return G


def observe(H, gtype):
    """Plain description of what a reader returned, through its public views; None = not a graph of the type."""
    g = G_()
    try:
        if gtype == "bipartite":
            if not isinstance(H, g.BipartiteGraph):
                return None
            es = [tuple(e) for e in H.edges()]
            d = ("bipartite", H.left_order(), H.right_order(), frozenset(es))
            nv = H.left_order() + H.right_order()
        elif gtype == "simple":
            if not isinstance(H, g.Graph):
                return None
            es = [tuple(e) for e in H.edges()]
            if any(u >= v for u, v in es):
                return None
            d = ("simple", H.number_of_vertices(), frozenset(es))
            nv = d[1]
        else:
            if not isinstance(H, g.DirectedGraph):
                return None
            es = [tuple(e) for e in H.edges()]
            d = ("digraph", H.number_of_vertices(), frozenset(es))
            nv = d[1]
        if len(es) != len(set(es)) or H.number_of_edges() != len(es) or H.number_of_vertices() != nv:
            return None
        return d
    except Exception:       # noqa: BLE001 - a result whose views raise is not a usable graph
        return None


def show(desc):
    return [desc[0]] + list(desc[1:-1]) + [sorted(desc[-1])]


def lexi(desc):
    """The graph after renumbering vertices 1..n in the order of their decimal strings."""
    if desc[0] == "bipartite":
        return None
    n = desc[1]
    order = sorted(range(1, n + 1), key=str)
    new = {old: i + 1 for i, old in enumerate(order)}
    es = [(new[u], new[v]) for u, v in desc[2]]
    if desc[0] == "simple":
        es = [(min(u, v), max(u, v)) for u, v in es]
    return (desc[0], n, frozenset(es))


def has_back_edge(desc):
    return any(u >= v for u, v in desc[-1])


def innermost(exc):
    """Where an escaping exception was raised: a function of cnfgen, or a third-party package."""
    tb = traceback.extract_tb(exc.__traceback__)
    if not tb:
        return "unknown-place"
    f = tb[-1]
    fn = f.filename
    if fn.startswith(os.path.join(REPO, "")):
        return "at-%s.%s" % (os.path.splitext(os.path.basename(fn))[0], f.name)
    if "site-packages" + os.sep in fn:
        return "inside-" + fn.split("site-packages" + os.sep)[1].split(os.sep)[0].replace(".py", "")
    return "inside-" + os.path.splitext(os.path.basename(fn))[0]


def exc_mechanism(fmt, gtype, exc, text):
    """One semantic mechanism per distinct way a non-ValueError escapes a reader."""
    name = type(exc).__name__
    flav = fmt + ("-bipartite" if fmt == "kthlist" and gtype == "bipartite" else "")
    msg = str(exc)
    lines = io.StringIO(text).readlines()
    if fmt == "dimacs" and name == "IndexError" and any(not l.strip() for l in lines):
        return "reader:dimacs:IndexError:blank-line"
    if fmt == "kthlist" and name == "StopIteration" and \
            all(l[:1] == "c" or not l.strip() for l in lines):
        # nothing but comments and blank lines: the parser generator ends before the size line
        return "reader:kthlist:StopIteration:no-size-line"
    if fmt == "gml" and name == "TypeError" and "type of argument" in msg:
        return "reader:gml:TypeError:directedness-of-file-differs-from-requested-type"
    if fmt == "gml" and name == "TypeError" and "unhashable" in msg:
        return "reader:gml:TypeError:repeated-key-yields-list-valued-vertex"
    return "reader:%s:%s:%s" % (flav, name, innermost(exc))


# ------------------------------------------------------------------ channels
os.environ.setdefault("VMONVAR", "expanded")


class Scratch:
    def __enter__(self):
        self.dir = tempfile.mkdtemp(prefix="c14.", dir="/tmp")
        self.k = 0
        return self

    def __exit__(self, *exc):
        shutil.rmtree(self.dir, ignore_errors=True)

    def path(self, ext):
        self.k += 1
        # some names contain what a shell would expand ($VMONVAR and ${VMONVAR} are defined in the environment, ~ is
        # every user's home): a file name is a file name
        stem = ("g%d", "g%d$VMONVAR", "g%d${VMONVAR}x", "~g%d", "g%d", "g%d$HOME")[self.k % 6] % self.k
        return os.path.join(self.dir, stem + (("." + ext) if ext else ""))


def write_text(ctx, G, gtype, fmt):
    g = G_()
    s = io.StringIO()
    st, val = ctx.call(g.writeGraph, G, s, gtype, fmt)
    return (st, s.getvalue() if st == "ok" else val)


def read_text(ctx, text, gtype, fmt):
    g = G_()
    with quiet(ctx):
        return ctx.call(g.readGraph, io.StringIO(text), gtype, fmt)


def cls_of(gtype):
    g = G_()
    return {"simple": g.Graph, "digraph": g.DirectedGraph, "dag": g.DirectedGraph, "bipartite": g.BipartiteGraph}[gtype]


class CliRefusal(ValueError):
    """The command line refused its graph argument (exit status != 0)."""


CLI_FORMULA = {"simple": ["kcolor", "2"], "dag": ["peb"], "bipartite": ["php"]}


def transport(ctx, G, gtype, fmt, channel, scratch, r):
    """write G, read it back through `channel`; -> (stage, status, value(s), text or None, formats involved)."""
    g = G_()
    fmts = (fmt,)
    if channel == "stringio":
        st, text = write_text(ctx, G, gtype, fmt)
        if st == "exc":
            return "write", st, text, None, fmts
        st, H = read_text(ctx, text, gtype, fmt)
        return "read", st, H, text, fmts
    p = scratch.path(fmt)
    if channel == "path":
        st, val = ctx.call(g.writeGraph, G, p, gtype)
        if st == "exc":
            return "write", st, val, None, fmts
        with quiet(ctx):
            st, H = ctx.call(g.readGraph, p, gtype)
        return "read", st, H, None, fmts
    if channel == "handle" and r.random() < 0.4:
        # streams whose `name` is not a file name: an anonymous temporary file (name = a descriptor number), a spooled
        # one (name = None); the format is given explicitly, as it must be for such streams
        kind = r.choice(["TemporaryFile", "SpooledTemporaryFile", "fdopen"])
        ctx.count("stream_without_file_name:" + kind)
        if kind == "TemporaryFile":
            f = tempfile.TemporaryFile("w+", encoding="utf-8")
        elif kind == "SpooledTemporaryFile":
            f = tempfile.SpooledTemporaryFile(mode="w+", encoding="utf-8")
        else:
            f = os.fdopen(os.open(p, os.O_RDWR | os.O_CREAT | os.O_TRUNC), "w+", encoding="utf-8")
        with f:
            st, val = ctx.call(g.writeGraph, G, f, gtype, fmt)
            if st == "exc":
                return "write", st, val, None, fmts
            f.seek(0)
            with quiet(ctx):
                st, H = ctx.call(g.readGraph, f, gtype, fmt)
        return "read", st, H, None, fmts
    if channel == "handle":
        with open(p, "w", encoding="utf-8") as f:
            st, val = ctx.call(g.writeGraph, G, f, gtype)
        if st == "exc":
            return "write", st, val, None, fmts
        with open(p, "r", encoding="utf-8") as f, quiet(ctx):
            st, H = ctx.call(g.readGraph, f, gtype, "autodetect")
        return "read", st, H, None, fmts
    # the remaining channels start from a written file
    st, val = ctx.call(g.writeGraph, G, p, gtype, fmt)
    if st == "exc":
        return "write", st, val, None, fmts
    if channel == "from_file":
        cls = cls_of(gtype)
        with quiet(ctx):
            if r.random() < 0.5:
                st, H = ctx.call(cls.from_file, p)
            else:
                with open(p, "r", encoding="utf-8") as f:
                    st, H = ctx.call(cls.from_file, f, fmt if r.random() < 0.5 else None)
        return "read", st, H, None, fmts
    from cnfgen.clitools.graph_args import make_graph_from_spec
    if channel == "cli-spec":
        if r.random() < 0.5:
            spec = [p]
        else:
            # explicit format; the file name has no extension or a misleading one
            q = scratch.path(r.choice(["", "txt"] + [f for f in formats_for(gtype) if f != fmt]))
            os.rename(p, q)
            spec = [fmt, q]
            ctx.count("explicit_format_beats_extension")
        with quiet(ctx):
            st, H = ctx.call(make_graph_from_spec, gtype, spec)
        return "read", st, H, None, fmts
    fmt2 = r.choice(formats_for(gtype))
    fmts = (fmt, fmt2)
    if r.random() < 0.5:
        p2 = scratch.path(fmt2)
        save = ["save", p2]
    else:
        p2 = scratch.path(r.choice(["", "txt"] + [f for f in formats_for(gtype) if f != fmt2]))
        save = ["save", fmt2, p2]
        ctx.count("explicit_format_beats_extension")
    first = []
    if channel == "cli-save":
        with quiet(ctx):
            st, H = ctx.call(make_graph_from_spec, gtype, [p] + save)
        if st == "exc":
            return "read", st, H, None, fmts
        first = [H]                                   # the graph handed to the formula is judged as well
    else:                                             # cli-main: the real entry point
        from ..cliharness import run_main
        o = run_main("cnfgen", ["-q"] + CLI_FORMULA[gtype] + [p] + save)
        if not os.path.exists(p2):
            # the graph argument was refused (or never saved); what the formula does afterwards is not C14's business
            if o.exc is not None:
                return "read", "exc", o.exc, None, fmts
            return "read", "exc", CliRefusal("cnfgen exit status %r: %s" % (o.rc, o.err[-300:])), None, fmts
        if o.rc != 0 or o.exc is not None:
            ctx.count("cli_main_failed_after_saving_the_graph")
    if not os.path.exists(p2):
        return "read", "exc", FileNotFoundError("save did not create the file"), None, fmts
    ctx.count("saved_as:" + fmt2)
    with quiet(ctx):
        st2, H2 = ctx.call(g.readGraph, p2, gtype, fmt2)
    if st2 == "ok" and first:
        return "read", "ok", first + [H2], None, fmts
    return "read", st2, H2, None, fmts


CHANNELS = ("stringio", "path", "handle", "from_file", "cli-spec", "cli-save", "cli-main")


def judge_roundtrip(ctx, desc, gtype, fmt, channel, stage, st, val, name=DEFAULT, text=None, fmts=None):
    where = "%s %s via %s: %r" % (gtype, fmt, channel, show(desc))
    n = desc[1] + (desc[2] if desc[0] == "bipartite" else 0)
    key = ("rt", gtype, fmt, channel, desc[1:-1], tuple(sorted(desc[-1])), name)
    sample = {"type": gtype, "format": fmt, "channel": channel, "graph": show(desc)}
    ctx.count("roundtrip:" + fmt)
    ctx.count("channel:" + channel)
    ok = False
    fmts = tuple(fmts or (fmt,))
    lx = lexi(desc) if "dot" in fmts else None
    lx2 = lexi(lx) if lx is not None and fmts.count("dot") == 2 else None          # read from dot, saved as dot, read again
    if len(set(fmts)) > 1:
        where += " (saved as %s)" % fmts[1]
        fmt = "+".join(fmts)
    if st == "exc":
        if stage == "write":
            mech = "writer:%s:raises:%s" % (fmt, type(val).__name__)
        elif lx is not None and gtype == "dag" and isinstance(val, ValueError) and "acyclic" in str(val) \
                and (has_back_edge(lx) or (lx2 is not None and has_back_edge(lx2))):
            mech = DOT_LEXI
        else:
            mech = "roundtrip:%s:%s:raises:%s" % (fmt, gtype, type(val).__name__)
        ctx.violation(mech, "%s: %s raised %r" % (where, stage, val), text=text)
    else:
        gots = [observe(v, gtype) for v in (val if isinstance(val, list) else [val])]
        got = next((x for x in gots if x != desc), desc)       # the first result that differs, if any
        if got is None:
            ctx.violation("roundtrip:%s:result-is-not-a-%s-graph" % (fmt, gtype),
                          "%s: got %r" % (where, val), text=text)
        elif got != desc:
            if lx is not None and got in (lx, lx2):
                mech = DOT_LEXI
            elif got[1:-1] != desc[1:-1]:
                mech = "roundtrip:%s:%s" % (fmt, "left-right-split" if desc[0] == "bipartite" else "vertex-count")
            else:
                mech = "roundtrip:%s:%s:edges-differ" % (fmt, gtype)
            ctx.violation(mech, "%s: read back as %r" % (where, show(got)), text=text)
        else:
            ok = True
    if ok:
        ctx.count("roundtrip_ok")
        if n >= 10:
            ctx.count("roundtrip_ge10_vertices")
        touched = {x for e in desc[-1] for x in e} if desc[0] != "bipartite" else None
        if desc[0] == "bipartite":
            if desc[1] == 0 or desc[2] == 0:
                ctx.count("roundtrip_empty_side")
            if len({u for u, _ in desc[-1]}) < desc[1] or len({v for _, v in desc[-1]}) < desc[2]:
                ctx.count("roundtrip_isolated_vertices")
        elif len(touched) < n:
            ctx.count("roundtrip_isolated_vertices")
    ctx.judged(key, nontrivial=len(desc[-1]) > 0, sample=sample)


# ------------------------------------------------------------------ graphs
def all_pairs(kind, shape):
    if kind == "simple" or kind == "dag":
        n = shape[0]
        return [(u, v) for u in range(1, n + 1) for v in range(u + 1, n + 1)]
    if kind == "digraph":
        n = shape[0]
        return [(u, v) for u in range(1, n + 1) for v in range(1, n + 1)]
    if kind == "digraph-noloop":
        n = shape[0]
        return [(u, v) for u in range(1, n + 1) for v in range(1, n + 1) if u != v]
    return [(u, v) for u in range(1, shape[0] + 1) for v in range(1, shape[1] + 1)]


def desc_of(gtype, shape, edges):
    if gtype == "bipartite":
        return ("bipartite", shape[0], shape[1], frozenset(edges))
    return (kind_of(gtype), shape[0], frozenset(edges))


def random_desc(r, gtype, big=None):
    if big is None:
        big = r.random() < 0.5
    dens = r.choice([0.0, 0.08, 0.2, 0.5, 0.9, 1.0])
    if gtype == "bipartite":
        if big:
            L = r.randint(0, 13)
            R = r.randint(max(0, 10 - L), 15 - min(L, 5))
        else:
            L, R = r.randint(0, 5), r.randint(0, 5)
        if r.random() < 0.1:
            L, R = (0, R) if r.random() < 0.5 else (L, 0)
        shape = (L, R)
        pairs = all_pairs("bipartite", shape)
    else:
        n = r.randint(10, 15) if big else r.randint(0, 9)
        shape = (n,)
        kind = {"simple": "simple", "dag": "dag", "digraph": "digraph"}[gtype]
        pairs = all_pairs(kind, shape)
        if gtype == "digraph" and r.random() < 0.5:
            pairs = [p for p in pairs if p[0] != p[1]]
    edges = [p for p in pairs if r.random() < dens]
    return desc_of(gtype, shape, edges)


# ------------------------------------------------------------------ round-trip cases
def case_rt_enum(ctx, gtype, shape, fmt, lo, hi, noloop=False):
    """All graphs of the shape whose edge mask lies in [lo, hi), through StringIO."""
    ref.selfcheck()
    kind = "bipartite" if gtype == "bipartite" else ("digraph-noloop" if noloop else gtype)
    pairs = all_pairs(kind, shape)
    r = ctx.rng("enum", gtype, tuple(shape), fmt, lo)
    for mask in range(lo, hi):
        edges = [p for i, p in enumerate(pairs) if (mask >> i) & 1]
        desc = desc_of(gtype, shape, edges)
        order = list(edges)
        r.shuffle(order)
        G = build(desc, order=order)
        stage, st, val, text, fmts = transport(ctx, G, gtype, fmt, "stringio", None, r)
        judge_roundtrip(ctx, desc, gtype, fmt, "stringio", stage, st, val, text=text)


def case_rt_random(ctx, gtype, fmt, channel, rseed, count):
    ref.selfcheck()
    r = ctx.rng("rt", gtype, fmt, channel, rseed)
    with Scratch() as scratch:
        for _ in range(count):
            desc = random_desc(r, gtype)
            name = r.choice(NAMES)
            order = sorted(desc[-1])
            r.shuffle(order)
            complete = (gtype == "bipartite" and len(desc[-1]) == desc[1] * desc[2] and r.random() < 0.5)
            how = r.choice(["add_edge", "add_edge", "refused-batch", "user-class"])
            G = build(desc, name=name, order=order, complete=complete, how=how)
            if complete:
                ctx.count("complete_bipartite_objects")
            elif how != "add_edge":
                ctx.count("graphs_built_by_" + how)
            stage, st, val, text, fmts = transport(ctx, G, gtype, fmt, channel, scratch, r)
            judge_roundtrip(ctx, desc, gtype, fmt, channel, stage, st, val, name=name, text=text, fmts=fmts)
            if channel == "stringio" and st == "ok" and stage == "read" and fmt in ref.READERS:
                # the written text itself, seen by the reference reader (keeps writer and reference honest)
                v = ref.READERS[fmt](text, gtype)
                ctx.count("written_text_checked_by_reference")
                if v != ("graph", desc):
                    ctx.violation("writer:%s:%s:text-denotes-another-graph" % (fmt, gtype),
                                  "%s %s: the written text of %r denotes %r for the reference reader"
                                  % (gtype, fmt, show(desc), v if v[0] != "graph" else show(v[1])), text=text)


def gate_one(ctx, desc, fmt):
    """A digraph written as 'digraph' and read as 'dag': refused exactly when an edge u >= v exists."""
    G = build(desc)
    st, text = write_text(ctx, G, "digraph", fmt)
    if st == "exc":
        ctx.violation("writer:%s:raises:%s" % (fmt, type(text).__name__), "writing %r raised %r" % (show(desc), text))
        return
    st, H = read_text(ctx, text, "dag", fmt)
    cyclic = has_back_edge(desc)
    where = "digraph %r written as %s and read as dag" % (show(desc), fmt)
    lx = lexi(desc) if fmt == "dot" else None
    if st == "exc":
        if not isinstance(H, ValueError):
            ctx.violation(exc_mechanism(fmt, "dag", H, text), "%s: raised %r" % (where, H), text=text)
        elif cyclic:
            ctx.count("dag_gate_cyclic_refused")
        elif lx is not None and has_back_edge(lx):
            ctx.violation(DOT_LEXI, "%s: refused (%s) although every edge goes upwards" % (where, H), text=text)
        else:
            ctx.violation("dag:%s:refuses-acyclic-file" % fmt, "%s: raised %r" % (where, H), text=text)
    else:
        got = observe(H, "dag")
        if cyclic:
            mech = DOT_LEXI if (lx is not None and got == lx and not has_back_edge(lx)) else \
                "dag:%s:accepts-back-edge" % fmt
            ctx.violation(mech, "%s: accepted as %r" % (where, show(got) if got else H), text=text)
        elif got != desc:
            mech = DOT_LEXI if (lx is not None and got == lx) else "roundtrip:%s:dag:edges-differ" % fmt
            ctx.violation(mech, "%s: read back as %r" % (where, show(got) if got else H), text=text)
        else:
            ctx.count("dag_gate_acyclic_accepted")
    ctx.judged(("gate", fmt, desc[1], tuple(sorted(desc[2]))), nontrivial=len(desc[2]) > 0,
               sample={"dag_gate": fmt, "graph": show(desc), "cyclic": cyclic})


def case_dag_gate(ctx, fmt, rseed, count):
    ref.selfcheck()
    r = ctx.rng("gate", fmt, rseed)
    for _ in range(count):
        desc = random_desc(r, "digraph", big=r.random() < 0.4)
        n = desc[1]
        if n >= 2 and r.random() < 0.6:
            # few back edges only: the interesting side of the gate
            fwd = [e for e in desc[2] if e[0] < e[1]]
            k = r.choice([0, 1, 1, 2])
            back = []
            for _ in range(k):
                u = r.randint(1, n)
                back.append((u, r.randint(1, u)))
            desc = ("digraph", n, frozenset(fwd + back))
        gate_one(ctx, desc, fmt)


FIXED = {
    "simple": [("simple", 10, frozenset({(2, 10)})), ("simple", 12, frozenset((i, i + 1) for i in range(1, 12))),
               ("simple", 11, frozenset())],
    "digraph": [("digraph", 10, frozenset({(10, 2)})), ("digraph", 12, frozenset({(3, 3), (12, 1), (2, 11)})),
                ("digraph", 2, frozenset({(1, 1), (1, 2), (2, 1), (2, 2)}))],
    "dag": [("digraph", 10, frozenset({(2, 10)})), ("digraph", 12, frozenset((i, i + 1) for i in range(1, 12)))],
    "bipartite": [("bipartite", 10, 2, frozenset({(10, 1), (2, 2)})), ("bipartite", 2, 11, frozenset({(1, 10), (2, 11), (2, 2)})),
                  ("bipartite", 0, 3, frozenset()), ("bipartite", 3, 0, frozenset()), ("bipartite", 0, 0, frozenset())],
}
FIXED_GATE = [("digraph", 10, frozenset({(10, 2)})), ("digraph", 11, frozenset({(2, 10)})), ("digraph", 3, frozenset({(2, 2)})),
              ("digraph", 3, frozenset({(1, 2), (2, 3), (3, 1)})), ("digraph", 3, frozenset({(1, 3), (2, 3)}))]


def fixed_graphs(ctx):
    """A few small graphs that every run transports, whatever the seed (ten or more vertices, empty sides)."""
    r = ctx.rng("fixed")
    for gtype, descs in FIXED.items():
        for fmt in formats_for(gtype):
            for desc in descs:
                stage, st, val, text, fmts = transport(ctx, build(desc), gtype, fmt, "stringio", None, r)
                judge_roundtrip(ctx, desc, gtype, fmt, "stringio", stage, st, val, text=text)
    for fmt in formats_for("dag"):
        for desc in FIXED_GATE:
            gate_one(ctx, desc, fmt)


# ------------------------------------------------------------------ hostile texts
TEMPLATES = {
    ("kthlist", "simple"): ["c a graph\nc second comment\n5\n1 : 2 3 0\n2 : 1 0\n\n3 : 1 0\nc inner comment\n4 : 0\n5 : 0\n",
                            "4\n1: 2 0\n2: 1 3 0\n3: 2 0", "c\n3\n", "0\n"],
    ("kthlist", "digraph"): ["c a digraph\n4\n1 : 0\n2 : 1 0\n3 : 1 2 0\n4 : 3 1 0\n", "3\n3: 1 2 0\n",
                             "c cyc\n3\n1 : 3 0\n2 : 1 0\n3 : 2 0\n"],
    ("kthlist", "bipartite"): ["c bip\n5\n1: 4 5 0\n2: 4 5 0\n3: 4 5 0\n", "c b\n6\n1 : 3 4 0\n\n2 : 6 0\n", "4\n",
                               "c K\n7\n1 : 5 0\n2 : 6 7 0\n3 : 0\n4 : 5 7 0\n"],
    ("dimacs", "simple"): ["c a graph\nc more\np edge 5 3\ne 1 2\ne 2 3\ne 4 5\n", "p edge 3 0\n", "p edge 4 2\ne 4 1\ne 2 3"],
    ("dimacs", "digraph"): ["c d\np edge 4 4\ne 1 2\ne 2 3\ne 1 4\ne 3 4\n", "c cyc\np edge 3 3\ne 1 2\ne 2 3\ne 3 1\n"],
    ("matrix", "bipartite"): ["2 3\n1 0 1\n0 1 0\n", "# comment\n3 2\n1 1\n0 0\n\n0 1\n", "0 0\n", "2 2 1 0 0 1"],
}
TEMPLATES[("kthlist", "dag")] = TEMPLATES[("kthlist", "digraph")]
TEMPLATES[("dimacs", "dag")] = TEMPLATES[("dimacs", "digraph")]

BAD_TOKENS = ["0", "-1", "x", "1.5", "", "+2", "1_0", "\uff12", "0x1", "1e1", ":", "e", "p", "c", "#", "[", "]",
              "\"", "--", "->", "{", "}", ";", "00", "007"]


def _ints(text):
    out, cur = [], ""
    for ch in text:
        if ch in "0123456789":
            cur += ch
        else:
            if cur:
                out.append(int(cur[:6]))
            cur = ""
    if cur:
        out.append(int(cur[:6]))
    return out


def _pick_line(r, lines, pred=lambda l: True):
    idx = [i for i, l in enumerate(lines) if pred(l)]
    return r.choice(idx) if idx else None


def mutate(r, text, fmt, gtype):
    """One mutation; -> (text, operator name)."""
    lines = text.split("\n")
    nums = _ints(text)
    big = max(2, min((max(nums) if nums else 3), 60))
    ops = ["truncate-chars", "truncate-lines", "delete-line", "duplicate-line", "swap-lines", "blank-line",
           "space-line", "token-replace", "token-replace", "token-insert", "token-delete", "garbage-line", "crlf",
           "non-ascii", "comment-line", "number-change", "number-change", "specific", "specific", "specific", "specific"]
    op = r.choice(ops)
    if op == "truncate-chars":
        return text[:r.randint(0, len(text))], op
    if op == "truncate-lines":
        return "\n".join(lines[:r.randint(0, len(lines))]), op
    if op == "delete-line" and len(lines) > 1:
        del lines[r.randrange(len(lines))]
    elif op == "duplicate-line":
        i = r.randrange(len(lines))
        lines.insert(r.choice([i, i + 1, r.randint(0, len(lines))]), lines[i])
    elif op == "swap-lines" and len(lines) > 2:
        i = r.randrange(len(lines) - 1)
        j = i + 1 if r.random() < 0.6 else r.randrange(len(lines))
        lines[i], lines[j] = lines[j], lines[i]
    elif op == "blank-line":
        lines.insert(r.choice([0, 1, len(lines), r.randint(0, len(lines))]), "")
    elif op == "space-line":
        lines.insert(r.randint(0, len(lines)), r.choice([" ", "\t", "   "]))
    elif op in ("token-replace", "token-insert", "token-delete"):
        i = _pick_line(r, lines, lambda l: l.strip() != "")
        if i is not None:
            toks = lines[i].split(" ")
            j = r.randrange(len(toks))
            new = r.choice(BAD_TOKENS + [str(big + 1), str(big + 7), str(r.randint(1, big + 1))] * 4)
            if op == "token-replace":
                toks[j] = new
            elif op == "token-insert":
                toks.insert(j, new)
            elif len(toks) > 1:
                del toks[j]
            lines[i] = " ".join(toks)
    elif op == "garbage-line":
        lines.insert(r.randint(0, len(lines)), r.choice(["hello world", "e", "p", ":", "1 2 3", "n 1 2", "d 3", "x y z",
                                                         "e 1", "e 1 2 3", "p edge", "0", "1 :", ": 0", "graph [", "]",
                                                         "}", "node [ id 1 ]", "1 -- 2;", "2 -> 1;", "7", "1 0"]))
    elif op == "crlf":
        return text.replace("\n", "\r\n"), op
    elif op == "non-ascii":
        p = r.randint(0, len(text))
        return text[:p] + r.choice(["\u00e9", "\u2028", "\u00a0", "\x0c", "\ufeff", "\x1c"]) + text[p:], op
    elif op == "comment-line":
        c = {"matrix": "#"}.get(fmt, "c")
        lines.insert(r.randint(0, len(lines)), r.choice([c + " a comment", c, c + "omment", c.upper() + " upper", "# hash", "c 5"]))
    elif op == "number-change":
        # change one integer token by a small amount (declared counts, ids, entries)
        cand = [(i, j) for i, l in enumerate(lines) for j, t in enumerate(l.split(" ")) if t.strip(";,").isdigit()]
        if cand:
            i, j = r.choice(cand)
            toks = lines[i].split(" ")
            core = toks[j].strip(";,")
            v = int(core[:6]) + r.choice([-2, -1, 1, 1, 2, 5])
            toks[j] = toks[j].replace(core, str(v))
            lines[i] = " ".join(toks)
    else:
        op = "specific:" + _specific(r, lines, fmt, gtype, big)
    return "\n".join(lines), op


def _specific(r, lines, fmt, gtype, big):
    def insert_after(pred, new):
        i = _pick_line(r, lines, pred)
        lines.insert(len(lines) if i is None else i + 1, new)

    if fmt == "kthlist":
        what = r.choice(["drop-terminator", "second-size", "repeat-vertex", "repeat-vertex", "high-vertex-line",
                         "back-edge", "self-loop", "left-neighbour", "continuation", "decreasing", "zero-vertex-line"])
        rows = [i for i, l in enumerate(lines) if ":" in l and not l.startswith("c")]
        if what == "drop-terminator" and rows:
            i = r.choice(rows)
            if lines[i].rstrip().endswith(" 0"):
                lines[i] = lines[i].rstrip()[:-2]
        elif what == "second-size":
            lines.insert(r.randint(0, len(lines)), str(r.randint(0, big + 1)))
        elif what == "repeat-vertex" and rows:
            i = r.choice(rows)
            left = lines[i].split(":")[0]
            nb = [str(r.randint(max(1, big // 2), big)) for _ in range(r.randint(0, 3))]
            lines.insert(r.choice([i + 1, i + 1, len(lines)]), "%s: %s" % (left, " ".join(nb + ["0"])))
        elif what == "high-vertex-line":
            lines.append("%d : %s0" % (r.randint(max(1, big - 2), big), r.choice(["", "%d " % big, "1 "])))
        elif what == "back-edge":
            v = r.randint(1, big)
            lines.append("%d : %d 0" % (v, r.randint(v, big)))
        elif what == "self-loop":
            v = r.randint(1, big)
            insert_after(lambda l: ":" in l, "%d : %d 0" % (v, v))
        elif what == "left-neighbour" and rows:
            i = r.choice(rows)
            lines[i] = lines[i].replace(":", ": 1", 1)
        elif what == "continuation" and rows:
            i = r.choice(rows)
            a, b = lines[i].split(":", 1)
            toks = b.split()
            k = len(toks) // 2
            lines[i] = "%s: %s" % (a, " ".join(toks[:k]))
            lines.insert(i + 1, " ".join(toks[k:]))
        elif what == "zero-vertex-line":
            lines.insert(r.choice([len(lines), r.randint(1, len(lines))]), r.choice(["0 : 0", "0 : 0", "0: 1 0", "%d : 0" % (big + 1)]))
        elif what == "decreasing" and len(rows) >= 2:
            i, j = sorted(r.sample(rows, 2))
            lines[i], lines[j] = lines[j], lines[i]
        return what
    if fmt == "dimacs":
        what = r.choice(["count-change", "second-p", "p-other-format", "edge-first", "back-edge+count", "self-loop+count",
                         "duplicate-edge+count", "descriptor-line", "shrink-n"])
        pi = _pick_line(r, lines, lambda l: l.startswith("p "))
        toks = lines[pi].split() if pi is not None else []

        def bump(d):
            if len(toks) == 4 and toks[3].isdigit():
                toks[3] = str(int(toks[3]) + d)
                lines[pi] = " ".join(toks)
        if what == "count-change":
            bump(r.choice([-1, 1, 2]))
        elif what == "second-p":
            insert_after(lambda l: True, "p edge %d %d" % (big, r.randint(0, 3)))
        elif what == "p-other-format" and pi is not None:
            lines[pi] = lines[pi].replace("edge", r.choice(["col", "cnf", "edges", "Edge"]))
        elif what == "edge-first":
            lines.insert(0, "e 1 2")
            bump(1)
        elif what == "back-edge+count":
            v = r.randint(1, big)
            lines.append("e %d %d" % (v, r.randint(1, v)))
            bump(1)
        elif what == "self-loop+count":
            v = r.randint(1, big)
            lines.append("e %d %d" % (v, v))
            bump(1)
        elif what == "duplicate-edge+count":
            i = _pick_line(r, lines, lambda l: l.startswith("e "))
            if i is not None:
                t = lines[i].split()
                lines.append(lines[i] if r.random() < 0.5 or len(t) != 3 else "e %s %s" % (t[2], t[1]))
                bump(r.choice([0, 1]))
        elif what == "descriptor-line":
            lines.insert(r.randint(0, len(lines)), r.choice(["n 1 3", "d 2", "x 1 2", "v 1 0.5", "e1 2 3", "edge 1 2", "problem edge 3 0"]))
        elif what == "shrink-n" and len(toks) == 4 and toks[2].isdigit():
            toks[2] = str(max(0, int(toks[2]) - r.randint(1, 2)))
            lines[pi] = " ".join(toks)
        return what
    if fmt == "matrix":
        what = r.choice(["entry-2", "extra-entry", "drop-entry", "dims-change", "hash-comment", "trailing-comment", "reflow",
                         "negative-dim"])
        body = [i for i, l in enumerate(lines) if l.strip() and not l.strip().startswith("#")]
        if what == "entry-2" and len(body) > 1:
            i = r.choice(body[1:])
            t = lines[i].split()
            t[r.randrange(len(t))] = r.choice(["2", "-1", "10", "11"])
            lines[i] = " ".join(t)
        elif what == "extra-entry":
            if body and r.random() < 0.5:
                lines[r.choice(body)] += r.choice([" 0", " 1"])
            else:
                lines.append(r.choice(["0", "1", "0 1 0"]))
        elif what == "drop-entry" and len(body) > 1:
            i = r.choice(body[1:])
            t = lines[i].split()
            del t[r.randrange(len(t))]
            lines[i] = " ".join(t)
        elif what == "dims-change" and body:
            t = lines[body[0]].split()
            if len(t) >= 2 and t[0].isdigit() and t[1].isdigit():
                k = r.randrange(2)
                t[k] = str(max(0, int(t[k]) + r.choice([-1, 1])))
                if r.random() < 0.3:
                    t[0], t[1] = t[1], t[0]
                lines[body[0]] = " ".join(t)
        elif what == "hash-comment":
            lines.insert(r.randint(0, len(lines)), r.choice(["# a comment", "#", "#1 0 1", " # indented"]))
        elif what == "trailing-comment" and body:
            lines[r.choice(body)] += " # note"
        elif what == "reflow":
            toks = " ".join(l for l in lines if not l.strip().startswith("#")).split()
            if r.random() < 0.5:
                lines[:] = [" ".join(toks)]
            else:
                lines[:] = toks
        elif what == "negative-dim" and body:
            t = lines[body[0]].split()
            if t:
                t[r.randrange(min(2, len(t)))] = "-1"
                lines[body[0]] = " ".join(t)
        return what
    if fmt == "gml":
        what = r.choice(["directed-flip", "dup-key", "dup-key", "bipartite-attr", "unknown-endpoint", "dup-node-id",
                         "drop-bracket", "multigraph", "list-id", "string-id", "loop-edge", "back-edge",
                         "scalar-before-block", "stray-quote"])
        if what == "directed-flip":
            i = _pick_line(r, lines, lambda l: "directed" in l)
            if i is not None:
                lines[i] = r.choice(["  directed 0", "", "  directed 2", "  directed \"yes\""])
            else:
                insert_after(lambda l: l.startswith("graph"), "  directed 1")
        elif what == "dup-key":
            i = _pick_line(r, lines, lambda l: any(k in l for k in (" id ", "label", "source", "target", "bipartite", "name")))
            if i is not None:
                lines.insert(i + 1, lines[i] if r.random() < 0.6 else lines[i].rsplit(" ", 1)[0] + " 77")
        elif what == "bipartite-attr":
            i = _pick_line(r, lines, lambda l: "bipartite" in l)
            if i is not None:
                lines[i] = r.choice(["", "    bipartite 2", "    bipartite \"1\"", "    bipartite -1", "    bipartite 0", "    bipartite 1"])
        elif what == "unknown-endpoint":
            i = _pick_line(r, lines, lambda l: "source" in l or "target" in l)
            if i is not None:
                lines[i] = lines[i].rsplit(" ", 1)[0] + " %d" % (big + 50)
        elif what == "dup-node-id":
            i = _pick_line(r, lines, lambda l: l.strip().startswith("id "))
            if i is not None:
                lines[i] = "    id %d" % r.randint(0, 1)
        elif what == "drop-bracket":
            i = _pick_line(r, lines, lambda l: "]" in l or "[" in l)
            if i is not None:
                del lines[i]
        elif what == "multigraph":
            insert_after(lambda l: l.startswith("graph"), "  multigraph 1")
        elif what == "scalar-before-block":
            i = _pick_line(r, lines, lambda l: l.rstrip().endswith("["))
            if i is not None:
                lines[i] = lines[i].rstrip()[:-1] + r.choice(["7 [", "7", "\"x\" [", "1.5 ["])
        elif what == "stray-quote":
            i = _pick_line(r, lines, lambda l: l.strip()[:2] in ("id", "so", "ta", "la", "bi"))
            if i is not None:
                a, b = lines[i].rsplit(" ", 1)
                lines[i] = r.choice(['%s " %s' % (a, b), '%s "%s' % (a, b), '%s %s"' % (a, b)])
        elif what == "list-id":
            i = _pick_line(r, lines, lambda l: l.strip().startswith("id "))
            if i is not None:
                lines.insert(i + 1, lines[i].replace(lines[i].strip(), "id %d" % r.randint(0, 9)))
        elif what == "string-id":
            i = _pick_line(r, lines, lambda l: l.strip().startswith("id "))
            if i is not None:
                lines[i] = "    id \"%s\"" % r.choice(["a", "10", ""])
        elif what in ("loop-edge", "back-edge"):
            i = _pick_line(r, lines, lambda l: l.strip() == "]")
            a = r.randint(0, big)
            b = a if what == "loop-edge" else r.randint(0, a)
            lines.insert(len(lines) - 2 if i is None else max(0, len(lines) - 2),
                         "  edge [\n    source %d\n    target %d\n  ]" % (a, b))
        return what
    if fmt == "dot":
        what = r.choice(["graph-digraph", "arrow", "drop-brace", "no-strict", "bipartite-attr", "alpha-node", "quote",
                         "back-edge", "unknown-node-edge", "attr-garbage"])
        if what == "graph-digraph":
            i = _pick_line(r, lines, lambda l: "graph" in l)
            if i is not None:
                lines[i] = lines[i].replace("digraph", "GRAPH") if "digraph" in lines[i] else lines[i].replace("graph", "digraph")
                lines[i] = lines[i].replace("GRAPH", "graph")
        elif what == "arrow":
            i = _pick_line(r, lines, lambda l: "--" in l or "->" in l)
            if i is not None:
                lines[i] = lines[i].replace("--", "=>").replace("->", "--").replace("=>", "->")
        elif what == "drop-brace":
            i = _pick_line(r, lines, lambda l: "{" in l or "}" in l)
            if i is not None:
                lines[i] = lines[i].replace("{", "").replace("}", "")
        elif what == "no-strict":
            lines[0] = lines[0].replace("strict ", "")
        elif what == "bipartite-attr":
            i = _pick_line(r, lines, lambda l: "bipartite" in l)
            if i is not None:
                lines[i] = r.choice([lines[i].replace("bipartite=0", "bipartite=2").replace("bipartite=1", "bipartite=x"),
                                     lines[i].split("[")[0].strip() + ";", lines[i].replace("bipartite", "side")])
        elif what == "alpha-node":
            i = _pick_line(r, lines, lambda l: l.strip().rstrip(";").isdigit())
            if i is not None:
                lines[i] = r.choice(["a;", "\"1 2\";", "1.5;", "node;", "-3;"])
        elif what == "quote":
            i = _pick_line(r, lines, lambda l: l.strip() != "")
            if i is not None:
                lines[i] = lines[i] + "\""
        elif what == "back-edge":
            a = r.randint(1, big)
            lines.insert(max(1, len(lines) - 2), "%d -> %d;" % (a, r.randint(1, a)))
        elif what == "unknown-node-edge":
            lines.insert(max(1, len(lines) - 2), "%d %s %d;" % (big + 3, r.choice(["--", "->"]), 1))
        elif what == "attr-garbage":
            lines.insert(1, r.choice(["node [shape=box];", "edge [color=red];", "rankdir=LR;", "subgraph s { 1; }",
                                      "graph [name=\"x\"];", "1 [bipartite=0, bipartite=1];"]))
        return what
    return "none"


def base_texts(ctx, r, gtype, fmt, howmany):
    """Valid files to damage: written by the library for seeded graphs, plus the templates."""
    out = list(TEMPLATES.get((fmt, gtype), []))
    src = gtype
    for _ in range(howmany):
        if gtype == "dag" and r.random() < 0.4:
            desc = random_desc(r, "digraph", big=False)     # a digraph file offered as a dag
            src = "digraph"
        else:
            desc = random_desc(r, gtype, big=r.random() < 0.15)
            src = gtype
        if desc[0] != "bipartite" and desc[1] == 0 and r.random() < 0.7:
            continue
        st, text = write_text(ctx, build(desc, name=r.choice(NAMES)), src, fmt)
        if st == "ok":
            out.append(text)
    return out


def judge_text(ctx, text, gtype, fmt, channel, ops, scratch):
    flav = fmt + ("-bipartite" if fmt == "kthlist" and gtype == "bipartite" else "")
    if channel == "stringio":
        st, val = read_text(ctx, text, gtype, fmt)
        seen = text
    else:
        from cnfgen.clitools.graph_args import make_graph_from_spec
        ctx.count("texts_via_command_line_argument")
        p = scratch.path(fmt)
        with open(p, "w", encoding="utf-8", newline="") as f:
            f.write(text)
        with quiet(ctx):
            st, val = ctx.call(make_graph_from_spec, gtype, [p] if channel == "cli-auto" else [fmt, p])
        os.unlink(p)
        seen = text.replace("\r\n", "\n").replace("\r", "\n")     # universal newlines of the text-mode file
    lines = io.StringIO(seen).readlines()
    if any(not l.strip() for l in lines):
        ctx.count("texts_with_blank_line")
    if any(l[:1] in "c#" for l in lines if l.strip()):
        ctx.count("texts_with_comment_line")
    if fmt == "kthlist":
        lefts = [l.split(":")[0].strip() for l in lines if ":" in l and l[:1] != "c"]
        if len(set(lefts)) < len(lefts):
            ctx.count("texts_repeated_vertex_line")
        if all(x.isdigit() for x in lefts) and [int(x) for x in lefts] != sorted(int(x) for x in lefts):
            ctx.count("texts_decreasing_vertex_lines")
    ctx.count("texts:" + flav)
    verdict = ref.READERS[fmt](seen, gtype) if fmt in ref.READERS else ("third-party", "")
    if verdict[0] != "third-party":
        ctx.count("ref_" + verdict[0])
        if verdict[0] == "reject":
            ctx.count("ref_reject:%s:%s" % (fmt, verdict[1]))
    where = "%s text read as %s via %s (mutations %r)" % (fmt, gtype, channel, ops)
    if st == "exc":
        if isinstance(val, ValueError):
            ctx.count("texts_refused_with_ValueError")
        else:
            ctx.violation(exc_mechanism(fmt, gtype, val, seen), "%s: raised %s: %s" % (where, type(val).__name__, val),
                          text=text, reference=verdict[:1] + (str(verdict[1])[:80],))
    else:
        got = observe(val, gtype)
        if got is None:
            ctx.violation("reader:%s:result-is-not-a-%s-graph" % (flav, gtype), "%s: returned %r" % (where, val), text=text)
        else:
            if gtype == "dag":
                ctx.count("dag_results_checked_edgewise")
                if has_back_edge(got):
                    ctx.violation("dag:%s:accepts-back-edge" % fmt, "%s: accepted with edges %r" % (where, sorted(got[2])), text=text)
            if verdict[0] == "reject":
                mech = "reader:%s:accepts:%s" % (flav, verdict[1])
                ctx.violation(mech, "%s: no graph is consistent with the text (%s) but %r was returned"
                              % (where, verdict[1], show(got)), text=text)
            elif verdict[0] == "graph":
                if got != verdict[1]:
                    mech = "reader:%s:accepted-graph-differs-from-text" % flav
                    if flav == "kthlist-bipartite" and ref.kthlist_last_row_wins(seen) == got:
                        mech = "reader:kthlist-bipartite:repeated-vertex-line-replaces-earlier-edges"
                    ctx.violation(mech, "%s: the text denotes %r, the reader returned %r"
                                  % (where, show(verdict[1]), show(got)), text=text)
                else:
                    ctx.count("texts_accepted_as_reference_graph")
            elif verdict[0] == "third-party":
                ctx.count("texts_third_party_accepted")
            else:
                ctx.count("texts_accepted_unjudged")
    ctx.judged(("text", gtype, fmt, seen), nontrivial=any(ch.isdigit() for ch in seen),
               sample={"type": gtype, "format": fmt, "mutations": ops, "text": text[:160],
                       "outcome": "accepted" if st == "ok" else repr(val)[:120]})


# texts that every run reads, whatever the seed: one or two per class of damage named in the design
CORPUS = {
    "kthlist": ["", "\n", "c only a comment\n", "c x\n\n\n", "3\n1 : 2 0\n1 : 3 0\n", "5\n1 : 4 0\n1 : 5 0\n2 : 4 0\n",
                "3\n2 : 3 0\n1 : 3 0\n", "3\n\n1 : 2 0\n\n", "3\n1 : 2\n", "3\n1 : 4 0\n", "3\n0 : 0\n", "2\n2\n", "x\n",
                "3\n1 : 1 0\n", "3\n2 : 1 0\n3 : 2 0\n", "3\n1 : 3 0\n3 : 1 0\n", "-1\n", "3\n1 : 2 0 \n", "3\r\n1 : 2 0\r\n",
                "1 : 2 0\n3\n", "3\n1 : 2 0 3 0\n", "4\n1 : 3 0\n3 : 4 0\n", "12\n12 : 1 10 0\n2 : 1 0\n",
                # comments holding a character that str.splitlines() takes for a line end and a text file does not
                "3\nc x\x0c1 : 2 0\n2 : 0\n3 : 0\n", "3\nc x\u20281 : 2 3 0\n", "3\n1 : 2 0\nc \x852 : 3 0\n",
                "c about\x0b3\n3\n1 : 3 0\n", "4\n1 : 2 0\nc a\x1c3 : 4 0\nc b\x1d2 : 3 0\nc c\x1e1 : 4 0\n", "3\nc \u20291 : 3 0\n1 : 2 0\n"],
    "dimacs": ["", "\n", "p edge 3 1\n\ne 1 2\n", "\np edge 2 0\n", "p edge 2 1\ne 1 2\n\n", "c only\n", "p edge 3 2\ne 1 2\n",
               "p edge 3 1\ne 1 4\n", "e 1 2\np edge 3 1\n", "p edge 3 1\ne 2 1\n", "p edge 3 1\ne 2 2\n", "p edge 3 1\ne 1 x\n",
               "p edge 3\n", "p col 3 1\ne 1 2\n", "p edge 3 1\np edge 3 1\ne 1 2\n", "p edge 3 2\ne 1 2\ne 2 1\n",
               "p edge 3 1\ne 1 2 3\n", "   \np edge 1 0\n", "p edge 12 2\ne 2 10\ne 10 11\n", "p edge 3 1\r\ne 1 2\r\n",
               "c x\x0cp edge 2 0\np edge 3 1\ne 1 2\n", "p edge 3 1\nc y\u2028e 2 3\ne 1 2\n", "p edge 3 1\ne 1 2\nc \x85e 1 3\n"],
    "matrix": ["", "\n", "2 2\n1 0\n0 1\n", "2 2\n1 0\n0\n", "2 2\n1 0\n0 1 1\n", "2 2\n1 0\n0 2\n", "2 2\n1 0\n0 x\n", "-1 2\n",
               "2\n", "0 0\n", "# c\n1 1\n\n1\n", "1 1\n1 # t\n", "2 2 1 0 0 1 0\n", "1 12\n0 0 0 0 0 0 0 0 0 1 0 1\n"],
    "gml": ["", "graph [\n]\n", "graph [\n  node [\n    id 0\n    id 0\n  ]\n]\n", "graph 3\n",
            "graph [\n  node 7 [\n    id 0\n  ]\n]\n", "graph [\n  node [\n    id 0\n  ]\n  edge 3\n]\n",
            "graph [\n  node [\n    id 0\n  ]\n]\n", "graph [\n  directed 1\n  node [\n    id 0\n  ]\n]\n",
            "graph [\n  node [\n    id 0\n    label \" 4\n\n", "target \" 4\n\n",
            "graph [\n  directed 1\n  node [\n    id 0\n  ]\n  node [\n    id 1\n  ]\n  edge [\n    source 1\n    target 0\n  ]\n]\n",
            "graph [\n  node [\n    id 0\n    bipartite 0\n  ]\n  node [\n    id 1\n    bipartite 0\n  ]\n  edge [\n    source 0\n    target 1\n  ]\n]\n",
            "graph [\n  node [\n    id 0\n    bipartite 2\n  ]\n]\n",
            "graph [\n  multigraph 1\n  node [\n    id 0\n  ]\n  node [\n    id 1\n  ]\n  edge [\n    source 0\n    target 1\n  ]\n"
            "  edge [\n    source 0\n    target 1\n  ]\n]\n",
            "graph [\n  node [\n    id 0\n  ]\n  edge [\n    source 0\n    target 5\n  ]\n]\n",
            "graph [\n  node [\n    id 0\n  ]\n  node [\n    id 0\n  ]\n]\n", "graph [ node [ id 0 label \"\u00e9\" ] ]\n"],
    "dot": ["", "graph {\n}\n", "strict digraph {\n1;\n2;\n2 -> 1;\n}\n", "strict graph {\n1;\n2;\n1 -- 2;\n",
            "strict graph {\na;\nb;\na -- b;\n}\n", "digraph {\n1 -> 2;\n1 -> 2;\n}\n",
            "strict graph {\n1 [bipartite=0];\n2 [bipartite=0];\n1 -- 2;\n}\n", "strict graph {\n1 [bipartite=0];\n2;\n}\n",
            "not a dot file", "strict graph {\n1 -- ;\n}\n"],
}


def case_fixed(ctx):
    """Texts and graphs that every run sees, whatever the seed."""
    ref.selfcheck()
    fixed_graphs(ctx)
    with Scratch() as scratch:
        for gtype in ("simple", "digraph", "dag", "bipartite"):
            for fmt in formats_for(gtype):
                for text in CORPUS[fmt]:
                    ctx.count("corpus_texts")
                    judge_text(ctx, text, gtype, fmt, "stringio", ["corpus"], scratch)


def case_undecodable_files(ctx, rseed):
    """Files that are no text at all: a valid graph file with one byte that is invalid UTF-8 (0xff, a lone 0xc3, a lone
    0x80) put inside a number of a data line.  Whatever decoding a reader uses, that line is not made of numbers any
    more: library (by file name) and command line must refuse the file with ValueError, never build a graph from the
    bytes around the damage."""
    from cnfgen.clitools.graph_args import make_graph_from_spec
    g = G_()
    ref.selfcheck()
    r = ctx.rng("undecodable", rseed)
    with Scratch() as scratch:
        for gtype in ("simple", "digraph", "dag", "bipartite"):
            for fmt in formats_for(gtype):
                if fmt == "dot" and not g.has_dot_library():
                    continue
                for text in base_texts(ctx, r, gtype, fmt, 3)[:5]:
                    raw = text.encode("utf-8")
                    # positions between two digits of a line that is not a comment
                    spots, start = [], 0
                    for line in raw.split(b"\n"):
                        if not line.lstrip().startswith((b"c", b"#", b"*")):
                            spots += [start + i for i in range(1, len(line)) if line[i - 1:i].isdigit() and line[i:i + 1].isdigit()]
                        start += len(line) + 1
                    if not spots:
                        continue
                    for bad in (b"\xff", b"\xc3", b"\x80"):
                        pos = r.choice(spots)
                        damaged = raw[:pos] + bad + raw[pos:]
                        p = scratch.path(fmt)
                        with open(p, "wb") as f:
                            f.write(damaged)
                        for how in ("library", "command line"):
                            with quiet(ctx):
                                if how == "library":
                                    st, val = ctx.call(g.readGraph, p, gtype, fmt)
                                else:
                                    st, val = ctx.call(make_graph_from_spec, gtype, [fmt, p])
                            ctx.count("undecodable_files_offered")
                            where = "%s file with the byte %r between two digits of a data line, read as %s through the %s" % (fmt, bad, gtype, how)
                            if st == "exc":
                                if isinstance(val, ValueError):
                                    ctx.count("texts_refused_with_ValueError")
                                else:
                                    ctx.violation(exc_mechanism(fmt, gtype, val, text), "%s: raised %s: %s" % (where, type(val).__name__, val))
                            else:
                                ctx.violation("reader:%s:accepts-undecodable-bytes" % fmt, "%s: a graph was returned (%r)"
                                              % (where, show(observe(val, gtype)) if observe(val, gtype) else val), text=repr(damaged[:300]))
                            ctx.judged(("undecodable", gtype, fmt, bad.hex(), how, pos), nontrivial=True, sample={"format": fmt, "graph type": gtype, "via": how})
                        os.unlink(p)


def case_dot_spellings(ctx, rseed):
    """dot files whose vertex names are all integer literals, some of them different spellings of one integer
    ('1' and '01', '7' and '007', '10' and '1_0'): different names are different vertices.  Either the file is
    refused (ValueError) or the graph has one vertex per name and one edge per line of the file."""
    g = G_()
    if not g.has_dot_library():
        ctx.count("dot_library_missing")
        return
    r = ctx.rng("dotspell", rseed)
    groups = [["1", "01"], ["7", "007", "07"], ["10", "1_0"], ["2", "02", "3"], ["4", "04", "5", "05"], ["0", "00", "1"], ["12", "012", "3", "03"]]
    for names in groups:
        for gtype in ("simple", "digraph", "dag", "bipartite"):
            names_ = list(names)
            r.shuffle(names_)
            extra = [str(x) for x in r.sample(range(20, 40), r.randint(0, 2))]
            vs = names_ + extra
            pairs = [(a, b) for i, a in enumerate(vs) for b in vs[i + 1:]]
            chosen = r.sample(pairs, min(len(pairs), r.randint(1, 4)))
            if gtype == "bipartite":
                left = vs[: max(1, len(vs) // 2)]
                right = vs[len(left):]
                if not right:
                    continue
                chosen = [(a, b) for a in left for b in right if r.random() < 0.6] or [(left[0], right[0])]
                body = "".join('"%s" [bipartite=%d];\n' % (v, 0 if v in left else 1) for v in vs)
                body += "".join('"%s" -- "%s";\n' % e for e in chosen)
                text = "strict graph {\n%s}\n" % body
            elif gtype == "simple":
                text = "strict graph {\n%s%s}\n" % ("".join('"%s";\n' % v for v in vs), "".join('"%s" -- "%s";\n' % e for e in chosen))
            else:
                text = "strict digraph {\n%s%s}\n" % ("".join('"%s";\n' % v for v in vs), "".join('"%s" -> "%s";\n' % e for e in chosen))
            for quoted in (True, False):
                t = text if quoted else text.replace('"', "")
                st, val = read_text(ctx, t, gtype, "dot")
                ctx.count("dot_texts_with_two_spellings_of_an_integer")
                where = "dot text read as %s with vertex names %r" % (gtype, vs)
                if st == "exc":
                    if not isinstance(val, ValueError):
                        ctx.violation(exc_mechanism("dot", gtype, val, t), "%s: raised %s: %s" % (where, type(val).__name__, val), text=t)
                    else:
                        ctx.count("texts_refused_with_ValueError")
                    continue
                got = observe(val, gtype)
                if got is None:
                    ctx.violation("reader:dot:result-is-not-a-%s-graph" % gtype, "%s: returned %r" % (where, val), text=t)
                    continue
                nv = (got[1] + got[2]) if gtype == "bipartite" else got[1]
                ne = len(got[-1])
                if nv != len(vs) or ne != len(set(chosen)):
                    ctx.violation("reader:dot:names-spelling-one-integer-merged", "%s: the text declares %d vertices and %d edges, the "
                                  "reader returned %d vertices and %d edges" % (where, len(vs), len(set(chosen)), nv, ne), text=t)
                ctx.judged(("dotspell", gtype, tuple(vs), quoted), nontrivial=True, sample={"gtype": gtype, "names": vs})


def case_texts(ctx, gtype, fmt, rseed, count, channel="stringio"):
    ref.selfcheck()
    r = ctx.rng("texts", gtype, fmt, rseed, channel)
    bases = base_texts(ctx, r, gtype, fmt, 6)
    with Scratch() as scratch:
        for b in bases[:3]:
            judge_text(ctx, b, gtype, fmt, channel, [], scratch)       # the valid files themselves
        for _ in range(count):
            text = r.choice(bases)
            ops = []
            for _ in range(r.choice([1, 1, 1, 1, 2, 2, 3])):
                text, op = mutate(r, text, fmt, gtype)
                ops.append(op)
            if len(text) > 4000 or any(v > 5000 for v in _ints(text)):
                continue                                               # keep allocations small
            judge_text(ctx, text, gtype, fmt, channel, ops, scratch)


# ------------------------------------------------------------------ workload
def case_rt_large(ctx, gtype, fmt, rseed):
    """Graphs whose files run to tens of kilobytes (dense on ~60 vertices, sparse on several hundred)."""
    ref.selfcheck()
    r = ctx.rng("rtlarge", gtype, fmt, rseed)
    shapes = [(60, 0.6), (450, 0.006), (1100, 0.002)] if fmt != "dot" else [(40, 0.3)]
    for n, dens in shapes:
        if gtype == "bipartite":
            L = n // 2
            shape = (L, n - L)
            edges = [(u, v) for u in range(1, L + 1) for v in range(1, n - L + 1) if r.random() < dens]
        else:
            shape = (n,)
            if gtype == "digraph":
                edges = [(u, v) for u in range(1, n + 1) for v in range(1, n + 1) if u != v and r.random() < dens / 2]
            else:
                edges = [(u, v) for u in range(1, n + 1) for v in range(u + 1, n + 1) if r.random() < dens]
        desc = desc_of(gtype, shape, edges)
        order = list(edges)
        r.shuffle(order)
        G = build(desc, order=order)
        with Scratch() as scratch:
            for channel in ("stringio", "path"):
                stage, st, val, text, fmts = transport(ctx, G, gtype, fmt, channel, scratch, r)
                ctx.count("large_graph_roundtrips")
                if text is not None:
                    ctx.count("large_graph_file_chars", len(text))
                judge_roundtrip(ctx, desc, gtype, fmt, channel, stage, st, val, text=text, fmts=fmts)


def case_size_sweep(ctx, gtype, fmt, sizes):
    """Sparse graphs of every order in a range (a fast path may begin at any unremarkable size): a path with a few chords
    and an isolated last vertex, written and read back."""
    ref.selfcheck()
    r = ctx.rng("rtsweep", gtype, fmt, tuple(sizes[:2]))
    with Scratch() as scratch:
        for n in sizes:
            if gtype == "bipartite":
                L = n // 2
                shape = (L, n - L)
                edges = {(u, min(n - L, u)) for u in range(1, L + 1) if n - L >= 1} | {(u, 1 + (u * 3) % max(1, n - L)) for u in range(1, L + 1) if n - L >= 1}
            else:
                shape = (n,)
                edges = {(u, u + 1) for u in range(1, n - 1)} | {(u, min(n - 1, u + 5)) for u in range(1, n - 6, 4)}
                edges = {(u, v) for (u, v) in edges if u < v}
            desc = desc_of(gtype, shape, sorted(edges))
            order = sorted(edges)
            r.shuffle(order)
            G = build(desc, order=order)
            stage, st, val, text, fmts = transport(ctx, G, gtype, fmt, "stringio", scratch, r)
            ctx.count("size_sweep_roundtrips")
            judge_roundtrip(ctx, desc, gtype, fmt, "stringio", stage, st, val, text=text, fmts=fmts)


def case_huge_sparse(ctx, gtype):
    """Graphs with more than 2^20 vertices and a handful of edges (among them pairs that differ by 2^20 in one endpoint,
    which collide in any packed 20-bit representation): written and read back in the formats that stay small."""
    g = G_()
    n = (1 << 20) + 8
    with Scratch() as scratch:
        if gtype == "bipartite":
            shape = (n, 3)
            edges = [(5, 2), ((1 << 20) + 5, 1), (n, 3), (1, 1), ((1 << 20) + 1, 2), (1, 3)]
            fmts = ("kthlist", "matrix")
        else:
            shape = (n,)
            edges = [(5, (1 << 20) + 6), (4, 5), ((1 << 20) + 5, n), (1, n), (2, 3)]
            fmts = ("kthlist", "dimacs")
        desc = desc_of(gtype, shape, edges)
        G = build(desc, order=list(reversed(edges)))
        for fmt in fmts:
            stage, st, val, text, f2 = transport(ctx, G, gtype, fmt, "stringio", scratch, ctx.rng("huge", gtype, fmt))
            ctx.count("huge_sparse_roundtrips")
            judge_roundtrip(ctx, desc, gtype, fmt, "stringio", stage, st, val, text=text, fmts=f2)


LOCALE_SCRIPT = r"""
import json, os, sys, random
sys.path.insert(0, sys.argv[1])
import warnings; warnings.simplefilter("ignore")
from cnfgen.graphs import Graph, DirectedGraph, BipartiteGraph, readGraph, writeGraph, has_dot_library
tmp, seed = sys.argv[2], int(sys.argv[3])
r = random.Random(seed)
names = ["plain", "caf\u00e9 graph", "\u0433\u0440\u0430\u0444", "\u56fe 7", "na\u00efve \u2014 dash", "\u00fc"]
out = []
for gtype, fmts in (("simple", ["kthlist", "gml", "dimacs", "dot"]), ("dag", ["kthlist", "gml", "dimacs", "dot"]),
                    ("digraph", ["kthlist", "gml", "dimacs", "dot"]), ("bipartite", ["kthlist", "gml", "matrix", "dot"])):
    for fmt in fmts:
        if fmt == "dot" and not has_dot_library():
            continue
        for name in names:
            if gtype == "simple":
                G = Graph(5, name=name); E = [(1, 2), (2, 3), (1, 5)]
            elif gtype == "bipartite":
                G = BipartiteGraph(3, 4, name=name); E = [(1, 1), (2, 4), (3, 2), (1, 3)]
            else:
                G = DirectedGraph(5, name=name); E = [(1, 2), (2, 3), (1, 5), (4, 5)]
            for e in E:
                G.add_edge(*e)
            path = os.path.join(tmp, "g%d.%s" % (len(out), fmt))
            rec = {"gtype": gtype, "fmt": fmt, "name": name, "how": "path"}
            try:
                writeGraph(G, path, gtype, fmt)
                H = readGraph(path, gtype, fmt)
                rec["status"] = "ok"
                rec["edges_equal"] = sorted(map(tuple, H.edges())) == sorted(E)
                rec["vertices_equal"] = H.number_of_vertices() == G.number_of_vertices()
            except Exception as e:
                rec["status"] = "exc"
                rec["exc"] = type(e).__name__ + ": " + str(e)[:200]
            out.append(rec)
sys.stdout.write(json.dumps(out))
"""


def case_locale(ctx, rseed):
    """Named files written and read back by an interpreter whose default text encoding is not UTF-8 (LC_ALL=C,
    UTF-8 mode off), for graphs whose names are not ASCII: the same graphs must come back as under UTF-8."""
    import json
    import subprocess
    from .. import REPO
    with Scratch() as scratch:
        script = os.path.join(scratch.dir, "locale_roundtrip.py")
        with open(script, "w", encoding="utf-8") as f:
            f.write(LOCALE_SCRIPT)
        tmpdir = os.path.dirname(script)
        envs = {"utf8": dict(os.environ, PYTHONUTF8="1"),
                "ascii": dict(os.environ, LC_ALL="C", LANG="C", PYTHONUTF8="0", PYTHONCOERCECLOCALE="0"),
                "latin1": dict(os.environ, LC_ALL="C", LANG="C", PYTHONUTF8="0", PYTHONCOERCECLOCALE="0", PYTHONIOENCODING="latin-1")}
        results = {}
        for tag, env in envs.items():
            env.pop("PYTHONPATH", None)
            try:
                p = subprocess.run([sys.executable, script, REPO, tmpdir, str(rseed)], env=env, capture_output=True, text=True, timeout=300)
            except subprocess.TimeoutExpired:
                ctx.problems.append({"kind": "spawn-failed", "case": ctx.case, "traceback": "locale script timed out"})
                return
            if p.returncode != 0:
                ctx.problems.append({"kind": "harness-error", "case": ctx.case, "traceback": "locale script (%s) failed: %s" % (tag, p.stderr[-600:])})
                return
            results[tag] = json.loads(p.stdout)
            ctx.count("locale_processes")
        for tag in ("ascii", "latin1"):
            for rec in results[tag]:
                ctx.count("locale_roundtrips")
                where = "writeGraph/readGraph by file name, %s %s, graph named %r, interpreter with %s default encoding" % (
                    rec["gtype"], rec["fmt"], rec["name"], tag)
                if rec["status"] != "ok":
                    ctx.violation("roundtrip:%s:%s:locale:raises" % (rec["fmt"], rec["gtype"]), "%s: %s" % (where, rec["exc"]))
                elif not (rec["edges_equal"] and rec["vertices_equal"]):
                    ctx.violation("roundtrip:%s:%s:locale:graph-differs" % (rec["fmt"], rec["gtype"]), "%s: another graph came back" % where)
                ctx.judged(("locale", tag, rec["gtype"], rec["fmt"], rec["name"]), nontrivial=not rec["name"].isascii(),
                           sample={"gtype": rec["gtype"], "format": rec["fmt"], "name": rec["name"], "encoding": tag})
        for rec in results["utf8"]:
            if rec["status"] != "ok" or not (rec["edges_equal"] and rec["vertices_equal"]):
                ctx.violation("roundtrip:%s:%s:path:non-ascii-name" % (rec["fmt"], rec["gtype"]), "under UTF-8: %r" % (rec,))


def workload(tier, seed):
    quick = tier == "quick"
    TYPES = ("simple", "digraph", "dag", "bipartite")
    yield "huge_sparse", {"gtype": "bipartite"}
    yield "huge_sparse", {"gtype": "simple"}
    yield "locale", {"rseed": seed}
    yield "dot_spellings", {"rseed": seed}
    yield "undecodable_files", {"rseed": seed}
    for gtype in ("simple", "dag", "digraph", "bipartite"):
        for fmt in {"simple": ["kthlist", "gml", "dimacs"], "digraph": ["kthlist", "gml", "dimacs"], "dag": ["kthlist", "gml", "dimacs"],
                    "bipartite": ["kthlist", "gml", "matrix"]}[gtype]:
            sweep = list(range(seed % 5, 420, 5)) if quick else list(range(0, 1300))
            if fmt == "matrix":
                sweep = [n for n in sweep if n <= 300]
            for i in range(0, len(sweep), 45):
                yield "size_sweep", {"gtype": gtype, "fmt": fmt, "sizes": sweep[i:i + 45]}
    for gtype in TYPES:
        for fmt in {"simple": ["kthlist", "gml", "dimacs"], "digraph": ["kthlist", "gml", "dimacs"], "dag": ["kthlist", "gml", "dimacs"],
                    "bipartite": ["kthlist", "gml", "matrix"]}[gtype] + ([] if quick else ["dot"]):
            for b in range(1 if quick else 3):
                yield "rt_large", {"gtype": gtype, "fmt": fmt, "rseed": seed * 10 + b}
    FORMATS = {"simple": ["kthlist", "gml", "dot", "dimacs"], "digraph": ["kthlist", "gml", "dot", "dimacs"],
               "dag": ["kthlist", "gml", "dot", "dimacs"], "bipartite": ["kthlist", "gml", "dot", "matrix"]}
    # fixed witnesses of every class of damage first (small replay files), independent of the seed
    yield "fixed", {}
    # enumerated sub-space (independent of the seed)
    for gtype in TYPES:
        for fmt in FORMATS[gtype]:
            chunk = 32 if fmt == "dot" else 256
            shapes = []
            if gtype in ("simple", "dag"):
                shapes = [((n,), n * (n - 1) // 2, False) for n in range(0, 5)]
            elif gtype == "digraph":
                shapes = [((n,), n * n, False) for n in range(0, 4)]
                if not quick and fmt != "dot":
                    shapes.append(((4,), 12, True))
            else:
                shapes = [((L, R), L * R, False) for L in range(0, 5) for R in range(0, 5 - L)]
            for shape, bits, noloop in shapes:
                total = 1 << bits
                for lo in range(0, total, chunk):
                    args = {"gtype": gtype, "shape": list(shape), "fmt": fmt, "lo": lo, "hi": min(total, lo + chunk)}
                    if noloop:
                        args["noloop"] = True
                    yield "rt_enum", args
    # seeded round trips through every channel
    for gtype in TYPES:
        for fmt in FORMATS[gtype]:
            slow = fmt == "dot"
            for channel in CHANNELS:
                if channel == "cli-main" and gtype == "digraph":
                    continue                      # no command takes a general digraph
                if channel == "stringio":
                    batches, count = (2, 40) if quick else (30, 60)
                elif channel == "cli-main":
                    batches, count = (1, 4) if quick else (6, 10)
                else:
                    batches, count = (1, 12) if quick else (8, 30)
                if slow:
                    count = max(3, count // 3)
                for b in range(batches):
                    yield "rt_random", {"gtype": gtype, "fmt": fmt, "channel": channel,
                                        "rseed": seed * 1000 + b, "count": count}
    # dag gate
    for fmt in FORMATS["dag"]:
        batches, count = (2, 60) if quick else (20, 150)
        if fmt == "dot":
            count //= 5
        for b in range(batches):
            yield "dag_gate", {"fmt": fmt, "rseed": seed * 1000 + b, "count": count}
    # hostile texts
    for gtype in TYPES:
        for fmt in FORMATS[gtype]:
            if fmt == "dot":
                batches, count = (2, 25) if quick else (24, 80)
            elif fmt == "gml":
                batches, count = (2, 120) if quick else (24, 500)
            else:
                batches, count = (3, 400) if quick else (40, 1500)
            for b in range(batches):
                yield "texts", {"gtype": gtype, "fmt": fmt, "rseed": seed * 1000 + b, "count": count}
            yield "texts", {"gtype": gtype, "fmt": fmt, "rseed": seed * 1000 + 500,
                            "count": (10 if fmt == "dot" else 60) if quick else (60 if fmt == "dot" else 400),
                            "channel": "cli-auto" if (seed + len(fmt)) % 2 else "cli-fmt"}

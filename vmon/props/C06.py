"""C06 -- DIMACS output round-trips and the DIMACS reader never misreads.

Two monitors around the real writer and reader:

* writer: every produced text is taken apart line by line by a strict reference
  scanner (vmon.refmodels.c06_dimacs.scan_output): each line has to be a comment,
  the single problem line stating the true counts, or the next clause of the
  formula that was written; then the text is read back through the real reader
  (StringIO, path, open file, stdin) and compared with the formula.
* reader: arbitrary texts (writer-shaped, mutated, grammar generated, junk) are
  classified by the reference reader (classify): MUST-ACCEPT / MUST-REJECT /
  EITHER / UNKNOWN; the real reader may only answer with a formula or ValueError,
  and what it accepts has to be what the text denotes.
"""
import gc
import hashlib
import io
import os
import shutil
import sys
import tempfile

from ..refmodels import c06_dimacs as ref

PYTHON_O_STRIDE = {"quick": 4, "thorough": 2}      # every n-th case is repeated in an interpreter started with -O
RULE = ("writer: hand-built CNFs (0..40 variables, empty formula, empty clauses, unused variables, repeated/"
        "opposite literals, classes CNF/CNFio, built through the constructor / add_clause / add_clauses_from) with "
        "header keys/values and variable names from a hostile alphabet (tab, NUL, ESC, non-ASCII, BOM, VT/FF/NEL/LS, "
        "'%', 'p cnf 1 1', 'c', empty, format braces, 300 characters, non-strings; a separate stream with LF/CR/CRLF "
        "inside them), 61 family command lines alone and with 1 (quick) / 4 (thorough) light transformation chains, "
        "10 small families x 19 chains, graph names read from kthlist files, hostile input file names; each formula "
        "through header x varnames (4 combinations) and the routes to_dimacs / to_file(StringIO | path | open file | "
        "stdout | misleading extension + fileformat) / cnfgen [-q|-v|--varnames|-o] / kthlist2pebbling, read back "
        "through from_file(StringIO | path | open file | stdin), `cnfgen -q dimacs`, `cnfshuffle -p -v -c`.  "
        "reader: writer-shaped texts and 45 kinds of mutation of them (truncation, line drop/duplicate/swap/join/"
        "split, token -> garbage / 0 / n+1 / -n-1 / 40 and 5000 digits / odd integer, problem line moved / doubled / "
        "miscounted / malformed, CRLF, CR, blank and comment lines, missing final 0, inserted and deleted characters; "
        "a quarter mutated twice), grammar-generated line sequences, character junk, undecodable bytes, through "
        "from_file(StringIO) and in turn path / open file / stdin / the two command line tools.  One evaluation = one "
        "text through one route judged against the reference; distinct = (route, flags, digest of the text [, family]); "
        "trivial = formula without clauses (writer) / text without a non-blank line (reader).")
ASSUMPTIONS = [
    "the reference scanner/reader vmon.refmodels.c06_dimacs (self-checked on 30 fixed texts incl. the doctest "
    "examples of cnfio.py at the start of every case; cross-checked in every round trip: a clean writer output "
    "must be classified as denoting the written formula, otherwise the run is a harness error)",
    "a line is a comment iff its first character is 'c'; LF, CRLF and CR end a line (what every text-mode "
    "consumer sees); VT/FF/FS/GS/RS/NEL/LS/PS are not treated as line ends",
    "clauses are compared as literal sequences (cnfgen stores clauses as lists)",
    "texts on which tokenisers legitimately differ (lone CR, non-ASCII/control characters outside comments, "
    "1_0, conflicting problem lines that each fit the clauses, > 4000 digits) only have to give ValueError or an internally consistent formula",
    "only writer-shaped texts are MUST-ACCEPT: the statement lets the reader refuse any other text with ValueError",
    "the formula written by a command line is observed by tapping cnfio.to_dimacs_file (no assumption on seeds)",
]
REQUIRED = [
    "writer_outputs_judged", "roundtrips_equal", "write_route:to_dimacs", "write_route:stringio",
    "write_route:path", "write_route:fileobj", "write_route:stdout", "write_route:ext+fileformat",
    "write_route:cli-stdout", "write_route:cli-outfile", "write_route:kthlist2pebbling",
    "read_route:stringio", "read_route:path", "read_route:fileobj", "read_route:stdin",
    "read_route:cli-cnfgen-dimacs", "read_route:cli-cnfshuffle",
    "combo:header", "combo:varnames", "combo:header+varnames", "combo:bare",
    "formula:empty", "formula:empty-clause", "formula:unused-variables", "formula:family", "formula:chain",
    "formula:named-variables", "header:unusual-characters", "header:line-break", "names:line-break",
    "oracle_crosschecks", "class:accept", "class:either", "class:unknown",
    "class:reject:no-problem-line", "class:reject:bad-problem-line", "class:reject:garbage-token",
    "class:reject:literal-out-of-range", "class:reject:unterminated-clause",
    "class:reject:clause-count-mismatch", "reader_accepted", "reader_refused_with_ValueError",
    "undecodable_bytes_refused", "literal_at_bound_accepted", "cli_reader_accepts", "cli_reader_refusals",
    "big_texts", "history_exports",
]
CASE_TIMEOUT = {"quick": 120, "thorough": 600}

M_HEADER = "dimacs-writer:header-text-with-line-break-leaves-comment-block"
M_NAMES = "dimacs-writer:variable-name-with-line-break-leaves-comment-block"


# ---------------------------------------------------------------------------
# small helpers
# ---------------------------------------------------------------------------
def digest(s):
    return hashlib.blake2b(s.encode("utf-8", "surrogatepass"), digest_size=8).hexdigest()


def short(s, k=160):
    return s if len(s) <= k else s[:k] + "...(%d chars)" % len(s)


def has_break(x):
    s = x if isinstance(x, str) else str(x)
    return "\n" in s or "\r" in s


class Scratch:
    def __enter__(self):
        self.dir = tempfile.mkdtemp(prefix="vmon-c06-", dir=os.environ.get("TMPDIR", "/tmp"))
        self.k = 0
        return self

    def path(self, ext=".cnf"):
        self.k += 1
        return os.path.join(self.dir, "f%d%s" % (self.k, ext))

    def __exit__(self, *exc):
        shutil.rmtree(self.dir, ignore_errors=True)


def cnf_classes():
    from cnfgen.formula.cnf import CNF
    from cnfgen.formula.cnfio import CNFio
    return {"CNF": CNF, "CNFio": CNFio}


class Snap:
    """What was asked to be written: taken from the formula object before the writer runs."""

    def __init__(self, F):
        self.n = F.number_of_variables()
        self.clauses = [list(c) for c in F]
        self.header = [(k, v) for k, v in F.header.items()]
        try:
            self.labels = list(F.all_variable_labels())
        except Exception as e:      # judged by C11; here only used for attribution
            self.labels = ["<labels raised %r>" % e]
        self.sane = all(isinstance(l, int) and not isinstance(l, bool) and 1 <= abs(l) <= self.n
                        for c in self.clauses for l in c)


# ---------------------------------------------------------------------------
# the two oracles
# ---------------------------------------------------------------------------
def judge_output(ctx, text, snap, hdr, vn, route, label):
    """A text produced by the writer for `snap` (header=hdr, varnames=vn).  Returns True when the
    layout is clean (so that reading it back has to reproduce the formula)."""
    ctx.count("writer_outputs_judged")
    ctx.count("write_route:" + route)
    ctx.count("combo:" + ("header+varnames" if hdr and vn else "header" if hdr else "varnames" if vn else "bare"))
    lay = ref.scan_output(text)
    clean = True
    what = "%s [%s header=%s varnames=%s]" % (label, route, hdr, vn)
    if lay.offending:
        clean = False
        causes = []
        if hdr and any(has_break(k) or has_break(v) for k, v in snap.header):
            causes.append(M_HEADER)
        if vn and any(has_break(l) for l in snap.labels):
            causes.append(M_NAMES)
        no, kind, line = lay.offending[0]
        if len(causes) == 1:
            ctx.violation(causes[0], "%s: output line %d (%s) %r is neither a comment, the problem line nor a "
                          "clause" % (what, no, kind, short(line, 80)), output=short(text, 600),
                          header=[(repr(k), repr(v)) for k, v in snap.header if has_break(k) or has_break(v)][:3],
                          names=[repr(l) for l in snap.labels if has_break(l)][:3])
        elif len(causes) == 2:
            ctx.count("broken_output_with_two_candidate_causes")     # each cause is judged alone in another combination
        else:
            ctx.violation("dimacs-writer:non-comment-line:" + kind,
                          "%s: output line %d %r is neither a comment, the problem line nor a clause"
                          % (what, no, short(line, 80)), output=short(text, 600))
    if len(lay.problems) != 1:
        if clean:
            ctx.violation("dimacs-writer:problem-line-missing", "%s: %d problem lines" % (what, len(lay.problems)),
                          output=short(text, 600))
        clean = False
    else:
        _, n, m = lay.problems[0]
        if n != snap.n:
            clean = False
            ctx.violation("dimacs-writer:problem-line-wrong-variable-count",
                          "%s: problem line says %d variables, the formula has %d" % (what, n, snap.n))
        if m != len(snap.clauses):
            clean = False
            ctx.violation("dimacs-writer:problem-line-wrong-clause-count",
                          "%s: problem line says %d clauses, the formula has %d" % (what, m, len(snap.clauses)))
    if clean or not lay.offending:
        got = [list(c) for _, c in lay.clauses]
        if got != snap.clauses:
            clean = False
            i = next((i for i, (a, b) in enumerate(zip(got, snap.clauses)) if a != b), min(len(got), len(snap.clauses)))
            ctx.violation("dimacs-writer:clause-lines-differ-from-formula",
                          "%s: %d clause lines for %d clauses; first difference at clause %d: written %r, formula %r"
                          % (what, len(got), len(snap.clauses), i, got[i:i + 1], snap.clauses[i:i + 1]))
    if not hdr and not vn and lay.comments and clean:
        ctx.count("comments_without_header_flag")       # legal (still comments); recorded only
    if clean:
        # cross-check of the two reference services: a clean output denotes the formula
        r = ref.classify(ref.universal_newlines(text))
        ctx.count("oracle_crosschecks")
        if r.verdict in ("accept", "either"):
            if (r.numvars, [list(c) for c in r.clauses]) != (snap.n, snap.clauses):
                raise RuntimeError("reference scanner and reference reader disagree on %r" % short(text, 300))
        elif r.verdict == "reject":
            raise RuntimeError("reference reader rejects (%s) a text the scanner found clean: %r"
                               % (r.reason, short(text, 300)))
    return clean


def formula_content(ctx, F, mech, what):
    """(numvars, clauses) of a formula returned by the reader; None (+violation) when malformed."""
    try:
        n = F.number_of_variables()
        cls = [list(c) for c in F]
    except Exception as e:     # noqa: BLE001
        ctx.violation(mech + ":result-unusable", "%s: result cannot be inspected: %r" % (what, e))
        return None
    ok = isinstance(n, int) and n >= 0 and all(
        isinstance(l, int) and not isinstance(l, bool) and 1 <= abs(l) <= n for c in cls for l in c)
    if not ok:
        ctx.violation(mech + ":result-has-literal-outside-its-range",
                      "%s: returned formula with %r variables mentions %r" % (what, n, cls[:6]))
        return None
    return n, cls


def judge_readback(ctx, outcome, snap, clean, route, what):
    """The real reader on the real writer's output."""
    ctx.count("read_route:" + route)
    st, val = outcome
    if not clean:
        ctx.count("readback_of_broken_output:" + ("refused" if st == "exc" else "accepted"))
        if st == "exc" and not isinstance(val, ValueError):
            ctx.violation("dimacs-reader:raises:" + type(val).__name__,
                          "%s: reading back raised %r" % (what, val))
        return
    if st == "exc":
        ctx.violation("roundtrip:reader-refuses-writer-output" if isinstance(val, ValueError)
                      else "dimacs-reader:raises:" + type(val).__name__,
                      "%s: reading the output back (%s) raised %r" % (what, route, val))
        return
    got = formula_content(ctx, val, "roundtrip", what)
    if got is None:
        return
    n, cls = got
    if n != snap.n:
        ctx.violation("roundtrip:variable-count-changes", "%s: %d variables written, %d read back (%s)"
                      % (what, snap.n, n, route))
    elif cls != snap.clauses:
        i = next((i for i, (a, b) in enumerate(zip(cls, snap.clauses)) if a != b), min(len(cls), len(snap.clauses)))
        ctx.violation("roundtrip:clauses-change", "%s: %d clauses written, %d read back (%s); first difference at "
                      "%d: read %r, written %r" % (what, len(snap.clauses), len(cls), route, i,
                                                   cls[i:i + 1], snap.clauses[i:i + 1]))
    else:
        ctx.count("roundtrips_equal")


def judge_reading(ctx, outcome, text_seen, route, why):
    """The real reader on an arbitrary text; `text_seen` is the text after newline translation of the route."""
    r = ref.classify(text_seen)
    cname = "class:" + r.verdict + (":" + r.reason if r.verdict == "reject" else "")
    ctx.count(cname)
    ctx.count("read_route:" + route)
    st, val = outcome
    what = "%s text %r via %s" % (why, short(text_seen, 200), route)
    if st == "exc":
        if not isinstance(val, ValueError):
            ctx.violation("dimacs-reader:raises:" + type(val).__name__, "%s raised %r" % (what, val))
        elif r.verdict == "accept":
            ctx.violation("dimacs-reader:refuses-writer-shaped-text", "%s raised %r" % (what, val))
        else:
            ctx.count("reader_refused_with_ValueError")
            if r.verdict == "either":
                ctx.count("either_refused")
                for note in r.notes:
                    ctx.count("either_refused_having:" + note)
    else:
        ctx.count("reader_accepted")
        got = formula_content(ctx, val, "dimacs-reader", what)
        if got is not None:
            n, cls = got
            if r.verdict == "reject":
                ctx.violation("dimacs-reader:accepts:" + r.reason,
                              "%s was accepted as %d variables, clauses %r" % (what, n, cls[:8]))
            elif r.verdict in ("accept", "either"):
                exp = [list(c) for c in r.clauses]
                if n != r.numvars:
                    ctx.violation("dimacs-reader:misreads-variable-count",
                                  "%s: read %d variables, the text declares %d" % (what, n, r.numvars))
                elif cls != exp:
                    ctx.violation("dimacs-reader:misreads-clauses",
                                  "%s: read %r, the text denotes %r" % (what, cls[:8], exp[:8]))
                else:
                    if any(abs(l) == n for c in cls for l in c):
                        ctx.count("literal_at_bound_accepted")
                    if r.verdict == "either":
                        ctx.count("either_accepted_as_denoted")
            else:
                ctx.count("unknown_text_accepted_consistently")
    nonblank = bool(text_seen.strip())
    ctx.judged(("read", route, digest(text_seen)), nontrivial=nonblank,
               sample={"route": route, "kind": why, "text": short(text_seen, 120), "class": r.verdict,
                       "reason": r.reason, "notes": list(r.notes), "reader": "formula" if st == "ok" else repr(val)[:80]})
    return r


# ---------------------------------------------------------------------------
# reading routes
# ---------------------------------------------------------------------------
def read_stringio(ctx, cls, text):
    return ctx.call(cls.from_file, io.StringIO(text))


def read_path(ctx, cls, text, scratch, raw=None):
    p = scratch.path()
    with open(p, "wb") as f:
        f.write(raw if raw is not None else text.encode("utf-8"))
    return ctx.call(cls.from_file, p)


def read_fileobj(ctx, cls, text, scratch):
    p = scratch.path()
    with open(p, "wb") as f:
        f.write(text.encode("utf-8"))
    with open(p, "r", encoding="utf-8") as f:
        return ctx.call(cls.from_file, f)


def read_stdin(ctx, cls, text):
    old = sys.stdin
    sys.stdin = io.StringIO(text)
    try:
        return ctx.call(cls.from_file)
    finally:
        sys.stdin = old


def encodable(text):
    try:
        text.encode("utf-8")
        return True
    except UnicodeEncodeError:
        return False


# ---------------------------------------------------------------------------
# formulas built by hand
# ---------------------------------------------------------------------------
UNUSUAL = ["", " ", "\t", "tab\there", "\u00e9t\u00e9", "\u65e5\u672c\u8a9e", "\u00df\u2202\u0192", "p cnf 1 1", "c", "c ",
           "%", "0", "1 -2 0", "{}", "{0}", "}{", "\\n", "\x00", "\x07bell", "\x1b[31mred", "\ufeffbom", "zero\u200bwidth",
           "x" * 300, "'\"`$;|&<>", "nb\u00a0sp", "a  b", " lead", "trail ", "-", "--seed", "\U0001F600", "\x0cff",
           "nel\x85", "ls\u2028ps\u2029", "fs\x1cgs\x1d", "vt\x0b", "p", "cnf", "c varname 1 x", "\\", "%s %d {x}"]
BREAKS = ["\n", "\r", "\r\n", "a\nb", "a\n\nb", "x\np cnf 1 1", "x\n1 0", "end\n", "\nstart", "a\rb", "a\r\nb",
          "x\n0", "x\n%", "two\nlines\nmore", "x\n-1 1 0"]
NONSTR = [0, 7, -1, None, True, 2.5, ("a", 1), ["l"], b"bytes"]


def random_clauses(r, n, m):
    out = []
    for _ in range(m):
        if n == 0:
            out.append([])
            continue
        w = r.choice([0, 1, 1, 2, 2, 3, 3, 4, 5, 9]) if r.random() < 0.9 else r.randint(0, 2 * n + 2)
        cl = [r.choice([1, -1]) * (n if r.random() < 0.1 else r.randint(1, n)) for _ in range(w)]
        if cl and r.random() < 0.1:
            cl.append(cl[0])            # repeated literal
        if cl and r.random() < 0.1:
            cl.append(-cl[0])           # opposite literal
        out.append(cl)
    return out


def build_formula(ctx, r, mode):
    """A hand-built formula; mode 'plain' | 'unusual' | 'breaks' picks the alphabet of header and names.
    Returns (F, recipe) -- recipe is a small JSON-able description."""
    K = cnf_classes()
    cname = "CNF" if r.random() < 0.8 else "CNFio"
    C = K[cname]
    n = r.choice([0, 0, 1, 2, 3, 5, 8, 12]) if r.random() < 0.8 else r.randint(0, 40)
    m = r.choice([0, 0, 1, 2, 3, 6, 10]) if r.random() < 0.85 else r.randint(0, 60)
    alphabet = {"plain": ["plain text", "Formula"], "unusual": UNUSUAL, "breaks": BREAKS}[mode]
    pick = lambda: r.choice(alphabet)      # noqa: E731
    recipe = {"class": cname, "n": n, "mode": mode}
    desc = None
    if r.random() < 0.6:
        desc = pick()
        recipe["description"] = desc
    clauses = random_clauses(r, n, m)
    how = r.randint(0, 3)
    if how == 0:
        F = C(clauses, description=desc) if desc is not None else C(clauses)
    else:
        F = C(description=desc) if desc is not None else C()
        if how == 1:
            for c in clauses:
                F.add_clause(tuple(c) if r.random() < 0.3 else c)
        elif how == 2:
            F.add_clauses_from(clauses)
        else:
            F.update_variable_number(n)
            F.add_clauses_from((iter(c) for c in clauses), check=False)
    recipe["clauses"] = clauses if len(clauses) <= 8 else clauses[:8] + ["..."]
    if r.random() < 0.5:
        extra = r.choice([0, 1, 3, 10])
        F.update_variable_number(n + extra)
        recipe["unused"] = extra
    # named variables (only the full class has the variable manager)
    named = False
    if cname == "CNF" and r.random() < (0.6 if mode != "plain" else 0.3):
        named = True
        recipe["names"] = []
        for _ in range(r.randint(1, 3)):
            if r.random() < 0.6:
                lab = pick() if r.random() < 0.8 else r.choice([None, 5])
                F.new_variable(label=lab)
                recipe["names"].append(lab)
            else:
                lab = pick().replace("{", "{{").replace("}", "}}") + "_{}_{}"
                F.new_block(r.randint(1, 2), r.randint(1, 3), label=lab)
                recipe["names"].append(lab)
        if r.random() < 0.5 and F.number_of_variables():
            v = F.number_of_variables()
            F.add_clause([v, -1] if v > 1 else [v])
    # header entries
    for _ in range(r.choice([0, 0, 1, 2, 4])):
        k = pick() if r.random() < 0.5 else r.choice(["note", "random seed", "command line", "transformation 1"])
        v = pick() if r.random() < 0.8 else r.choice(NONSTR)
        if mode != "plain" and r.random() < 0.1:
            k = r.choice(NONSTR[:5])
        F.header[k] = v
        recipe.setdefault("header", []).append([repr(k), repr(v)])
    if r.random() < 0.05:
        F.header.clear()
        recipe["header"] = "cleared"
    return F, recipe, named


WRITE_ROUTES = ("stringio", "path", "fileobj", "stdout", "ext+fileformat")


def write_via(ctx, F, route, hdr, vn, scratch):
    """('ok', text) | ('exc', e) -- one route of the library writer."""
    if route == "to_dimacs":
        return ctx.call(F.to_dimacs)
    if route == "stringio":
        out = io.StringIO()
        st, val = ctx.call(F.to_file, out, export_header=hdr, export_varnames=vn)
        return (st, out.getvalue()) if st == "ok" else (st, val)
    if route == "stdout":
        old = sys.stdout
        sys.stdout = out = io.StringIO()
        try:
            st, val = ctx.call(F.to_file, export_header=hdr, export_varnames=vn)
        finally:
            sys.stdout = old
        return (st, out.getvalue()) if st == "ok" else (st, val)
    if route == "path":
        p = scratch.path(".cnf")
        st, val = ctx.call(F.to_file, p, export_header=hdr, export_varnames=vn)
    elif route == "ext+fileformat":
        p = scratch.path(".tex" if hdr else ".opb")
        st, val = ctx.call(F.to_file, p, fileformat="dimacs", export_header=hdr, export_varnames=vn)
    else:   # fileobj
        p = scratch.path(".dimacs")
        with open(p, "w", encoding="utf-8", newline="") as f:
            st, val = ctx.call(F.to_file, f, export_header=hdr, export_varnames=vn)
    if st == "exc":
        return st, val
    with open(p, "r", encoding="utf-8", newline="") as f:
        return "ok", f.read()


def roundtrip_formula(ctx, F, label, key, r, scratch, kinds, full=True):
    """All header x varnames combinations of one formula through the writing and reading routes."""
    snap = Snap(F)
    if not snap.sane:
        ctx.count("formulas_not_well_formed_skipped")        # DESIGN 4.5: corrupted formulas are not inputs
        return
    for k in kinds:
        ctx.count("formula:" + k)
    if snap.n == 0 and not snap.clauses:
        ctx.count("formula:empty")
    if any(len(c) == 0 for c in snap.clauses):
        ctx.count("formula:empty-clause")
    used = max([abs(l) for c in snap.clauses for l in c], default=0)
    if used < snap.n:
        ctx.count("formula:unused-variables")
    if any(has_break(k) or has_break(v) for k, v in snap.header):
        ctx.count("header:line-break")
    elif any(not (isinstance(v, str) and v.isascii() and v.isprintable() and isinstance(k, str) and k.isascii()
                  and k.isprintable()) for k, v in snap.header):
        ctx.count("header:unusual-characters")
    if any(has_break(l) for l in snap.labels):
        ctx.count("names:line-break")
    C = type(F)
    plans = [("to_dimacs", False, False)]
    for hdr in (True, False):
        for vn in (True, False):
            plans.append(("stringio", hdr, vn))
    others = [(rt, hdr, vn) for rt in WRITE_ROUTES[1:] for hdr in (True, False) for vn in (True, False)]
    plans += others if full else r.sample(others, 3)
    nontrivial = bool(snap.clauses)
    for route, hdr, vn in plans:
        st, text = write_via(ctx, F, route, hdr, vn, scratch)
        what = "%s [%s header=%s varnames=%s]" % (label, route, hdr, vn)
        if st == "exc":
            ctx.violation("dimacs-writer:raises:" + type(text).__name__, "%s: writing raised %r" % (what, text))
            continue
        if Snap(F).clauses != snap.clauses or F.number_of_variables() != snap.n:
            ctx.violation("dimacs-writer:changes-the-formula", "%s: the formula differs after writing" % what)
            return
        clean = judge_output(ctx, text, snap, hdr, vn, route, label)
        # read back: always through StringIO, and through one of the other routes in turn
        judge_readback(ctx, read_stringio(ctx, C, text), snap, clean, "stringio", what)
        which = r.randrange(3)
        if encodable(text):
            if which == 0:
                # a text-mode file translates CR: the scanner split lines the same way, so `clean` carries over
                judge_readback(ctx, read_path(ctx, C, text, scratch), snap, clean, "path", what)
            elif which == 1:
                judge_readback(ctx, read_fileobj(ctx, C, text, scratch), snap, clean, "fileobj", what)
            else:
                judge_readback(ctx, read_stdin(ctx, C, text), snap, clean, "stdin", what)
        ctx.judged(("write", route, hdr, vn, digest(text)) + tuple(key), nontrivial=nontrivial,
                   sample={"formula": label, "route": route, "header": hdr, "varnames": vn,
                           "output": short(text, 200), "layout_clean": clean})


def case_handbuilt(ctx, mode, rseed, count):
    ref.selfcheck()
    r = ctx.rng("c06-hand", mode, rseed)
    with Scratch() as scratch:
        for i in range(count):
            F, recipe, named = build_formula(ctx, r, mode)
            kinds = ["handbuilt"] + (["named-variables"] if named else [])
            roundtrip_formula(ctx, F, "hand-built %s" % (recipe,), ("hand",), r, scratch, kinds, full=(i % 4 == 0))


# ---------------------------------------------------------------------------
# families, chains, command lines
# ---------------------------------------------------------------------------
FAMILIES = [
    "and 2 3", "and 0 0", "or 3 2", "true", "false", "php 4 3", "php 5 5", "php 6 4 --functional --onto", "bphp 5 4",
    "bphp 3 2", "rphp 4 3 3", "op 4", "op 3", "op 5 --total", "op 4 --smart", "op 4 --plant", "parity 5", "parity 4",
    "count 6 3", "count 5 2", "matching complete 4", "matching gnd 6 3", "tseitin 6 3", "tseitin randomodd grid 2 3",
    "tseitin first complete 4", "peb pyramid 3", "peb tree 3", "peb path 4", "stone 2 pyramid 2",
    "stone 3 path 3 --sparse 2", "ram 3 3 5", "ram 3 4 6", "ramlb 3 3 gnp 6 .5", "kclique 3 gnp 5 .5",
    "kclique 2 complete 3", "kcliquebin 2 complete 4", "kcolor 3 gnd 6 3", "kcolor 2 complete 3", "ec gnd 6 4",
    "domset 2 grid 2 3", "domset 2 complete 4 --alternative", "tiling grid 2 2", "tiling gnd 6 2", "subsetcard 6",
    "subsetcard glrd 5 5 3", "cliquecoloring 5 3 2", "cliquecoloring 4 2 2", "vdw 8 3 3", "vdw 6 2 2 2", "ptn 10",
    "ptn 26", "randkcnf 3 8 12", "randkcnf 3 8 12 -p", "randkcnf 2 5 0", "randkxor 3 8 6", "cpls 2 2 2",
    "pitfall 3 2 2 2 2", "iso complete 3 -e complete 3", "iso gnd 6 3", "subgraph -G gnp 5 .5 -H complete 3",
    "subgraph -G complete 4 -H complete 3",
]
CHAINS = ["-T shuffle", "-T xor 2", "-T or 2 -T flip", "-T lift 3", "-T maj 3", "-T eq 2", "-T neq 2", "-T ite",
          "-T one 3", "-T atleast 3 2", "-T atmost 3 1", "-T exact 3 2", "-T anybut 3 1", "-T xorcomp 5 2",
          "-T majcomp 6 3", "-T none", "-T xor 2 -T shuffle -T or 2", "-T flip -T flip", "-T shuffle -T shuffle"]


LIGHT_CHAINS = ["-T shuffle", "-T flip", "-T or 2", "-T none", "-T shuffle -T flip", "-T or 2 -T shuffle", "-T xor 2"]
SMALL_FAMILIES = ["php 4 3", "op 3", "and 2 3", "or 3 2", "parity 4", "peb pyramid 3", "false", "true",
                  "randkcnf 3 8 12", "tseitin first complete 4"]
MAX_LITERALS = 150000


class WriterTap:
    """Records the formula handed to cnfio.to_dimacs_file while a command line runs."""

    def __init__(self):
        self.seen = []

    def __enter__(self):
        import cnfgen.formula.cnfio      # noqa: F401
        self.mod = sys.modules["cnfgen.formula.cnfio"]
        self.orig = self.mod.to_dimacs_file

        def tapped(formula, fileorname=None, export_header=True, export_varnames=False):
            self.seen.append((Snap(formula), export_header, export_varnames))
            return self.orig(formula, fileorname, export_header=export_header, export_varnames=export_varnames)
        self.mod.to_dimacs_file = tapped
        return self

    def __exit__(self, *exc):
        self.mod.to_dimacs_file = self.orig


def canonical_text(n, clauses, comments=()):
    lines = ["c" + (" " + c if c else "") for c in comments]
    lines.append("p cnf %d %d" % (n, len(clauses)))
    lines += [" ".join(map(str, list(cl) + [0])) for cl in clauses]
    return "\n".join(lines) + "\n"


class ReaderTap:
    """Observes the reader where the command line tools call it (result or exception of from_dimacs_file)."""

    def __init__(self):
        self.calls = []

    def __enter__(self):
        import cnfgen.formula.cnfio             # noqa: F401
        import cnfgen.clihelpers.dimacs_helpers  # noqa: F401
        self.mods = [sys.modules["cnfgen.formula.cnfio"], sys.modules["cnfgen.clihelpers.dimacs_helpers"]]
        self.orig = [m.from_dimacs_file for m in self.mods]

        def make(orig):
            def tapped(cnfclass, fileorname=None):
                try:
                    F = orig(cnfclass, fileorname)
                except Exception as e:          # noqa: BLE001 - recorded and passed on unchanged
                    self.calls.append(("exc", e))
                    raise
                self.calls.append(("ok", F))
                return F
            return tapped
        for m, o in zip(self.mods, self.orig):
            m.from_dimacs_file = make(o)
        return self

    def __exit__(self, *exc):
        for m, o in zip(self.mods, self.orig):
            m.from_dimacs_file = o


def cli_reads(ctx, tool, text, scratch, why, via_stdin=False, raw=None):
    """`cnfgen -q dimacs <file>` / `cnfshuffle -p -v -c -i <file>`: the reader is observed where the tool calls
    it; when the tool completes, what it printed has to denote the input as well."""
    from ..cliharness import run_main
    route = "cli-cnfgen-dimacs" if tool == "cnfgen" else "cli-cnfshuffle"
    if raw is None and not encodable(text):
        return
    stdin_text = ""
    if via_stdin:
        argv = ["-q", "dimacs"] if tool == "cnfgen" else ["-p", "-v", "-c"]
        stdin_text = text
        seen = text
    else:
        p = scratch.path()
        with open(p, "wb") as f:
            f.write(raw if raw is not None else text.encode("utf-8"))
        argv = ["-q", "dimacs", p] if tool == "cnfgen" else ["-p", "-v", "-c", "-i", p]
        seen = ref.universal_newlines(text) if raw is None else None
    with ReaderTap() as tap:
        o = run_main(tool, argv, stdin_text=stdin_text)
    ctx.count("cli_reader_runs")
    if len(tap.calls) != 1:
        ctx.count("cli_reader_not_reached")          # nothing to judge (the command line itself was refused)
        return
    outcome = tap.calls[0]
    completed = o.exc is None and o.rc == 0
    if outcome[0] == "exc":
        ctx.count("cli_reader_refusals")
        if completed:
            ctx.violation("dimacs-reader:refusal-ignored-by-" + tool,
                          "%s %r exits with status 0 although its reader raised %r" % (tool, argv, outcome[1]))
    elif not completed:
        # the reader answered, the tool failed later (e.g. Shuffle on 10^12 variables): not the reader's doing
        ctx.count("tool_failed_after_reading:" + (type(o.exc).__name__ if o.exc is not None else "exit-status"))
    else:
        ctx.count("cli_reader_accepts")
        lay = ref.scan_output(o.out)
        if lay.offending or len(lay.problems) != 1 or lay.problems[0][2] != len(lay.clauses):
            # the scratch file name is harmless, so the printed text has to be plain DIMACS
            ctx.violation("dimacs-writer:non-comment-line:" + (lay.offending[0][1] if lay.offending else "counts"),
                          "%s %r printed a text that is not DIMACS: %r" % (tool, argv, short(o.out, 300)))
            return
        outcome = ("ok", _Parsed(lay.problems[0][1], [list(c) for _, c in lay.clauses]))
    if seen is None:            # undecodable bytes: only a refusal with ValueError is possible
        ctx.count("read_route:" + route)
        if outcome[0] == "ok":
            ctx.violation("dimacs-reader:accepts:undecodable-bytes", "%s accepted %r" % (tool, raw[:60]))
        elif not isinstance(outcome[1], ValueError):
            ctx.violation("dimacs-reader:raises:" + type(outcome[1]).__name__,
                          "%s on undecodable bytes %r: reader raised %r" % (tool, raw[:60], outcome[1]))
        else:
            ctx.count("undecodable_bytes_refused")
        ctx.judged(("read-bytes", route, hashlib.blake2b(raw, digest_size=8).hexdigest()),
                   sample={"route": route, "bytes": repr(raw[:60]), "rc": o.rc})
        return
    judge_reading(ctx, outcome, seen, route, why)


class _Parsed:
    """Formula-like view of a tool's output (already taken apart by the reference scanner)."""

    def __init__(self, n, clauses):
        self.n, self.cl = n, clauses

    def number_of_variables(self):
        return self.n

    def __iter__(self):
        return iter(self.cl)


def case_family(ctx, family, chain, seed):
    ref.selfcheck()
    from ..cliharness import cli_formula, run_main
    r = ctx.rng("c06-family", family, chain)
    base = ["--seed", str(seed)]
    tail = family.split() + chain.split()
    label = "cnfgen " + " ".join(tail)
    try:
        F = cli_formula("cnfgen", ["cnfgen"] + base + tail)
    except (Exception, SystemExit) as e:      # noqa: BLE001 - building formulas is judged by C17/C18
        ctx.count("family_not_built:" + type(e).__name__)
        return
    kinds = ["family"] + (["chain"] if chain else [])
    if sum(len(c) for c in F) > MAX_LITERALS:
        ctx.count("family_formula_too_large_skipped")
        return
    with Scratch() as scratch:
        roundtrip_formula(ctx, F, label + " (library)", ("family", family, chain), r, scratch, kinds, full=False)
        # the command line writes: observe the object handed to the writer and the text that came out
        for flags in ([], ["-q"], ["--varnames"], ["-q", "--varnames"], ["-v", "--varnames"], ["-o"]):
            out_path = None
            argv = list(base)
            if flags == ["-o"]:
                out_path = scratch.path(".cnf")
                argv += ["-o", out_path]
            else:
                argv += flags
            with WriterTap() as tap:
                o = run_main("cnfgen", argv + tail)
            if o.exc is not None or o.rc != 0 or len(tap.seen) != 1:
                ctx.count("cli_write_not_completed")
                continue
            snap, hdr, vn = tap.seen[0]
            if not snap.sane:
                ctx.count("formulas_not_well_formed_skipped")
                continue
            if out_path:
                gc.collect()            # the tool leaves closing the file to the interpreter
                with open(out_path, "r", encoding="utf-8", newline="") as f:
                    text = f.read()
                route = "cli-outfile"
                if not text and (snap.clauses or hdr):
                    ctx.count("cli_outfile_not_flushed_yet")
                    continue
            else:
                text, route = o.out, "cli-stdout"
            if hdr != ("-q" not in flags) or vn != ("--varnames" in flags):
                ctx.violation("cnfgen-cli:header-flags-not-honoured",
                              "%s %r: writer called with header=%s varnames=%s" % (label, flags, hdr, vn))
            clean = judge_output(ctx, text, snap, hdr, vn, route, label)
            what = "%s %r" % (label, flags)
            judge_readback(ctx, read_stringio(ctx, type(F), text), snap, clean, "stringio", what)
            ctx.judged(("write", route, hdr, vn, digest(text), "family", family, chain), nontrivial=bool(snap.clauses),
                       sample={"command": "cnfgen " + " ".join(argv + tail), "output": short(text, 160)})
        # ... and the tools read what was written
        snap = Snap(F)
        if snap.sane:
            text = canonical_text(snap.n, snap.clauses, ["written by the harness", ""])
            cli_reads(ctx, "cnfgen", text, scratch, "harness-written " + label)
            cli_reads(ctx, "cnfshuffle", text, scratch, "harness-written " + label, via_stdin=bool(chain))


def case_minimal_witnesses(ctx):
    """The smallest formulas with a line break in the description / in a variable name (and their harmless
    twins), so that the witness kept for a mechanism is one a maintainer can type."""
    ref.selfcheck()
    CNF = cnf_classes()["CNF"]
    r = ctx.rng("c06-minimal")
    with Scratch() as scratch:
        for desc, name in ((None, None), ("one line", "x"), ("two\nlines", None), (None, "two\nlines"),
                           ("tab\tand \u00e9", "tab\tand \u00e9")):
            F = CNF([[1, -2]], description=desc) if desc is not None else CNF([[1, -2]])
            if name is not None:
                F.new_variable(label=name)
            roundtrip_formula(ctx, F, "CNF([[1, -2]], description=%r)%s"
                              % (desc, "" if name is None else " + new_variable(label=%r)" % name),
                              ("minimal",), r, scratch, ["handbuilt"] + (["named-variables"] if name else []))


def case_kthlist_names(ctx, names):
    """Graph names are read from the first comment line of a kthlist file and end up in the description."""
    ref.selfcheck()
    from ..cliharness import run_main
    import cnfgen
    r = ctx.rng("c06-kthlist")
    with Scratch() as scratch:
        for name in names:
            gtext = ("c %s\n" % name if name is not None else "") + "3\n1 : 0\n2 : 1 0\n3 : 1 2 0\n"
            st, G = ctx.call(cnfgen.readGraph, io.StringIO(gtext), "dag", "kthlist")
            if st == "exc":
                ctx.count("kthlist_not_read")
                continue
            st, F = ctx.call(cnfgen.PebblingFormula, G)
            if st == "exc":
                ctx.count("family_not_built:" + type(F).__name__)
                continue
            roundtrip_formula(ctx, F, "PebblingFormula(readGraph(kthlist named %r))" % (name,),
                              ("kthlist", repr(name)), r, scratch, ["family"], full=False)
            with WriterTap() as tap:
                o = run_main("kthlist2pebbling", [], stdin_text=gtext)
            if o.exc is not None or o.rc != 0 or len(tap.seen) != 1:
                ctx.count("cli_write_not_completed")
                continue
            snap, hdr, vn = tap.seen[0]
            label = "kthlist2pebbling < kthlist file whose first line is %r" % ("c %s" % name,)
            clean = judge_output(ctx, o.out, snap, hdr, vn, "kthlist2pebbling", label)
            judge_readback(ctx, read_stringio(ctx, type(F), o.out), snap, clean, "stringio", label)
            ctx.judged(("write", "kthlist2pebbling", digest(o.out)), sample={"command": label, "output": short(o.out, 160)})


def case_few_descriptors(ctx):
    """A long-running program: hundreds of round trips by file name, through file objects and through the tools'
    -o option in a process that can open only 40 more files than it has open (soft RLIMIT_NOFILE lowered for the
    duration).  Exports and imports that close what they open never notice."""
    ref.selfcheck()
    from .. import semantic as S
    from ..cliharness import run_main
    K = cnf_classes()["CNF"] if isinstance(cnf_classes(), dict) else list(cnf_classes())[0]
    with Scratch() as scratch:
        before = S.open_descriptors()
        with S.few_descriptors_left(40):
            for i in range(300):
                F = K([[1, -2], [2, 3], [-(1 + i % 3)]])
                p = os.path.join(scratch.dir, "rt%d.cnf" % (i % 7))
                route = i % 4
                try:
                    if route == 0:
                        F.to_file(p)
                        G = K.from_file(p)
                    elif route == 1:
                        with open(p, "w") as fh:
                            F.to_file(fh)
                        with open(p) as fh:
                            G = K.from_file(fh)
                    elif route == 2:
                        F.to_file(p, fileformat="dimacs", export_header=False)
                        G = K.from_file(p)
                    else:
                        o = run_main("cnfgen", ["-q", "-o", p, "and", "2", "1"])
                        if o.exc is not None:
                            raise o.exc
                        G = K.from_file(p)
                        F = K([[1], [2], [-3]])
                except Exception as e:      # noqa: BLE001
                    ctx.violation("roundtrip:by-name:after-many-round-trips:%s" % type(e).__name__,
                                  "round trip number %d (route %d) in a process allowed 40 more open files than it had at the start: %r; "
                                  "open descriptors went from %d to %d" % (i + 1, route, e, before, S.open_descriptors()))
                    break
                ctx.count("round_trips_with_few_descriptors_left")
                if [list(c) for c in G] != [list(c) for c in F]:
                    ctx.violation("roundtrip:by-name:misread", "round trip number %d (route %d): %r came back as %r" % (i + 1, route, list(F), list(G)))
                    break
        after = S.open_descriptors()
        ctx.count("descriptors_open_after_300_round_trips_minus_before", max(0, after - before))
        ctx.judged(("few-descriptors",), sample={"round_trips": 300, "descriptors_before": before, "after": after})


def case_input_file_names(ctx, names):
    """`cnfgen dimacs <file>` / cnfshuffle put the input file name into the description they write."""
    ref.selfcheck()
    from ..cliharness import run_main
    with Scratch() as scratch:
        for name in names:
            p = os.path.join(scratch.dir, name)
            try:
                with open(p, "w") as f:
                    f.write("p cnf 2 2\n1 -2 0\n2 0\n")
            except (OSError, ValueError):
                ctx.count("file_name_not_creatable")
                continue
            # the library by name: what to_file(name) wrote, from_file(name) reads
            K = cnf_classes()["CNF"] if isinstance(cnf_classes(), dict) else list(cnf_classes())[0]
            st, F = ctx.call(K.from_file, p)
            ctx.count("library_reads_by_name")
            if st == "exc" or [list(c) for c in F] != [[1, -2], [2]] or F.number_of_variables() != 2:
                ctx.violation("dimacs-reader:valid-file-not-read:%s" % (type(F).__name__ if st == "exc" else "misread"),
                              "CNF.from_file(<file named %r>) with a valid DIMACS text: %r" % (name, F if st == "exc" else [list(c) for c in F]))
            else:
                p2 = os.path.join(scratch.dir, "again-" + name)
                st2, _ = ctx.call(F.to_file, p2, fileformat="dimacs")
                st3, F3 = ctx.call(K.from_file, p2) if st2 == "ok" else ("skip", None)
                if st2 == "exc" or st3 == "exc" or [list(c) for c in F3] != [[1, -2], [2]] or F3.number_of_variables() != 2:
                    ctx.violation("roundtrip:by-name:%s" % (type(_ if st2 == "exc" else F3).__name__ if "exc" in (st2, st3) else "misread"),
                                  "to_file / from_file through a file named %r: %r" % ("again-" + name, _ if st2 == "exc" else F3))
                ctx.judged(("by-name", repr(name)), sample={"file_name": name})
                # no format given: DIMACS unless the name *ends with the extension* .tex / .opb
                base_, ext_ = os.path.splitext(name)
                if ext_ not in (".tex", ".opb"):
                    sub = os.path.join(scratch.dir, "default-format")
                    os.makedirs(sub, exist_ok=True)
                    p4 = os.path.join(sub, name)
                    st4, e4 = ctx.call(F.to_file, p4)
                    st5, F5 = ctx.call(K.from_file, p4) if st4 == "ok" else ("skip", None)
                    ctx.count("default_format_exports_by_name")
                    if st4 == "exc" or st5 == "exc" or [list(c) for c in F5] != [[1, -2], [2]] or F5.number_of_variables() != 2:
                        head = ""
                        try:
                            head = open(p4, errors="replace").read(60)
                        except OSError:
                            pass
                        ctx.violation("roundtrip:by-name:default-format:%s" % (type(e4 if st4 == "exc" else F5).__name__ if "exc" in (st4, st5) else "misread"),
                                      "F.to_file(<file named %r>) without a format, then CNF.from_file: %r; the file starts with %r"
                                      % (name, e4 if st4 == "exc" else F5, head))
            for tool, argv in (("cnfgen", ["dimacs", p]), ("cnfshuffle", ["-p", "-v", "-c", "-i", p])):
                with WriterTap() as tap:
                    o = run_main(tool, argv)
                label = "%s %s <file named %r>" % (tool, " ".join(argv[:-1]), name)
                if o.exc is not None or o.rc != 0 or len(tap.seen) != 1:
                    ctx.count("cli_write_not_completed")
                    ctx.violation("dimacs-reader:valid-file-not-read:%s" % (type(o.exc).__name__ if o.exc is not None else "refused"),
                                  "%s: the file holds a valid DIMACS text; outcome %r, stderr %r" % (label, o.exc if o.exc is not None else o.rc, o.err[-200:]))
                    continue
                snap, hdr, vn = tap.seen[0]
                clean = judge_output(ctx, o.out, snap, hdr, vn, "cli-stdout", label)
                judge_readback(ctx, read_stringio(ctx, cnf_classes()["CNF"], o.out), snap, clean, "stringio", label)
                if snap.clauses != [[1, -2], [2]] or snap.n != 2:
                    ctx.violation("dimacs-reader:misreads-clauses", "%s: read %r" % (label, snap.clauses))
                ctx.judged(("write", "cli-stdout", tool, digest(o.out), repr(name)),
                           sample={"command": label, "output": short(o.out, 160)})


# ---------------------------------------------------------------------------
# texts for the reader
# ---------------------------------------------------------------------------
GARBAGE = ["x", "foo", "1a", "a1", "--1", "1-", "1.0", "1e3", "0x1", "%", "#", "p", "c", "cnf", "-", "+", "NaN",
           "\u0661", "\uff11", "\u00b2", "1_0", "_1", "1_", "\x00", "1\x00", "\u00a01", "\x1c", "0\x85", "inf", "\\n", "1,2", ";"]
ODDINT = lambda v: ["+%d" % v if v >= 0 else "%d" % v, "0%d" % abs(v) if v >= 0 else "-0%d" % abs(v),   # noqa: E731
                    "00%d" % v if v >= 0 else "-00%d" % -v]


def base_text(r):
    """A writer-shaped text and its parameters."""
    n = r.choice([0, 1, 2, 3, 5, 9, 12, 30])
    m = r.choice([0, 1, 2, 3, 5, 8, 15])
    clauses = random_clauses(r, n, m)
    if n and clauses and r.random() < 0.5:
        clauses[r.randrange(len(clauses))].append(r.choice([n, -n]))      # the bound itself
    comments = [r.choice(["generated", "", "p cnf 9 9", "1 2 0", "varname 1 x", "\u00e9", "description: x", "c c", "%"])
                for _ in range(r.choice([0, 0, 1, 3]))]
    return canonical_text(n, clauses, comments), n, clauses


def split_tokens(line):
    return line.split(" ")


def mutate(r, text, n):
    """One named corruption of a writer-shaped text (the reference decides what the result is)."""
    lines = text.split("\n")[:-1]
    data = [i for i, l in enumerate(lines) if l[:1] not in ("c", "p")]
    pidx = next(i for i, l in enumerate(lines) if l[:1] == "p")
    J = lambda ls: "\n".join(ls) + "\n"        # noqa: E731
    kind = r.choice(MUTATIONS)

    def token_swap(new):
        if not data:
            return None
        i = r.choice(data)
        t = split_tokens(lines[i])
        j = r.randrange(len(t))
        t[j] = new(t[j]) if callable(new) else new
        ls = list(lines)
        ls[i] = " ".join(t)
        return J(ls)
    if kind == "truncate":
        return kind, text[:r.randrange(len(text) + 1)]
    if kind == "truncate-line":
        return kind, J(lines[:r.randrange(len(lines) + 1)])
    if kind == "drop-line":
        i = r.randrange(len(lines))
        return kind, J(lines[:i] + lines[i + 1:])
    if kind == "duplicate-line":
        i = r.randrange(len(lines))
        return kind, J(lines[:i + 1] + lines[i:])
    if kind == "swap-lines":
        if len(lines) < 2:
            return kind, text
        i, j = r.sample(range(len(lines)), 2)
        ls = list(lines)
        ls[i], ls[j] = ls[j], ls[i]
        return kind, J(ls)
    if kind == "token-garbage":
        return kind, token_swap(r.choice(GARBAGE)) or text + r.choice(GARBAGE) + "\n"
    if kind == "token-zero":
        return kind, token_swap("0") or text + "0\n"
    if kind == "token-n+1":
        return kind, token_swap(str(n + 1)) or text + "%d 0\n" % (n + 1)
    if kind == "token--n-1":
        return kind, token_swap(str(-n - 1)) or text + "%d 0\n" % (-n - 1)
    if kind == "token-far":
        return kind, token_swap(str(r.choice([1, -1]) * (n + r.choice([2, 10, 10 ** 6])))) or text + "%d 0\n" % (n + 2)
    if kind == "token-40-digits":
        return kind, token_swap(r.choice(["", "-"]) + "7" * 40) or text + "7" * 40 + " 0\n"
    if kind == "token-5000-digits":
        return kind, token_swap("9" * 5000) or text + "9" * 5000 + " 0\n"
    if kind == "token-odd-integer":
        return kind, token_swap(lambda t: r.choice(ODDINT(int(t)))) or text
    if kind == "token-minus-zero":
        return kind, token_swap(lambda t: "-0" if t == "0" else t) or text
    if kind == "extra-literal-in-range":
        if not n:
            return kind, text
        return kind, token_swap(lambda t: "%d %s" % (r.choice([1, -1]) * r.randint(1, n), t)) or text
    if kind == "missing-final-zero":
        if not data:
            return kind, text
        ls = list(lines)
        ls[data[-1]] = ls[data[-1]][:-1].rstrip()
        return kind, J(ls)
    if kind == "missing-inner-zero":
        if not data:
            return kind, text
        i = r.choice(data)
        ls = list(lines)
        ls[i] = ls[i][:-1].rstrip()
        return kind, J(ls)
    if kind == "no-final-newline":
        return kind, text[:-1]
    if kind == "problem-line-dropped":
        return kind, J(lines[:pidx] + lines[pidx + 1:])
    if kind == "problem-line-moved":
        ls = lines[:pidx] + lines[pidx + 1:]
        ls.insert(r.randrange(len(ls) + 1), lines[pidx])
        return kind, J(ls)
    if kind == "problem-line-last":
        return kind, J(lines[:pidx] + lines[pidx + 1:] + [lines[pidx]])
    if kind == "problem-line-doubled":
        ls = list(lines)
        ls.insert(r.randrange(pidx, len(ls) + 1), lines[pidx])
        return kind, J(ls)
    if kind in ("m+1", "m-1", "m-big", "n-1", "n-small", "n+1", "n-negative", "m-negative"):
        t = lines[pidx].split(" ")
        nn, mm = int(t[2]), int(t[3])
        if kind == "m+1":
            mm += 1
        elif kind == "m-1":
            mm -= 1
        elif kind == "m-big":
            mm += r.choice([2, 100, 10 ** 9])
        elif kind == "n-1":
            nn -= 1
        elif kind == "n-small":
            nn = r.randint(0, max(0, nn - 1))
        elif kind == "n+1":
            nn += r.choice([1, 5, 10 ** 12, 10 ** 30])
        elif kind == "n-negative":
            nn = -nn - 1
        else:
            mm = -mm - 1
        ls = list(lines)
        ls[pidx] = "p cnf %d %d" % (nn, mm)
        return kind, J(ls)
    if kind == "problem-line-tokens":
        t = lines[pidx].split(" ")
        choice = r.randrange(8)
        alt = [t[:3], t[:2], t[:1], t + ["7"], ["p", "dnf"] + t[2:], ["P", "CNF"] + t[2:], ["pcnf"] + t[2:],
               ["p", "cnf", t[2] + ".0", t[3]]][choice]
        ls = list(lines)
        ls[pidx] = " ".join(alt)
        return kind, J(ls)
    if kind == "problem-line-odd-integers":
        t = lines[pidx].split(" ")
        t[2] = r.choice(ODDINT(int(t[2])) + [t[2]])
        t[3] = r.choice(ODDINT(int(t[3])) + [t[3], r.choice(["1_0", "\u0663"])])
        ls = list(lines)
        ls[pidx] = " ".join(t)
        return kind, J(ls)
    if kind == "crlf":
        return kind, text.replace("\n", "\r\n")
    if kind == "cr-only":
        return kind, text.replace("\n", "\r")
    if kind == "one-crlf":
        i = r.randrange(len(lines))
        return kind, "\n".join(lines[:i + 1]) + "\r\n" + "".join(l + "\n" for l in lines[i + 1:])
    if kind == "blank-lines":
        ls = list(lines)
        for _ in range(r.randint(1, 3)):
            ls.insert(r.randrange(len(ls) + 1), r.choice(["", " ", "\t", "  \t "]))
        return kind, J(ls)
    if kind == "comment-lines":
        ls = list(lines)
        for _ in range(r.randint(1, 3)):
            ls.insert(r.randrange(len(ls) + 1), r.choice(["c", "c x", "c 1 2 0", "c p cnf 1 1", "cx", " c indented",
                                                          "c \u00e9", "comment", "c\t", "c 0"]))
        return kind, J(ls)
    if kind == "join-lines":
        if len(data) < 2:
            return kind, text
        i = r.choice(data[:-1])
        if i + 1 not in data:
            return kind, text
        return kind, J(lines[:i] + [lines[i] + " " + lines[i + 1]] + lines[i + 2:])
    if kind == "split-line":
        if not data:
            return kind, text
        i = r.choice(data)
        t = lines[i].split(" ")
        j = r.randrange(len(t) + 1)
        return kind, J(lines[:i] + [" ".join(t[:j]), " ".join(t[j:])] + lines[i + 1:])
    if kind == "whitespace":
        sep = r.choice(["  ", "\t", " \t ", "   "])
        ls = [(r.choice(["", " ", "\t"]) + l.replace(" ", sep) + r.choice(["", " ", "\t "])) if l[:1] != "c" else l
              for l in lines]
        return kind, J(ls)
    if kind == "percent-trailer":
        return kind, text + "%\n0\n"
    if kind == "trailing-junk":
        return kind, text + r.choice(["0\n", "1\n", "x\n", "\x00", "\x1a", "c", "p cnf 0 0\n", "\n\n\n", " ", "\ufeff", "-"])
    if kind == "leading-junk":
        return kind, r.choice(["\ufeff", "\n", " ", "0\n", "x\n", "\x00", "1 0\n", "c\n", "\x1c", "\u2003"]) + text
    if kind == "insert-char":
        i = r.randrange(len(text) + 1)
        ch = r.choice(["\x00", "\x0c", "\x0b", "\x1c", "\x85", "\u2028", "\u00a0", "-", "0", " ", "\n", "\r", "c", "p", "\t",
                       "_", "+", "9", "\uff10", "\ud7ff"])
        return kind, text[:i] + ch + text[i:]
    if kind == "delete-char":
        if not text:
            return kind, text
        i = r.randrange(len(text))
        return kind, text[:i] + text[i + 1:]
    return "identity", text


MUTATIONS = ["truncate", "truncate-line", "drop-line", "duplicate-line", "swap-lines", "token-garbage", "token-zero",
             "token-n+1", "token--n-1", "token-far", "token-40-digits", "token-5000-digits", "token-odd-integer",
             "token-minus-zero", "extra-literal-in-range", "missing-final-zero", "missing-inner-zero",
             "no-final-newline", "problem-line-dropped", "problem-line-moved", "problem-line-last",
             "problem-line-doubled", "m+1", "m-1", "m-big", "n-1", "n-small", "n+1", "n-negative", "m-negative",
             "problem-line-tokens", "problem-line-odd-integers", "crlf", "cr-only", "one-crlf", "blank-lines",
             "comment-lines", "join-lines", "split-line", "whitespace", "percent-trailer", "trailing-junk",
             "leading-junk", "insert-char", "delete-char", "identity"]


def grammar_text(r):
    """A sequence of lines drawn from the line kinds of the format; the declared count is mostly the true one."""
    n = r.choice([0, 1, 2, 4, 7])

    def lit():
        x = r.random()
        if n and x < 0.9:
            return str(r.choice([1, -1]) * r.randint(1, n))
        return str(r.choice([n + 1, -n - 1, n, -n, 1, 10 ** 9])) if x < 0.97 else r.choice(GARBAGE)

    def clause(lo, hi):
        return " ".join([lit() for _ in range(r.randint(lo, hi))] + ["0"])
    body, nclauses = [], 0
    for _ in range(r.choice([0, 1, 2, 3, 6])):
        x = r.random()
        if x < 0.6:
            body.append(clause(0, 4))
            nclauses += 1
        elif x < 0.7:
            k = r.randint(2, 3)
            body.append(" ".join(clause(0, 2) for _ in range(k)))
            nclauses += k
        elif x < 0.8:
            body.append(" ".join(lit() for _ in range(r.randint(1, 3))))      # left open ...
            if r.random() < 0.7:
                body.append("0")                                              # ... and closed on the next line
                nclauses += 1
        elif x < 0.9:
            body.append(r.choice(["c", "c mid comment", "", "  ", "c 1 0"]))
        else:
            body.append(r.choice(GARBAGE + ["0", "0 0", "p cnf 1 1"]))
            nclauses += {"0": 1, "0 0": 2}.get(body[-1], 0)
    m = nclauses if r.random() < 0.75 else max(0, nclauses + r.choice([-1, 1, 2]))
    head = [r.choice(["c head", "c", "c p cnf 3 3"]) for _ in range(r.choice([0, 0, 1, 2]))]
    pline = "p cnf %d %d" % (n, m)
    x = r.random()
    if x < 0.08:
        lines = head + body
    elif x < 0.14:
        lines = head + body + [pline]
    else:
        lines = head + [pline] + body
    sep = "\n" if r.random() < 0.9 else "\r\n"
    end = sep if r.random() < 0.9 else ""
    return sep.join(lines) + end


JUNK_ALPHABET = list("0123456789 -\n\n\n pcnf") + ["\t", "\r", "\x00", "\xff", "\u00e9", "c ", "p cnf ", " 0\n", "%", "+", "_",
                                                   "\x0c", "\x1c", "\x85", "\u2028", "1 ", "-2 ", "\ufeff", "\ud7ff"]


def junk_text(r):
    return "".join(r.choice(JUNK_ALPHABET) for _ in range(r.choice([0, 1, 2, 5, 12, 40, 120])))


def feed(ctx, r, text, why, scratch, CNF, extra_every):
    """One text through the StringIO route and, in turn, through the file based ones."""
    judge_reading(ctx, read_stringio(ctx, CNF, text), text, "stringio", why)
    pick = r.randrange(extra_every)
    if pick > 2 or not encodable(text):
        return
    seen = ref.universal_newlines(text)
    if pick == 0:
        judge_reading(ctx, read_path(ctx, CNF, text, scratch), seen, "path", why)
    elif pick == 1:
        judge_reading(ctx, read_fileobj(ctx, CNF, text, scratch), seen, "fileobj", why)
    else:
        judge_reading(ctx, read_stdin(ctx, CNF, text), text, "stdin", why)


def case_texts(ctx, source, rseed, count):
    """Texts -> CNF.from_file."""
    ref.selfcheck()
    CNF = cnf_classes()["CNF"]
    r = ctx.rng("c06-texts", source, rseed)
    with Scratch() as scratch:
        for _ in range(count):
            if source == "shaped":
                text, why = base_text(r)[0], "writer-shaped"
            elif source == "mutated":
                text, n, _ = base_text(r)
                kind, text = mutate(r, text, n)
                if r.random() < 0.25:
                    k2, text2 = None, text
                    try:
                        k2, text2 = mutate(r, text, n)
                    except (StopIteration, ValueError, IndexError):
                        pass                      # the second mutation needs the shape the first one destroyed
                    if k2:
                        kind, text = kind + " & " + k2, text2
                why = "mutated(" + kind + ")"
                ctx.count("mutation:" + kind.split(" & ")[0])
            elif source == "grammar":
                text, why = grammar_text(r), "grammar"
            else:
                text, why = junk_text(r), "junk"
            feed(ctx, r, text, why, scratch, CNF, 6)


def case_bytes(ctx, rseed, count):
    """Undecodable / arbitrary bytes in a file -> from_file(path): ValueError (UnicodeDecodeError is one) or a
    reading of the decoded text."""
    ref.selfcheck()
    CNF = cnf_classes()["CNF"]
    r = ctx.rng("c06-bytes", rseed)
    with Scratch() as scratch:
        for _ in range(count):
            base = base_text(r)[0].encode()
            x = r.random()
            if x < 0.4:
                i = r.randrange(len(base) + 1)
                raw = base[:i] + bytes([r.choice([0xff, 0xfe, 0xc0, 0x80, 0xe2, 0xf5])]) + base[i:]
            elif x < 0.6:
                raw = bytes(r.randrange(256) for _ in range(r.choice([1, 4, 30, 200])))
            elif x < 0.8:
                raw = base.decode().encode("utf-16")
            else:
                raw = b"\xef\xbb\xbf" + base
            try:
                seen = ref.universal_newlines(raw.decode("utf-8"))
            except UnicodeDecodeError:
                seen = None
            outcome = read_path(ctx, CNF, None, scratch, raw=raw)
            if seen is not None:
                judge_reading(ctx, outcome, seen, "path", "bytes")
                continue
            ctx.count("read_route:path")
            st, val = outcome
            if st == "ok":
                ctx.violation("dimacs-reader:accepts:undecodable-bytes", "from_file(path) accepted %r" % raw[:60])
            elif not isinstance(val, ValueError):
                ctx.violation("dimacs-reader:raises:" + type(val).__name__,
                              "from_file(path) on bytes %r raised %r" % (raw[:60], val))
            else:
                ctx.count("undecodable_bytes_refused")
            ctx.judged(("read-bytes", "path", hashlib.blake2b(raw, digest_size=8).hexdigest()),
                       sample={"route": "path", "bytes": repr(raw[:60]), "reader": repr(val)[:80]})


def case_cli_texts(ctx, rseed, count):
    """Texts -> `cnfgen -q dimacs` and `cnfshuffle -p -v -c` (file argument and standard input)."""
    ref.selfcheck()
    r = ctx.rng("c06-cli-texts", rseed)
    with Scratch() as scratch:
        for i in range(count):
            x = r.random()
            if x < 0.25:
                text, why = base_text(r)[0], "writer-shaped"
            elif x < 0.8:
                text, n, _ = base_text(r)
                kind, text = mutate(r, text, n)
                why = "mutated(" + kind + ")"
            elif x < 0.9:
                text, why = grammar_text(r), "grammar"
            else:
                text, why = junk_text(r), "junk"
            if not encodable(text):
                continue
            if i % 4 == 0:
                cli_reads(ctx, "cnfgen", text, scratch, why, via_stdin=(i % 8 == 0))
            cli_reads(ctx, "cnfshuffle", text, scratch, why, via_stdin=(i % 3 == 0))
        raw = b"p cnf 2 1\n1 \xff\xfe 0\n"
        cli_reads(ctx, "cnfgen", None, scratch, "bytes", raw=raw)
        cli_reads(ctx, "cnfshuffle", None, scratch, "bytes", raw=raw)


# ---------------------------------------------------------------------------
# ---------------------------------------------------------------------------
# large texts and export histories (added after round-2 seeded changes)
# ---------------------------------------------------------------------------
def case_big_texts(ctx, rseed):
    """Texts well beyond 64 KiB (a reader that consumes its input in blocks must not glue or split tokens)."""
    r = ctx.rng("c06big", rseed)
    CNF = cnf_classes()[0] if isinstance(cnf_classes(), (list, tuple)) else list(cnf_classes().values())[0]
    scratch_dir = tempfile.mkdtemp(prefix="c06big-")
    try:
        for rounds in range(3):
            n = r.choice([99, 1200, 5000, 12345])
            m = r.choice([r.randint(9000, 16000), 8192, 16384, 3 * 4096, 65536, 32768 + r.choice([-1, 0, 1])])   # also block-sized counts
            clauses = [[r.choice([1, -1]) * r.randint(1, n) for _ in range(r.randint(1, 4))] for _ in range(m)]
            # pad so that multiples of 65536 fall at varying places inside clause lines
            lines = ["c %s" % ("x" * r.randint(0, 40)), "p cnf %d %d" % (n, m)] + [" ".join(map(str, c + [0])) for c in clauses]
            text = "\n".join(lines) + "\n"
            ctx.count("big_texts")
            ctx.count("big_text_chars", len(text))
            routes = [("stringio", lambda: ctx.call(CNF.from_file, io.StringIO(text)))]
            path = os.path.join(scratch_dir, "big%d.cnf" % rounds)
            with open(path, "w") as f:
                f.write(text)
            routes.append(("path", lambda: ctx.call(CNF.from_file, path)))
            for route, run in routes:
                st, F = run()
                label = "a %d-character DIMACS text (%d variables, %d clauses) read through %s" % (len(text), n, m, route)
                if st == "exc":
                    ctx.violation("dimacs-reader:big-text:refused:%s" % type(F).__name__, "%s raised %r" % (label, F))
                    continue
                got = [list(c) for c in F]
                if F.number_of_variables() != n or got != clauses:
                    i = next((i for i, (a, b) in enumerate(zip(got, clauses)) if a != b), min(len(got), len(clauses)))
                    ctx.violation("dimacs-reader:big-text:misread", "%s: %d variables, %d clauses; clause #%d read as %r, written as %r"
                                  % (label, F.number_of_variables(), len(got), i, got[i:i + 1], clauses[i:i + 1]))
                    continue
                # and back: the writer's text of the large formula
                out = F.to_dimacs()
                st2, F2 = ctx.call(CNF.from_file, io.StringIO(out))
                if st2 == "exc" or [list(c) for c in F2] != clauses or F2.number_of_variables() != n:
                    ctx.violation("roundtrip:big-formula", "%s: writing and reading it again changes the formula" % label)
                try:
                    rn, rc = ref.read(out)
                    if rn != n or [list(c) for c in rc] != clauses:
                        ctx.violation("dimacs-writer:big-formula:text-denotes-another-formula",
                                      "%s: the text written for it declares/holds %d variables, %d clauses" % (label, rn, len(rc)))
                except Exception as e:      # noqa: BLE001 - ref.Rejected
                    ctx.violation("dimacs-writer:big-formula:output-not-readable", "%s: the text written for it: %r" % (label, e))
                ctx.judged(("big-text", n, m, route, rseed, rounds), nontrivial=True,
                           sample={"chars": len(text), "variables": n, "clauses": m, "route": route})
    finally:
        shutil.rmtree(scratch_dir, ignore_errors=True)


def case_view_formulas(ctx, rseed, count):
    """Formulas of a user's own subclass of CNF that *presents* its clauses through the sequence protocol (vmon/ducks.py):
    every export route must write what the object presents."""
    from ..ducks import view_cnf
    r = ctx.rng("c06view", rseed)
    with Scratch() as scratch:
        for k in range(count):
            n = r.randint(1, 9)
            shown = [[r.choice([1, -1]) * r.randint(1, n) for _ in range(r.randint(0, 4))] for _ in range(r.randint(0, 7))]
            stored = shown + [[r.choice([1, -1]) * r.randint(1, n)] for _ in range(r.randint(1, 3))] if r.random() < 0.5 else None
            F = view_cnf(n, shown, stored)
            texts = []
            st, t = ctx.call(F.to_dimacs)
            texts.append(("to_dimacs()", st, t))
            buf = io.StringIO()
            st, t = ctx.call(F.to_file, buf, fileformat="dimacs", export_header=bool(k % 2), export_varnames=bool(k % 3 == 0))
            texts.append(("to_file(StringIO)", st, buf.getvalue() if st == "ok" else t))
            path = os.path.join(scratch.dir, "view%d.cnf" % k)
            st, t = ctx.call(F.to_file, path)
            texts.append(("to_file(path)", st, open(path).read() if st == "ok" else t))
            for how, st, text in texts:
                ctx.count("view_formula_exports")
                label = "%s of a CNF subclass presenting %d clauses over %d variables (its table holds %d)" % (how, len(shown), n, len(F._clauses))
                if st == "exc":
                    ctx.violation("dimacs-writer:user-class:raises:%s" % type(text).__name__, "%s raised %r" % (label, text))
                    continue
                try:
                    gn, gc = ref.read(text)
                except Exception as e:      # noqa: BLE001 - ref.Rejected
                    ctx.violation("dimacs-writer:user-class:output-not-readable", "%s: %r" % (label, e))
                    continue
                if gn != n or [list(c) for c in gc] != shown:
                    ctx.violation("dimacs-writer:user-class:text-denotes-another-formula",
                                  "%s: the text says 'p cnf %d %d' and holds %r..., the object presents %r..." % (label, gn, len(gc), gc[:3], shown[:3]))
            ctx.judged(("view-formula", n, tuple(map(tuple, shown)), stored is None), nontrivial=len(shown) > 0,
                       sample={"variables": n, "presented": shown[:4], "stored": len(F._clauses)})


class _FailingStream(io.StringIO):
    def __init__(self, writes):
        io.StringIO.__init__(self)
        self.left = writes

    def write(self, text):
        if self.left <= 0:
            raise OSError(28, "No space left on device")
        self.left -= 1
        return io.StringIO.write(self, text)


class _NestingStream(io.StringIO):
    def __init__(self, inner, at):
        io.StringIO.__init__(self)
        self.inner, self.at, self.calls, self.fired = inner, at, 0, False

    def write(self, text):
        self.calls += 1
        if not self.fired and self.calls > self.at:
            self.fired = True
            self.inner()
        return io.StringIO.write(self, text)


def case_interrupted_and_nested(ctx, rseed, count):
    """An export that fails because of its destination followed by an ordinary export of another formula, and an export
    during which another formula is exported (from inside the stream's write): each text is its own formula's."""
    r = ctx.rng("c06nest", rseed)
    K = cnf_classes()["CNF"] if isinstance(cnf_classes(), dict) else list(cnf_classes())[0]

    def rand_formula():
        n = r.randint(1, 12)
        cl = [[r.choice([1, -1]) * r.randint(1, n) for _ in range(r.randint(0, 4))] for _ in range(r.randint(0, 30))]
        F = K()
        F.update_variable_number(n)
        F.add_clauses_from(cl)
        F.header["note"] = "formula %d" % r.randint(0, 999)
        return F, n, cl

    def same(text, n, cl):
        try:
            rn, rc = ref.read(text)
        except Exception:       # noqa: BLE001 - ref.Rejected
            return False
        return rn == n and [list(c) for c in rc] == cl
    for _ in range(count):
        A, nA, cA = rand_formula()
        B, nB, cB = rand_formula()
        for writes in (0, 1, 2, 3, 7, 20):
            ctx.call(A.to_file, _FailingStream(writes), fileformat="dimacs")
        closed = io.StringIO()
        closed.close()
        ctx.call(A.to_file, closed, fileformat="dimacs")
        ctx.count("exports_interrupted_by_their_destination", 7)
        buf = io.StringIO()
        st, v = ctx.call(B.to_file, buf, fileformat="dimacs")
        if st == "exc" or not same(buf.getvalue(), nB, cB) or not same(B.to_dimacs(), nB, cB):
            ctx.violation("dimacs-writer:after-interrupted-export", "after exports of another formula that failed at their destination, the text "
                          "written for a %d-variable %d-clause formula is %r..." % (nB, len(cB), (buf.getvalue() if st == "ok" else repr(v))[:120]))
        inner = io.StringIO()
        outer = _NestingStream(lambda: B.to_file(inner, fileformat="dimacs", export_varnames=True), r.choice([0, 1, 2, 4, 8, 16]))
        st, v = ctx.call(A.to_file, outer, fileformat="dimacs")
        ctx.count("nested_exports")
        if not outer.fired:
            B.to_file(inner, fileformat="dimacs")
        if st == "exc" or not same(outer.getvalue(), nA, cA) or not same(inner.getvalue(), nB, cB):
            ctx.violation("dimacs-writer:nested-export", "an export during which another formula is exported: outer text %r..., inner text %r..."
                          % ((outer.getvalue() if st == "ok" else repr(v))[:100], inner.getvalue()[:100]))
        ctx.judged(("nested", nA, tuple(map(tuple, cA)), nB, tuple(map(tuple, cB))), nontrivial=bool(cA or cB), sample={"outer_clauses": len(cA), "inner_clauses": len(cB)})


def case_count_sweep(ctx, counts):
    """Formulas with every clause count in a range (a fast path of the writer or the reader may begin at any
    unremarkable size), written by both routes and read back by the library and by the reference reader."""
    K = cnf_classes()["CNF"] if isinstance(cnf_classes(), dict) else list(cnf_classes())[0]
    for m in counts:
        n = 40 + m % 17
        clauses = [[(i % n) + 1, -(((i * 7 + 3) % n) + 1)] if i % 3 else [-((i % n) + 1)] for i in range(m)]
        F = K()
        F.update_variable_number(n)
        F.add_clauses_from(clauses, check=False)
        buf = io.StringIO()
        F.to_file(buf, fileformat="dimacs", export_header=bool(m % 2))
        routes = [("to_dimacs", F.to_dimacs()), ("to_file", buf.getvalue())]
        if m % 4 == 0:
            # streams that have no file name (an anonymous temporary file reports a descriptor number, a spooled one
            # None): written without naming a format (DIMACS is the default), read back from the same stream
            import tempfile
            for mk, tag in ((lambda: tempfile.TemporaryFile("w+", encoding="utf-8"), "TemporaryFile"),
                            (lambda: tempfile.SpooledTemporaryFile(mode="w+", encoding="utf-8"), "SpooledTemporaryFile")):
                with mk() as fh:
                    st, v = ctx.call(F.to_file, fh)
                    ctx.count("nameless_stream_exports")
                    if st == "exc":
                        ctx.violation("dimacs-writer:nameless-stream:raises:%s" % type(v).__name__, "to_file(%s) without a format raised %r" % (tag, v))
                        continue
                    fh.seek(0)
                    routes.append(("to_file(%s)" % tag, fh.read()))
                    fh.seek(0)
                    st, G = ctx.call(K.from_file, fh)
                    if st == "exc" or G.number_of_variables() != n or [list(c) for c in G] != clauses:
                        ctx.violation("dimacs-reader:nameless-stream:%s" % (type(G).__name__ if st == "exc" else "misread"),
                                      "from_file(%s) of a written text with %d clauses: %r" % (tag, m, G if st == "exc" else len(G)))
        for how, text in routes:
            ctx.count("count_sweep_exports")
            try:
                rn, rc = ref.read(text)
            except Exception as e:      # noqa: BLE001 - ref.Rejected
                ctx.violation("dimacs-writer:count-sweep:output-not-readable", "%s of a formula with %d clauses: %r" % (how, m, e))
                continue
            if rn != n or [list(c) for c in rc] != clauses:
                ctx.violation("dimacs-writer:count-sweep:text-denotes-another-formula",
                              "%s of a formula with %d variables and %d clauses: the text holds %d / %d" % (how, n, m, rn, len(rc)))
            st, G = ctx.call(K.from_file, io.StringIO(text))
            if st == "exc" or G.number_of_variables() != n or [list(c) for c in G] != clauses:
                ctx.violation("dimacs-reader:count-sweep:misread", "a written text with %d clauses read back as %r" % (m, G if st == "exc" else len(G)))
        ctx.judged(("count-sweep", m), nontrivial=m > 0, sample={"clauses": m})


def case_block_boundaries(ctx, powers):
    """A clause written over many lines (one literal per line) placed so that it straddles the 2^k-th character of the
    text, for every k in a range: a reader that consumes its input in blocks must carry the unfinished clause over."""
    K = cnf_classes()["CNF"] if isinstance(cnf_classes(), dict) else list(cnf_classes())[0]
    with Scratch() as scratch:
        for k in powers:
            for shift in (0, 37):
                lits = [((i * 7) % 60 + 1) * (1 if i % 3 else -1) for i in range(40)]
                lits = [l for i, l in enumerate(lits) if -l not in lits[:i] and l not in lits[:i]]
                head = "p cnf 60 3\n1 -2 0\n"
                spread = "\n".join(str(l) for l in lits) + "\n0\n"
                tail = "-3 4 0\n"
                pad_total = (1 << k) - len(head) - len(spread) // 2 - shift
                if pad_total < 4:
                    continue
                line = "c " + "x" * 997 + "\n"
                pad = line * (pad_total // len(line)) + "c " + "y" * max(0, pad_total % len(line) - 3) + "\n"
                text = head + pad + spread + tail
                want = [[1, -2], lits, [-3, 4]]
                path = os.path.join(scratch.dir, "b%d_%d.cnf" % (k, shift))
                with open(path, "w") as f:
                    f.write(text)
                for route, run in (("stringio", lambda: ctx.call(K.from_file, io.StringIO(text))), ("path", lambda: ctx.call(K.from_file, path))):
                    st, F = run()
                    ctx.count("block_boundary_texts")
                    label = "a %d-character DIMACS text whose 40-line clause straddles character 2^%d, read through %s" % (len(text), k, route)
                    if st == "exc":
                        ctx.violation("dimacs-reader:block-boundary:refused:%s" % type(F).__name__, "%s raised %r" % (label, F))
                    elif F.number_of_variables() != 60 or [list(c) for c in F] != want:
                        ctx.violation("dimacs-reader:block-boundary:misread", "%s: read %r" % (label, [list(c) for c in F][:3]))
                    ctx.judged(("block-boundary", k, shift, route), nontrivial=True, sample={"chars": len(text), "power": k, "route": route})
                os.unlink(path)


def case_export_histories(ctx, rseed, count):
    """One formula object exported several times with edits in between: every export must show the current state."""
    r = ctx.rng("c06hist", rseed)
    classes = cnf_classes()
    classes = list(classes.values()) if isinstance(classes, dict) else list(classes)
    for _ in range(count):
        K = r.choice(classes)
        F = K()
        steps = []
        for step in range(r.randint(3, 9)):
            op = r.choice(["clause", "grow", "grow", "variable", "block", "header", "export", "export", "linear", "linear", "clauses"])
            n = F.number_of_variables()
            if op == "linear" and hasattr(F, "add_linear"):
                # every public way to add constraints, including ones that are trivially true (no clause comes out of
                # them) or trivially false but still mention a new highest variable
                top = n + r.choice([0, 1, 1, 3])
                lits = sorted({r.choice([1, -1]) * v for v in r.sample(range(1, top + 1), min(top, r.randint(1, 3)))} | {top}, key=abs) if top else []
                lits = [l for i, l in enumerate(lits) if abs(l) not in [abs(x) for x in lits[:i]]]
                how = r.randrange(8)
                op = "linear:%d:%r" % (how, lits)
                if how == 0:
                    F.add_linear(lits, "<=", len(lits) + r.randint(0, 1))
                elif how == 1:
                    F.cardinality_geq(lits, r.choice([0, 0, -1, 1]))
                elif how == 2:
                    F.cardinality_neq(lits, len(lits) + 2)
                elif how == 3:
                    F.cardinality_leq(lits, len(lits))
                elif how == 4:
                    F.add_linear(lits, ">=", r.randint(-1, 0))
                elif how == 5:
                    F.add_parity(lits, r.randint(0, 1))
                elif how == 6:
                    F.cardinality_eq(lits, r.randint(0, len(lits)))
                else:
                    F.add_linear(lits, "!=", -1)
            elif op == "clauses":
                top = n + r.choice([0, 0, 2])
                F.add_clauses_from([[r.choice([1, -1]) * r.randint(1, top) for _ in range(r.randint(1, 3))] for _ in range(r.randint(0, 2))] if top else [])
            elif op == "clause":
                top = n + r.choice([0, 0, 2])
                F.add_clause([r.choice([1, -1]) * r.randint(1, top) for _ in range(r.randint(0, 3))] if top else [])
            elif op == "grow":
                F.update_variable_number(n + r.randint(1, 3))
            elif op == "variable" and hasattr(F, "new_variable"):
                F.new_variable("v%d" % step)
            elif op == "block" and hasattr(F, "new_block"):
                F.new_block(r.randint(1, 2), label="b_{}")
            elif op == "header":
                F.header["step %d" % step] = "edited"
            steps.append(op)
            want_n, want = F.number_of_variables(), [list(c) for c in F]
            exports = [("to_dimacs", F.to_dimacs())]
            buf = io.StringIO()
            F.to_file(buf, fileformat="dimacs", export_header=bool(step % 2), export_varnames=bool(step % 3 == 0))
            exports.append(("to_file", buf.getvalue()))
            for how, text in exports:
                ctx.count("history_exports")
                try:
                    got_n, got = ref.read(text)
                except Exception as e:      # noqa: BLE001 - ref.Rejected
                    ctx.violation("dimacs-writer:history:output-not-readable", "%s after %r: %r" % (how, steps, e))
                    break
                if got_n != want_n or [list(c) for c in got] != want:
                    ctx.violation("dimacs-writer:history:export-shows-an-earlier-state",
                                  "%s after %r says 'p cnf %d %d', the formula has %d variables and %d clauses"
                                  % (how, steps, got_n, len(got), want_n, len(want)))
                    break
            else:
                continue
            break
        ctx.judged(("export-history", K.__name__, tuple(steps), rseed), nontrivial=True,
                   sample={"class": K.__name__, "history": steps})


def _workload(tier, seed):
    q = tier == "quick"
    for b in range(2 if q else 12):
        yield "big_texts", {"rseed": seed * 1000 + b}
    for b in range(4 if q else 60):
        yield "export_histories", {"rseed": seed * 1000 + b, "count": 60}
    for b in range(2 if q else 30):
        yield "view_formulas", {"rseed": seed * 1000 + b, "count": 40}
        yield "interrupted_and_nested", {"rseed": seed * 1000 + b, "count": 40}
    sweep = list(range(seed % 7, 2300, 7)) if q else list(range(0, 5200))
    for i in range(0, len(sweep), 80):
        yield "count_sweep", {"counts": sweep[i:i + 80]}
    for ks in ([10, 12, 13], [16, 17], [20], [22], [23]) if q else ([9, 10, 11, 12, 13, 14, 15], [16, 17, 18], [19, 20], [21], [22], [23], [24]):
        yield "block_boundaries", {"powers": ks}
    # writer / round trip
    for mode, batches in (("plain", 4 if q else 60), ("unusual", 12 if q else 240), ("breaks", 4 if q else 40)):
        for b in range(batches):
            yield "handbuilt", {"mode": mode, "rseed": seed * 1000 + b, "count": 40}
    yield "minimal_witnesses", {}
    yield "kthlist_names", {"names": ["a graph", "", None, "pyramid of height 2 ", "x\ty", "\u00e9", "p cnf 1 1", "c"]}
    yield "input_file_names", {"names": ["plain.cnf", "with space.cnf", "new\nline.cnf", "\u00e9.cnf", "c.cnf",
                                         "cr\rhere.cnf", "p cnf 1 1", "%.cnf", "packed.cnf.gz", "packed.cnf.bz2", "packed.cnf.xz", "PACKED.CNF.GZ",
                                         "old.lzma", "f.zip", "f.tar", "f.cnf~", "noext", ".cnf", "f.opb", "f.tex", "f.latex", "f.dimacs", "{x}.cnf",
                                         "vertex", "cortex", "instance.vertex", "dropb", ".tex", ".opb", "tex", "opb", "latex", "f.TEX", "f.Opb",
                                         "f.tex.bak", "f.opb.cnf", "f.texx", "a.b.c", "f.", "f.cnf.tex.cnf", "dimacs", "cnf"]}
    yield "few_descriptors", {}
    for i, fam in enumerate(FAMILIES):
        yield "family", {"family": fam, "chain": "", "seed": seed + 1}
        for j in range(1 if q else 4):
            yield "family", {"family": fam, "chain": LIGHT_CHAINS[(i + j) % len(LIGHT_CHAINS)], "seed": seed + 2}
    for i, fam in enumerate(SMALL_FAMILIES):
        for j, ch in enumerate(CHAINS):
            if not q or i == 0 or (i + j) % 5 == 0:
                yield "family", {"family": fam, "chain": ch, "seed": seed + 3}
    # reader
    nb = 1 if q else 30
    for b in range(16 * nb):
        yield "texts", {"source": "mutated", "rseed": seed * 1000 + b, "count": 1000}
    for b in range(4 * nb):
        yield "texts", {"source": "shaped", "rseed": seed * 1000 + b, "count": 600}
        yield "texts", {"source": "grammar", "rseed": seed * 1000 + b, "count": 1000}
        yield "texts", {"source": "junk", "rseed": seed * 1000 + b, "count": 1000}
        yield "bytes", {"rseed": seed * 1000 + b, "count": 300}
    for b in range(16 if q else 240):
        yield "cli_texts", {"rseed": seed * 1000 + b, "count": 60}


def workload(tier, seed):
    """The cases of _workload, interleaved by kind so that every shard gets the same mix."""
    groups = {}
    for name, args in _workload(tier, seed):
        groups.setdefault((name, args.get("source") or args.get("mode")), []).append((name, args))
    # the two fixed cases first: the witness kept for a mechanism is the first one met, and the natural
    # source of a line break in a header (a graph name read from a file) is the one worth replaying
    for g in [g for g in groups.values() if len(g) == 1]:
        yield g[0]
    queues = sorted((g for g in groups.values() if len(g) > 1), key=len, reverse=True)
    total = sum(len(g) for g in queues)
    # largest-remainder round robin: position i of a group of size k sits at (i + 0.5) / k
    order = sorted(((i + 0.5) / len(g), gi, i) for gi, g in enumerate(queues) for i in range(len(g)))
    assert len(order) == total
    for _, gi, i in order:
        yield queues[gi][i]

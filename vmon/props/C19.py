"""C19 -- transformations leave their inputs untouched and record provenance.

icontract contracts (vmon.monitors.immut) snapshot every argument before a call
and compare it afterwards; an aliasing probe then mutates the *result* and
re-compares the input; the result header is checked for the original
description, earlier entries and one numbered 'transformation' entry per step.
"""
import itertools
import re
import random

from ..monitors import immut

PYTHON_O_STRIDE = {"quick": 4, "thorough": 2}      # every n-th case is repeated in an interpreter started with -O
RULE = ("(callable, arguments): every transformation (incl. Shuffle with explicit list arguments, compression with a graph) on "
        "family formulas and hand-built ones, chains of length 1-4; every family generator with cnfgen and networkx graph "
        "arguments; every list-taking API (Tseitin charges, bipartite_shift pattern, RandomKCNF/KXOR planted assignments, "
        "constraint builders with list literals incl. '!=', new_block ranges, VanDerWaerden lengths, Shuffle arguments).  "
        "distinct = (callable, canonical arguments); trivial = call without snapshot-able argument.")
ASSUMPTIONS = ["'keeps the original description' is read as *contains* (Shuffle appends ' (reshuffled)')",
               "'-T none' is documented to return the same object and is excluded from 'returns a new formula'",
               "graph *modifiers* (add_random_missing_edges, split_random_edges) are documented to work in place and are not judged"]
REQUIRED = ["contract_evaluations", "transformations_called", "aliasing_probes", "provenance_checks", "graph_arguments",
            "networkx_arguments", "list_arguments", "chains", "calls_that_raised_compared", "long_chains", "nx_attribute_spellings"]
CASE_TIMEOUT = {"quick": 300, "thorough": 1800}

_contracted = {}


def C(fn, label):
    key = (id(fn), label)
    if key not in _contracted:
        _contracted[key] = immut.contracted(fn, label)
    return _contracted[key]


def checked_call(ctx, label, fn, *args, **kwargs):
    """Call fn through its contract.  Returns ('ok', result) / ('exc', e); findings become violations."""
    before = ([immut.state_of(a) for a in args], {k: immut.state_of(v) for k, v in kwargs.items()})
    start = len(immut.FINDINGS)
    st, res = ctx.call(C(fn, label), *args, **kwargs)
    ctx.counters["contract_evaluations"] = immut.EVALUATIONS["n"]
    for (lab, which, what) in immut.FINDINGS[start:]:
        ctx.violation("%s:mutates-argument" % lab, "%s: %s %s" % (lab, which, what))
    if st == "exc":
        if isinstance(res, immut.ContractBroken):
            raise res
        # contracts are not evaluated after a raise: compare by hand
        ctx.count("calls_that_raised_compared")
        for i, (o, a) in enumerate(zip(before[0], args)):
            if o is not None and immut.state_of(a) != o:
                ctx.violation("%s:mutates-argument-then-raises" % label, "%s raised %r and left argument %d changed: %s"
                              % (label, res, i, immut.describe_change(o, immut.state_of(a))))
        for k, o in before[1].items():
            if o is not None and immut.state_of(kwargs[k]) != o:
                ctx.violation("%s:mutates-argument-then-raises" % label, "%s raised %r and left argument %s changed" % (label, res, k))
    return st, res


# ------------------------------------------------------------------ transformations
def transformations(r):
    import cnfgen as g
    from cnfgen.graphs import BipartiteGraph

    def comp(fn_name):
        def run(F):
            n = F.number_of_variables()
            R = max(1, n // 2 + 1)
            B = BipartiteGraph(n, R)
            for u in range(1, n + 1):
                for v in r.sample(range(1, R + 1), min(R, 2)):
                    B.add_edge(u, v)
            return checked_call_holder["call"]("VariableCompression[%s]" % fn_name, g.VariableCompression, F, B, fn_name)
        return run

    def shuffle_explicit(F):
        n, m = F.number_of_variables(), len(F)
        flips = [r.choice([1, -1]) for _ in range(n)]
        perm = list(range(1, n + 1))
        r.shuffle(perm)
        cp = list(range(m))
        r.shuffle(cp)
        return checked_call_holder["call"]("Shuffle[explicit lists]", g.Shuffle, F, flips, perm, cp)
    one = lambda label, fn, *a: (label, lambda F: checked_call_holder["call"](label, fn, F, *a))
    return [one("XorSubstitution", g.XorSubstitution, 2), one("OrSubstitution", g.OrSubstitution, 2),
            one("MajoritySubstitution", g.MajoritySubstitution, 3), one("AllEqualSubstitution", g.AllEqualSubstitution, 2),
            one("NotAllEqualSubstitution", g.NotAllEqualSubstitution, 3), one("ExactlyOneSubstitution", g.ExactlyOneSubstitution, 2),
            one("ExactlyKSubstitution", g.ExactlyKSubstitution, 3, 2), one("AtLeastKSubstitution", g.AtLeastKSubstitution, 3, 2),
            one("AtMostKSubstitution", g.AtMostKSubstitution, 3, 1), one("AnythingButKSubstitution", g.AnythingButKSubstitution, 3, 1),
            one("IfThenElseSubstitution", g.IfThenElseSubstitution), one("FormulaLifting", g.FormulaLifting, 2),
            one("FlipPolarity", g.FlipPolarity), one("Shuffle", g.Shuffle),
            ("Shuffle[explicit lists]", shuffle_explicit),
            ("VariableCompression[xor]", comp("xor")), ("VariableCompression[maj]", comp("maj"))]


checked_call_holder = {}


def base_formulas(r):
    import cnfgen as g
    from cnfgen.formula.cnf import CNF
    out = []
    out.append(("php 3 2", g.PigeonholePrinciple(3, 2)))
    out.append(("op 3", g.OrderingPrinciple(3)))
    out.append(("count 4 2", g.CountingPrinciple(4, 2)))
    out.append(("randkcnf", g.RandomKCNF(3, 5, 6, seed=r.randint(0, 999))))
    F = CNF(description="hand-built")
    F.add_clause([1, -2])
    F.add_clause([])
    F.add_clause([2, 2, -2])
    F.update_variable_number(4)
    F.header["note"] = "an extra header entry"
    out.append(("handbuilt", F))
    out.append(("empty", CNF()))
    v = CNF(description="named variables")
    x = v.new_variable("X")
    b = v.new_block(2, label="b_{}")
    v.add_clause([x, -b(1)])
    v.add_clause([b(2)])
    out.append(("named", v))
    return out


def header_check(ctx, label, before_items, T, steps_before):
    """original description kept, earlier entries kept, exactly one more numbered transformation entry."""
    ctx.count("provenance_checks")
    h = T.header
    items = list(h.items())
    keys = [k for k, _ in items]
    bd = dict(before_items)
    desc = bd.get("description")
    if desc is not None and desc not in str(h.get("description", "")):
        ctx.violation("%s:header-loses-description" % label, "%s: description %r became %r" % (label, desc, h.get("description")))
    for k, v in before_items:
        if k == "description":
            continue
        if k not in h or str(h[k]) != v:
            ctx.violation("%s:header-loses-entry" % label, "%s: entry %r=%r became %r" % (label, k, v, h.get(k)))
    tkeys = [k for k in keys if re.match(r"transformation [0-9]+$", k)]
    if tkeys != ["transformation %d" % i for i in range(1, steps_before + 2)]:
        ctx.violation("%s:header-transformation-entries" % label, "%s: transformation entries are %r after %d earlier step(s)"
                      % (label, tkeys, steps_before))


def aliasing_probe(ctx, label, F, T):
    """Mutating the result must not show through in the input."""
    ctx.count("aliasing_probes")
    before = immut.formula_state(F)
    try:
        T.add_clause([1] if T.number_of_variables() else [])
        T.header["probe"] = "x"
        T.header["description"] = "changed"
        T.update_variable_number(T.number_of_variables() + 3)
        if len(T._clauses) > 0 and T._clauses[0]:
            T._clauses[0].append(T._clauses[0][0])
    except Exception:
        pass
    after = immut.formula_state(F)
    if after != before:
        ctx.violation("%s:result-aliases-input" % label, "%s: mutating the result changed the input: %s"
                      % (label, immut.describe_change(before, after)))


def case_transformations(ctx, rseed, maxchain):
    r = ctx.rng("c19t", rseed)
    checked_call_holder["call"] = lambda label, fn, *a, **kw: checked_call(ctx, label, fn, *a, **kw)
    ts = transformations(r)
    for bname, F0 in base_formulas(r):
        for length in range(1, maxchain + 1):
            combos = list(itertools.product(range(len(ts)), repeat=length)) if length == 1 else \
                [tuple(r.randrange(len(ts)) for _ in range(length)) for _ in range(6 if ctx.tier == "quick" else 30)]
            for combo in combos:
                F = F0
                steps = 0
                ok = True
                if length > 1:
                    ctx.count("chains")
                names = []
                for idx in combo:
                    label, run = ts[idx]
                    names.append(label)
                    w = max([len(c) for c in F] or [0])
                    if F.number_of_variables() > 40 or len(F) * (3 ** w) > 4000:
                        break          # substitutions distribute over clauses: keep the chain affordable
                    hb = [(k, str(v)) for k, v in F.header.items()]
                    random.seed(r.randint(0, 10 ** 6))
                    st, T = run(F)
                    ctx.count("transformations_called")
                    if st == "exc":
                        ctx.violation("%s:raises:%s" % (label, type(T).__name__), "%s on %s raised %r" % (label, bname, T))
                        ok = False
                        break
                    if T is F:
                        ctx.violation("%s:returns-its-input" % label, "%s on %s returned the same object" % (label, bname))
                    header_check(ctx, label, hb, T, steps)
                    steps += 1
                    F = T
                    if length > 1 and r.random() < 0.4:
                        # the owner of the intermediate formula annotates it before going on
                        F.header[r.choice(["note %d" % steps, "command line", "checked", "transformation note"])] = "looked at after step %d" % steps
                        ctx.count("annotated_between_steps")
                        if r.random() < 0.4:
                            # ... or blanks the text of an earlier step (the entry stays, its number stays taken)
                            F.header["transformation %d" % r.randint(1, steps)] = r.choice(["", None, 0, " "])
                            ctx.count("earlier_step_text_blanked")
                if ok and F is not F0:
                    # probe the last link of the chain: its input is the previous formula
                    pass
                ctx.judged(("chain", bname, tuple(names)), nontrivial=True,
                           sample={"base": bname, "chain": names, "final_header_keys": list(F.header.keys())})
        # aliasing probes: one fresh application per transformation
        for label, run in ts:
            random.seed(r.randint(0, 10 ** 6))
            st, T = run(F0)
            if st == "ok" and T is not F0:
                aliasing_probe(ctx, label, F0, T)


# ------------------------------------------------------------------ families with graph arguments
def graph_pairs(r):
    """(kind, cnfgen graph, same graph as networkx)"""
    import networkx
    from cnfgen.graphs import Graph, BipartiteGraph, DirectedGraph
    out = []
    G = Graph(5, name="C19 graph")
    for e in ((1, 2), (2, 3), (3, 4), (4, 5), (1, 5), (1, 3)):
        G.add_edge(*e)
    X = networkx.Graph(name="C19 nx graph")
    X.add_nodes_from(range(1, 6))
    X.add_edges_from(G.edges())
    out.append(("simple", G, X))
    E = Graph(4, name="even degrees")
    for e in ((1, 2), (2, 3), (3, 4), (1, 4)):
        E.add_edge(*e)
    XE = networkx.cycle_graph(4)
    out.append(("even", E, XE))
    B = BipartiteGraph(3, 3, name="C19 bipartite")
    for e in ((1, 1), (1, 2), (2, 2), (3, 3), (3, 1)):
        B.add_edge(*e)
    XB = networkx.Graph(name="C19 nx bipartite")
    XB.add_nodes_from([1, 2, 3], bipartite=0)
    XB.add_nodes_from([4, 5, 6], bipartite=1)
    XB.add_edges_from((u, v + 3) for u, v in B.edges())
    out.append(("bipartite", B, XB))
    D = DirectedGraph(4, name="C19 dag")
    for e in ((1, 2), (1, 3), (2, 4), (3, 4)):
        D.add_edge(*e)
    XD = networkx.DiGraph(name="C19 nx dag")
    XD.add_nodes_from(range(1, 5))
    XD.add_edges_from(D.edges())
    out.append(("dag", D, XD))
    return out


def family_calls():
    import cnfgen as g
    return {
        "simple": [("PerfectMatchingPrinciple", g.PerfectMatchingPrinciple, ()), ("TseitinFormula", g.TseitinFormula, ()),
                   ("GraphColoringFormula", g.GraphColoringFormula, (3,)), ("DominatingSet", g.DominatingSet, (2,)),
                   ("Tiling", g.Tiling, ()), ("GraphAutomorphism", g.GraphAutomorphism, ()),
                   ("CliqueFormula", g.CliqueFormula, (3,)), ("BinaryCliqueFormula", g.BinaryCliqueFormula, (3,)),
                   ("RamseyWitnessFormula", g.RamseyWitnessFormula, (3, 3)),
                   ("GraphOrderingPrinciple", g.GraphOrderingPrinciple, ())],
        "even": [("EvenColoringFormula", g.EvenColoringFormula, ())],
        "bipartite": [("GraphPigeonholePrinciple", g.GraphPigeonholePrinciple, ()),
                      ("SubsetCardinalityFormula", g.SubsetCardinalityFormula, ())],
        "dag": [("PebblingFormula", g.PebblingFormula, ()), ("StoneFormula", g.StoneFormula, (2,))],
    }


def case_families(ctx, rseed):
    import cnfgen as g
    from cnfgen.formula.cnf import CNF
    from cnfgen.formula.opb import OPB
    r = ctx.rng("c19f", rseed)
    fams = family_calls()
    for kind, G, X in graph_pairs(r):
        for name, fn, extra in fams[kind]:
            for K in (CNF, OPB):
                import networkx as _nx
                odd = sorted(["", "\n", "!", "\\n", "]", "c", "graph", "node [", "~", "~~"])       # kept in the order of the vertices
                XO = _nx.relabel_nodes(X, {v: odd[i] for i, v in enumerate(sorted(X.nodes()))}, copy=True)
                for which, arg in (("cnfgen", G), ("networkx", X), ("networkx with text labels such as '\\n', '', 'graph'", XO)):
                    label = "%s(%s graph)" % (name, which)
                    st, F = checked_call(ctx, label, fn, arg, *extra, formula_class=K)
                    ctx.count("graph_arguments")
                    if which == "networkx":
                        ctx.count("networkx_arguments")
                    if st == "exc":
                        ctx.violation("%s:raises:%s" % (label, type(F).__name__), "%s raised %r" % (label, F))
                    ctx.judged(("family", name, which, K.__name__), nontrivial=True,
                               sample={"call": label, "class": K.__name__})
                # the same library graph without a name (G.name = None, the constructor's 'no name'): whether the family
                # copes with it is not this property's business, but the caller's object must stay as it is
                import copy
                for unnamed in ("None", "deleted"):
                    G2 = copy.deepcopy(G)
                    if unnamed == "None":
                        G2.name = None
                    else:
                        try:
                            del G2.name
                        except AttributeError:
                            continue
                    before = dict(vars(G2)) if hasattr(G2, "__dict__") else None
                    label = "%s(cnfgen graph whose name is %s)" % (name, unnamed)
                    try:
                        fn(G2, *extra, formula_class=K)
                        ctx.count("unnamed_graph_arguments")
                    except Exception:       # noqa: BLE001
                        ctx.count("unnamed_graph_arguments_declined")
                    if before is not None:
                        after = dict(vars(G2))
                        changed = sorted(k for k in set(before) | set(after) if k == "name" and (k in before) != (k in after) or
                                         (k == "name" and before.get(k) is not after.get(k)))
                        if changed:
                            ctx.violation("%s:argument-changed:graph-name" % name, "%s: the caller's graph had %s, afterwards its name is %r"
                                          % (label, "name None" if unnamed == "None" else "no name attribute", after.get("name", "<missing>")))
    # two-graph families
    _, G, X = graph_pairs(r)[0]
    for which, a, b in (("cnfgen", G, G), ("networkx", X, X), ("mixed", G, X)):
        for name, fn, kw in (("GraphIsomorphism", g.GraphIsomorphism, {}), ("SubgraphFormula", g.SubgraphFormula, {"induced": True})):
            label = "%s(%s graphs)" % (name, which)
            st, F = checked_call(ctx, label, fn, a, b, **kw)
            ctx.count("graph_arguments")
            if st == "exc":
                ctx.violation("%s:raises:%s" % (label, type(F).__name__), "%s raised %r" % (label, F))
            ctx.judged(("family2", name, which), nontrivial=True)
    # sparse stone: DAG + availability graph
    _, D, XD = graph_pairs(r)[3]
    from cnfgen.graphs import BipartiteGraph
    Bs = BipartiteGraph(4, 2)
    for u in range(1, 5):
        Bs.add_edge(u, 1 + u % 2)
    st, F = checked_call(ctx, "SparseStoneFormula", g.SparseStoneFormula, D, Bs)
    ctx.count("graph_arguments")
    if st == "exc":
        ctx.violation("SparseStoneFormula:raises:%s" % type(F).__name__, "raised %r" % (F,))
    ctx.judged(("family", "SparseStoneFormula"), nontrivial=True)


# ------------------------------------------------------------------ list-taking APIs
def case_lists(ctx, rseed):
    import cnfgen as g
    from cnfgen.formula.cnf import CNF
    from cnfgen.formula.opb import OPB
    from cnfgen.graphs import bipartite_shift, Graph
    r = ctx.rng("c19l", rseed)

    def run(label, fn, *a, **kw):
        st, res = checked_call(ctx, label, fn, *a, **kw)
        ctx.count("list_arguments")
        ctx.judged(("list", label, repr(a)[:200]), nontrivial=True, sample={"call": label, "args": repr(a)[:120]})
        return st, res
    G = Graph(4)
    for e in ((1, 2), (2, 3), (3, 4)):
        G.add_edge(*e)
    for charges in ([True, False, True, True], [1, 0], [0, 1, 1, 0, 1, 1], []):
        run("TseitinFormula(charges)", g.TseitinFormula, G, list(charges))
    for pattern in ([2, 0, 1], [3, 1], [0], [], [5, 4, 4, 1]):
        st, res = run("bipartite_shift(pattern)", bipartite_shift, 4, 4, list(pattern))
        if st == "exc":
            ctx.violation("bipartite_shift:raises:%s" % type(res).__name__, "bipartite_shift(4,4,%r) raised %r" % (pattern, res))
    planted = [[1, -2, 3, 4, -5], [-1, -2, 3, -4, 5]]
    run("RandomKCNF(planted)", g.RandomKCNF, 3, 5, 4, seed=3, planted_assignments=[list(p) for p in planted])
    run("RandomKXOR(planted)", g.RandomKXOR, 3, 5, 3, seed=3, planted_assignments=[list(p) for p in planted])
    # assignments given as mappings, sets, tuples and mixtures inside the caller's list: whatever the generator makes of
    # them (a refusal is fine), the caller's list keeps its elements
    for fam in (g.RandomKCNF, g.RandomKXOR):
        for mixed in ([{1: True, 2: False, 3: True, 4: True, 5: False}, [1, -2, 3, 4, -5]], [{1, -2, 3, 4, -5}], [(1, -2, 3, 4, -5), [1, -2, 3, 4, -5]],
                      [{1: True, -2: True, 3: True, 4: True, -5: True}], [frozenset([1, -2, 3, 4, -5]), {3: True}]):
            run("%s(planted assignments of mixed types)" % fam.__name__, fam, 3, 5, 2, seed=3, planted_assignments=mixed)
    run("VanDerWaerden(lengths)", g.VanDerWaerden, 6, 2, 3, 2)
    for K in (CNF, OPB):
        for lits in ([1, -2, 3], [4, 2, -1, 3], [-1]):
            for op in ("<=", ">=", "<", ">", "==", "!="):
                for const in (0, 1, 2):
                    F = K()
                    if K is CNF:
                        run("CNF.add_linear[%s]" % op, F.add_linear, list(lits), op, const)
                    name = {"<=": "cardinality_leq", ">=": "cardinality_geq", "==": "cardinality_eq", "!=": "cardinality_neq"}.get(op)
                    if name:
                        F = K()
                        run("%s.%s" % (K.__name__, name), getattr(F, name), list(lits), const)
            for name in ("add_loose_majority", "add_strict_majority", "add_loose_minority", "add_strict_minority"):
                F = K()
                run("%s.%s" % (K.__name__, name), getattr(F, name), list(lits))
            F = K()
            run("%s.add_parity" % K.__name__, F.add_parity, list(lits), 1)
            F = K()
            run("%s.add_clause" % K.__name__, F.add_clause, list(lits))
        F = OPB()
        run("OPB.add_constraint", F.add_constraint, [(2, 1), (-3, 2), (1, -3), "<=", 2])
        F = K()
        run("%s.new_block(ranges)" % K.__name__, F.new_block, 2, 3)
        F = K()
        run("%s.add_clauses_from" % K.__name__, F.add_clauses_from, [[1, 2], [-1, 3], []])
    # literals that are not plain small ints (identity and type of every element are part of the snapshot), and calls
    # that are refused half-way because the formula itself declines a clause
    import enum

    class Lit(enum.IntEnum):
        A = 1
        B = 2
        C = 3

    class Budget(CNF):
        """A formula of the user's that accepts a limited number of clauses."""
        def __init__(self, budget):
            CNF.__init__(self)
            self.budget = budget

        def add_clause(self, clause, check=True):
            if self.budget <= 0:
                raise RuntimeError("clause budget exhausted")
            self.budget -= 1
            return CNF.add_clause(self, clause, check=check)

    odd_lists = [("large literals", lambda: [1000, -2000, 3000, 4000]), ("IntEnum literals", lambda: [Lit.A, Lit.C, Lit.B]),
                 ("bool literal", lambda: [True, -2, 3]), ("mixed", lambda: [Lit.B, -1000, True])]
    for tag, make in odd_lists:
        for op in ("<=", ">=", "<", ">", "==", "!="):
            for const in (0, 1, 2):
                F = CNF()
                F.update_variable_number(5000)
                run("CNF.add_linear[%s] with %s" % (op, tag), F.add_linear, make(), op, const)
                ctx.count("non_plain_int_literal_lists")
                for budget in (0, 1, 2):
                    B = Budget(budget)
                    B.update_variable_number(5000)
                    run("CNF.add_linear[%s] with %s, refused by the formula after %d clause(s)" % (op, tag, budget), B.add_linear, make(), op, const)
                    ctx.count("calls_refused_half_way")
        for name in ("cardinality_neq", "cardinality_eq", "add_loose_majority", "add_strict_minority"):
            for budget in (0, 1, 3):
                B = Budget(budget)
                B.update_variable_number(5000)
                args = (make(), 1) if name.startswith("card") else (make(),)
                run("CNF.%s with %s, refused by the formula after %d clause(s)" % (name, tag, budget), getattr(B, name), *args)
                ctx.count("calls_refused_half_way")
        B = Budget(1)
        B.update_variable_number(5000)
        run("CNF.add_parity with %s, refused by the formula" % tag, B.add_parity, make(), 1)
    for op in ("!=", "==", "<="):
        run("CNF.add_linear[%s](check=False) with None among the literals" % op, CNF().add_linear, [1, None, 3, -2], op, 1, check=False)
    # calls that are refused: the arguments must be intact after the exception as well
    from cnfgen.graphs import BipartiteGraph
    F = g.PigeonholePrinciple(2, 2)
    run("Shuffle(wrong length)", g.Shuffle, F, [1, -1], "fixed", "fixed")
    run("Shuffle(bad permutation)", g.Shuffle, F, "fixed", [1, 1, 2, 3], "fixed")
    run("VariableCompression(wrong graph)", g.VariableCompression, F, BipartiteGraph(2, 2), "xor")
    run("XorSubstitution(k=0)", g.XorSubstitution, F, 0)
    run("bipartite_shift(0,0)", bipartite_shift, 0, 0, [2, 1])
    P = Graph(3)
    P.add_edge(1, 2)
    run("EvenColoringFormula(odd degree)", g.EvenColoringFormula, P)
    run("CNF.add_linear(bad operator)", CNF().add_linear, [1, -2], "<>", 1)
    run("RandomKCNF(too many clauses)", g.RandomKCNF, 2, 2, 9, seed=1, planted_assignments=[[1, 2]])
    # explicit Shuffle arguments as lists
    F = g.PigeonholePrinciple(2, 2)
    run("Shuffle(explicit lists)", g.Shuffle, F, [1, -1, 1, -1], [2, 1, 4, 3], list(range(len(F) - 1, -1, -1)))


def _extra_workload(tier, seed):
    for i in range(2 if tier == "quick" else 6):
        yield "big_inputs", {"rseed": seed * 10 + i}


def workload(tier, seed):
    yield from _extra_workload(tier, seed)
    q = tier == "quick"
    for i in range(4 if q else 200):
        yield "transformations", {"rseed": seed * 100 + i, "maxchain": 4}
    for i in range(2 if q else 8):
        yield "families", {"rseed": seed * 100 + i}
    for i in range(2 if q else 8):
        yield "lists", {"rseed": seed * 100 + i}
    for i in range(2 if q else 16):
        yield "long_chains", {"rseed": seed * 100 + i}
    yield "nx_attributes", {"rseed": seed}
    for i in range(2 if q else 40):
        yield "cli_chains", {"rseed": seed * 100 + i, "count": 24}


def case_cli_chains(ctx, rseed, count):
    """The same bookkeeping through the command line front ends: `cnfgen <formula> -T step -T step ...` (formula object
    and printed header) and kthlist2pebbling.  Every -T step other than `none` -- a shuffle with every subset of its
    three switches included -- appears as one numbered entry, in order, after the entries the formula had."""
    from ..cliharness import cli_formula, run_main
    r = ctx.rng("c19cli", rseed)
    bases = [["php", "3", "2"], ["op", "3"], ["and", "2", "1"], ["peb", "pyramid", "1"], ["count", "4", "2"], ["true"], ["randkcnf", "2", "4", "0"]]
    shuffles = [["shuffle"] + [f for f, on in zip(sw, bits) if on] for bits in itertools.product((0, 1), repeat=3)
                for sw in (("-p", "-v", "-c"), ("--no-polarity-flips", "--no-variables-permutation", "--no-clauses-permutation"))]
    other = [["none"], ["flip"], ["xor", "1"], ["or", "2"], ["lift", "1"], ["maj", "1"], ["one", "1"], ["eq", "1"]]
    for i in range(count):
        base = r.choice(bases)
        chain = [list(r.choice(shuffles if r.random() < 0.6 else other)) for _ in range(r.randint(1, 4))]
        if i < len(shuffles):
            chain[0] = list(shuffles[i])                # every spelling of every switch subset at least once
        argv = list(base)
        for step in chain:
            argv += ["-T"] + step
        label = "cnfgen " + " ".join(argv)
        seed = r.randint(0, 10 ** 6)
        random.seed(seed)
        try:
            F0 = cli_formula("cnfgen", ["cnfgen", "-q"] + base)
            random.seed(seed)
            F = cli_formula("cnfgen", ["cnfgen", "-q"] + argv)
        except BaseException as e:      # noqa: BLE001
            if isinstance(e, KeyboardInterrupt) or type(e).__name__ == "CaseTimeout":
                raise
            ctx.violation("cli-chain:raises:%s" % type(e).__name__, "%s raised %r" % (label, e))
            continue
        ctx.count("cli_chains")
        expected = [st for st in chain if st[0] != "none"]
        nums = [int(m.group(1)) for k in F.header for m in [re.match(r"^transformation (\d+)$", str(k))] if m]
        if nums != list(range(1, len(expected) + 1)):
            ctx.violation("cli-chain:header-transformation-entries", "%s: %d steps other than `none` were asked for, the header numbers "
                          "its transformation entries %r" % (label, len(expected), nums))
        keys = [k for k in F.header if not re.match(r"^transformation \d+$", str(k)) and k != "command line"]
        keys0 = [k for k in F0.header if k != "command line"]
        if keys != keys0:
            ctx.violation("cli-chain:header-entries-lost", "%s: the entries of the untransformed formula are %r, afterwards %r" % (label, keys0, keys))
        elif str(F0.header.get("description", "")) not in str(F.header.get("description", "")):
            ctx.violation("cli-chain:description-lost", "%s: description %r no longer contains %r" % (label, F.header.get("description"),
                                                                                                   F0.header.get("description")))
        # the printed header tells the same story
        random.seed(seed)
        o = run_main("cnfgen", argv)
        if o.exc is None and o.rc in (0, None):
            printed = [int(m.group(1)) for line in o.out.splitlines() for m in [re.match(r"^c transformation (\d+):", line)] if m]
            ctx.count("cli_chain_texts")
            if printed != list(range(1, len(expected) + 1)):
                ctx.violation("cli-chain:printed-transformation-entries", "%s prints the transformation lines %r for %d steps" % (label, printed, len(expected)))
        ctx.judged(("cli-chain", tuple(base), tuple(map(tuple, chain))), nontrivial=bool(expected), sample={"command": label})
    # kthlist2pebbling takes one transformation
    text = "3\n1 : 0\n2 : 1 0\n3 : 1 2 0\n"
    for step in shuffles[:8] + [["xor", "2"], ["none"], []]:
        o = run_main("kthlist2pebbling", list(step), stdin_text=text)
        ctx.count("cli_chain_texts")
        if o.exc is not None or o.rc not in (0, None):
            ctx.violation("cli-chain:kthlist2pebbling:fails", "kthlist2pebbling %s: %r" % (" ".join(step), o))
            continue
        printed = [int(m.group(1)) for line in o.out.splitlines() for m in [re.match(r"^c transformation (\d+):", line)] if m]
        want = [1] if step and step[0] != "none" else []
        if printed != want:
            ctx.violation("cli-chain:printed-transformation-entries", "kthlist2pebbling %s prints the transformation lines %r, expected %r"
                          % (" ".join(step), printed, want))
        ctx.judged(("cli-chain-k2p", tuple(step)), nontrivial=True, sample={"command": "kthlist2pebbling " + " ".join(step)})


def case_long_chains(ctx, rseed):
    """Chains of 11-25 cheap steps (arity-1 substitutions, flips, shuffles): numbering must stay 1..t."""
    import cnfgen as g
    r = ctx.rng("c19long", rseed)
    steps = [("FlipPolarity", lambda F: g.FlipPolarity(F)), ("Shuffle", lambda F: g.Shuffle(F)),
             ("OrSubstitution[1]", lambda F: g.OrSubstitution(F, 1)), ("XorSubstitution[1]", lambda F: g.XorSubstitution(F, 1)),
             ("MajoritySubstitution[1]", lambda F: g.MajoritySubstitution(F, 1)), ("ExactlyOneSubstitution[1]", lambda F: g.ExactlyOneSubstitution(F, 1)),
             ("AtLeastKSubstitution[1,1]", lambda F: g.AtLeastKSubstitution(F, 1, 1))]
    for _ in range(4):
        F = g.PigeonholePrinciple(2, 2)
        F.header["note"] = "kept"
        names = []
        T = F
        for t in range(r.randint(11, 25)):
            label, fn = r.choice(steps)
            hb = [(k, str(v)) for k, v in T.header.items()]
            random.seed(r.randint(0, 10 ** 6))
            st, T2 = checked_call(ctx, label, fn, T)
            ctx.count("transformations_called")
            if st == "exc":
                ctx.violation("%s:raises:%s" % (label, type(T2).__name__), "%s at step %d raised %r" % (label, t + 1, T2))
                break
            header_check(ctx, label + "[long chain]", hb, T2, t)
            names.append(label)
            T = T2
        ctx.count("chains")
        ctx.count("long_chains")
        ctx.judged(("long-chain", tuple(names)), nontrivial=True, sample={"chain_length": len(names), "last_header_keys": list(T.header.keys())[-3:]})


def case_big_inputs(ctx, rseed):
    """Transformations of formulas with 9000-25000 clauses (bulk paths may begin at such sizes): the input stays as it
    was, and editing the result afterwards -- its clause lists included -- does not show in the input (and vice versa)."""
    import cnfgen as g
    from cnfgen.formula.cnf import CNF
    r = ctx.rng("c19big", rseed)
    for M in (9000, 9999, 10000, 10001, 16384, 25000)[(rseed % 2)::2]:
        N = 50
        F = CNF()
        F.update_variable_number(N)
        F.add_clauses_from([[(i % N) + 1, -(((i * 7 + 1) % N) + 1)] if i % 3 else [((i * 11) % N) + 1] for i in range(M)], check=False)
        steps = [("Shuffle[fixed,fixed,shuffle]", lambda X: g.Shuffle(X, "fixed", "fixed", "shuffle")),
                 ("Shuffle[fixed,fixed,fixed]", lambda X: g.Shuffle(X, "fixed", "fixed", "fixed")),
                 ("Shuffle[fixed,shuffle,fixed]", lambda X: g.Shuffle(X, "fixed", "shuffle", "fixed")),
                 ("Shuffle", lambda X: g.Shuffle(X)), ("FlipPolarity", lambda X: g.FlipPolarity(X)),
                 ("OrSubstitution[1]", lambda X: g.OrSubstitution(X, 1)), ("XorSubstitution[1]", lambda X: g.XorSubstitution(X, 1))]
        for label, fn in steps:
            hb = [(k, str(v)) for k, v in F.header.items()]
            random.seed(r.randint(0, 10 ** 6))
            st, T = checked_call(ctx, label + " on %d clauses" % M, fn, F)
            ctx.count("transformations_called")
            ctx.count("big_inputs")
            if st == "exc":
                ctx.violation("%s:raises:%s" % (label, type(T).__name__), "%s on %d clauses raised %r" % (label, M, T))
                continue
            header_check(ctx, label, hb, T, 0)
            aliasing_probe(ctx, label + " on %d clauses" % M, F, T)
            # the other direction: the owner edits a clause list of the input in place
            before = [list(c) for c in T][:50], len(T), T.number_of_variables()
            try:
                F._clauses[0].append(F._clauses[0][0])
                F._clauses[-1].append(-1)
            except Exception:       # noqa: BLE001
                pass
            if ([list(c) for c in T][:50], len(T), T.number_of_variables()) != before:
                ctx.violation("%s:result-aliases-input" % label, "%s on %d clauses: editing a clause list of the input changed the result" % (label, M))
            F._clauses[0].pop()
            F._clauses[-1].pop()
            ctx.judged(("big-input", label, M), nontrivial=True, sample={"transformation": label, "clauses": M})


def case_nx_attributes(ctx, rseed):
    """networkx bipartite graphs whose 'bipartite' attribute is spelled as int, str or bool (what file readers produce)."""
    import networkx
    import cnfgen as g
    from cnfgen.formula.cnf import CNF
    from cnfgen.graphs import BipartiteGraph
    r = ctx.rng("c19nx", rseed)
    for spelling in ("int", "str", "bool"):
        conv = {"int": int, "str": str, "bool": bool}[spelling]
        X = networkx.Graph(name="spelled " + spelling)
        X.add_nodes_from(["a", "b", "c"], bipartite=conv(0))
        X.add_nodes_from(["x", "y"], bipartite=conv(1))
        X.add_edges_from([("a", "x"), ("b", "x"), ("b", "y"), ("c", "y")])
        F = g.PigeonholePrinciple(2, 2)
        calls = [("GraphPigeonholePrinciple", g.GraphPigeonholePrinciple, (X,), {}),
                 ("SubsetCardinalityFormula", g.SubsetCardinalityFormula, (X,), {}),
                 ("BipartiteGraph.normalize", BipartiteGraph.normalize, (X,), {}),
                 ("BipartiteGraph.from_networkx", BipartiteGraph.from_networkx, (X,), {})]
        for label, fn, a, kw in calls:
            lab = "%s(networkx graph, bipartite attribute as %s)" % (label, spelling)
            st, res = checked_call(ctx, lab, fn, *a, **kw)
            ctx.count("graph_arguments")
            ctx.count("networkx_arguments")
            ctx.count("nx_attribute_spellings")
            if st == "exc" and spelling != "bool":
                ctx.violation("%s:raises:%s" % (lab, type(res).__name__), "%s raised %r" % (lab, res))
            ctx.judged(("nx-attr", label, spelling), nontrivial=True, sample={"call": lab})

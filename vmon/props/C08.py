"""C08 -- the pseudo-Boolean (OPB) and CNF renderings of a family are the same formula.

Every sub-command is run through `cnfgen` and through `pbgen` in-process with the
global RNG state equalised, and the two formula objects are compared: variable
count, list of variable names, and the exact model sets computed by two different
evaluators (clause OR vs. bit-sliced adder).  Beyond the cap the two objects are
evaluated on sampled assignments.
"""
import random

from .. import tt
from ..argvcorpus import small, realistic
from ..cliharness import cli_formula
from ..refmodels.names import eval_formula

PYTHON_O_STRIDE = {"quick": 4, "thorough": 2}      # every n-th case is repeated in an interpreter started with -O
RULE = ("argv tail run through both tools with random.seed(s) before each: every formula sub-command with small parameters "
        "(all option combinations of the corpus, deterministic and random graph constructions) x 2 (quick) / 12 (thorough) RNG "
        "seeds, exact model-set equality up to 18 (quick) / 22 (thorough) variables; realistic sizes compared on sampled "
        "assignments (random, all-true/false, one-flip neighbours of found models).  distinct = (argv, seed); trivial = no variables.")
ASSUMPTIONS = ["vmon/tt.py: clause evaluator and bit-sliced pseudo-Boolean adder (self-checked against a naive evaluator)",
               "equal RNG state before both runs makes random families and graphs draw the same values"]
REQUIRED = ["pairs_compared", "exact_pairs", "sampled_pairs", "pb_side_has_non_clause_constraints", "both_refused", "cli_seed_pairs",
            "graph_file_pairs", "text_pairs", "sessions_compared", "dimacs_files_with_a_variable_in_both_polarities", "text_pairs_decided_on_every_assignment", "text_pairs_with_power_of_two_many_clauses"]
CASE_TIMEOUT = {"quick": 300, "thorough": 1800}


def run_tool(tool, tail, seed, cli_seed=None, prelude=()):
    random.seed(seed)
    for ptail, pseed in prelude:
        # earlier calls of the same tool in the same session (their own --seed given); the caller does not re-seed
        try:
            cli_formula(tool, [tool] + ([] if pseed is None else ["--seed", str(pseed)]) + list(ptail))
        except (SystemExit, Exception):         # noqa: BLE001
            pass
    pre = [] if cli_seed is None else ["--seed", str(cli_seed)]
    try:
        return "ok", cli_formula(tool, [tool] + pre + list(tail))
    except SystemExit as e:
        return "refused", "exit %r" % (e.code,)
    except Exception as e:          # noqa: BLE001
        if type(e).__name__ == "CLIError":
            return "refused", repr(e)
        return "exc", e


def compare(ctx, sub, tail, seed, cap, nsamples, cli_seed=None, prelude=()):
    label = ("" if cli_seed is None else "--seed %d " % cli_seed) + " ".join(tail) + " [random.seed(%d) before]" % seed
    if prelude:
        label += " [after, in the same session and with the same tool: %s]" % "; ".join(
            ("" if ps is None else "--seed %d " % ps) + " ".join(pt) for pt, ps in prelude)
    sa, A = run_tool("cnfgen", tail, seed, cli_seed, prelude)
    sb, B = run_tool("pbgen", tail, seed + (7 if cli_seed is not None else 0), cli_seed, prelude)
    if sa == "exc" or sb == "exc":
        # an escaping exception is C18's subject; here it only matters if the two tools differ
        if (sa == "exc") != (sb == "exc"):
            ctx.violation("%s:one-tool-raises" % sub, "%s: cnfgen -> %s %r, pbgen -> %s %r" % (label, sa, A, sb, B))
        else:
            ctx.count("both_raised")
        return
    if sa == "refused" or sb == "refused":
        if sa != sb:
            ctx.violation("%s:one-tool-refuses" % sub, "%s: cnfgen -> %s (%s), pbgen -> %s (%s)"
                          % (label, sa, A if sa != "ok" else "formula", sb, B if sb != "ok" else "formula"))
        else:
            ctx.count("both_refused")
        return
    ctx.count("pairs_compared")
    ctx.count("sub_" + sub)
    if hasattr(B, "_constraints"):
        ctx.count("pb_side_is_OPB_object")
        if any(not (c[-2] == ">=" and c[-1] == 1 and all(k == 1 for k, _ in c[:-2])) for c in B):
            ctx.count("pb_side_has_non_clause_constraints")
    else:
        ctx.count("pb_side_is_CNF_object")
    na, nb = A.number_of_variables(), B.number_of_variables()
    if na != nb:
        ctx.violation("%s:numvar" % sub, "%s: cnfgen has %d variables, pbgen %d" % (label, na, nb))
        return
    la, lb = list(A.all_variable_labels()), list(B.all_variable_labels())
    if la != lb:
        i = next((i for i, (x, y) in enumerate(zip(la, lb)) if x != y), min(len(la), len(lb)))
        ctx.violation("%s:names" % sub, "%s: variable names differ at position %d: %r vs %r"
                      % (label, i + 1, la[i:i + 1], lb[i:i + 1]))
        return
    if na <= cap:
        ma, mb = tt.models_of(A), tt.models_of(B)
        ctx.count("exact_pairs")
        ctx.count("assignments_decided", 1 << na)
        if ma != mb:
            d = tt.first_difference(na, ma, mb)
            ctx.violation("%s:models" % sub, "%s: %d CNF models vs %d OPB models; %s satisfies only the %s"
                          % (label, tt.count(ma), tt.count(mb),
                             [("" if l > 0 else "~") + la[abs(l) - 1] for l in d["assignment"]],
                             "CNF" if d["in_first"] else "OPB"))
        ctx.judged((tuple(tail), seed, cli_seed, repr(prelude)), nontrivial=na > 0,
                   sample={"argv": tail, "seed": seed, "cli_seed": cli_seed, "variables": na, "models": tt.count(ma)})
        return
    # sampled comparison
    r = ctx.rng("c08", tuple(tail), seed)
    ctx.count("sampled_pairs")
    pool = [set(), set(range(1, na + 1))]
    for _ in range(nsamples):
        p = r.random()
        pool.append({v for v in range(1, na + 1) if r.random() < p})
    found = []
    big = len(A) > 20000
    if big:
        from ..refmodels.names import eval_many
        va_, vb_ = eval_many(A, pool), eval_many(B, pool)      # one pass over the clauses for all assignments
    for j_, t in enumerate(pool):
        a, b = (va_[j_], vb_[j_]) if big else (eval_formula(A, t), eval_formula(B, t))
        ctx.count("sampled_assignments")
        if a != b:
            ctx.violation("%s:sampled-models" % sub, "%s: an assignment satisfies the %s but not the %s"
                          % (label, "CNF" if a else "OPB", "OPB" if a else "CNF"), true_vars=sorted(t)[:60])
            return
        if a:
            found.append(t)
    for t in found[:5] if not big else []:
        for v in r.sample(range(1, na + 1), min(na, 40)):
            t2 = set(t) ^ {v}
            ctx.count("sampled_assignments")
            if eval_formula(A, t2) != eval_formula(B, t2):
                ctx.violation("%s:sampled-models" % sub, "%s: a one-flip neighbour of a model separates CNF and OPB" % label,
                              true_vars=sorted(t2)[:60])
                return
    ctx.judged((tuple(tail), seed), nontrivial=True, sample={"argv": tail, "seed": seed, "variables": na, "mode": "sampled",
                                                            "models_found": len(found)})


def case_small(ctx, lo, hi, seeds):
    tt.selfcheck()
    cap = 18 if ctx.tier == "quick" else 22
    corpus = small()
    deterministic = {tuple(t) for _, t in small(randomized=False)}
    for sub, tail in corpus[lo:hi]:
        # a command line without random ingredients does not depend on the RNG state: one seed is enough
        for s in (seeds[:1] if tuple(tail) in deterministic else seeds):
            compare(ctx, sub, tail, s, cap, 300)


def case_realistic(ctx, lo, hi, seeds):
    cap = 18 if ctx.tier == "quick" else 22
    corpus = realistic()
    for sub, tail in corpus[lo:hi]:
        for s in seeds:
            compare(ctx, sub, tail, s, cap, 200 if ctx.tier == "quick" else 1000)


def workload(tier, seed):
    n = len(small())
    seeds = [seed * 7 + 1, seed * 7 + 2] if tier == "quick" else [seed * 7 + i for i in range(1, 31)]
    step = 12
    for lo in range(0, n, step):
        yield "small", {"lo": lo, "hi": lo + step, "seeds": seeds}
    nr = len(small()) - len(small(randomized=False))
    for lo in range(0, nr, 25):
        yield "cli_seed", {"lo": lo, "hi": lo + (8 if tier == "quick" else 25)}
    for which in [["K", 3, 17, "zero"], ["K", 2, 17, "first"], ["K", 1, 17, "zero"], ["X", 17, 18, 3]] + ([] if tier == "quick" else [["K", 2, 18, "zero"], ["X", 18, 19, 2], ["K", 2, 19, "first"]]):
        yield "wide_parities", {"which": which}
    yield "files", {}
    for i in range(2 if tier == "quick" else 20):
        yield "table_classes", {"rseed": seed * 50 + i}
    for i in range(6 if tier == "quick" else 120):
        yield "sessions", {"rseed": seed * 500 + i, "count": 25}
    for i in range(2 if tier == "quick" else 20):
        yield "dimacs_files", {"rseed": seed * 50 + i, "count": 30 if i == 0 else 22}
    yield "text_headers", {}
    named = [t for _, t in small()]
    for lo in range(0, len(named), 60):
        yield "text_varnames", {"tails": named[lo:lo + (4 if tier == "quick" else 60)], "rseed": seed + 4}
    sizes = (256, 4096, 8192, 65536) if tier == "quick" else [1 << k for k in range(8, 18)] + [3 << 12, 3 << 13, 3 << 15, 5 << 12, 65535, 65537]
    for N in sizes:
        yield "text", {"tails": [["and", str(N), "0"], ["and", str(N // 2), str(N - N // 2)]], "rseed": seed + 1}
    yield "text", {"tails": [["randkcnf", "3", "70", "65536"], ["randkcnf", "2", "40", "1024"], ["or", "4096", "4096"]], "rseed": seed + 2}
    texts = [t for _, t in small()]
    for lo in range(0, len(texts), 40):
        yield "text", {"tails": texts[lo:lo + (10 if tier == "quick" else 40)], "rseed": seed + 3}
    m = len(realistic())
    for lo in range(0, m, 2):
        yield "realistic", {"lo": lo, "hi": lo + 2, "seeds": seeds[:1] if tier == "quick" else seeds[:3]}


def case_cli_seed(ctx, lo, hi):
    """The two tools under the same --seed value (including 0), with different ambient RNG states."""
    tt.selfcheck()
    cap = 18 if ctx.tier == "quick" else 22
    deterministic = {tuple(t) for _, t in small(randomized=False)}
    rnd = [(sub, t) for sub, t in small() if tuple(t) not in deterministic]
    for sub, tail in rnd[lo:hi]:
        for cs in (0, 1, 5):
            ctx.count("cli_seed_pairs")
            compare(ctx, sub, tail, 1000 + cs, cap, 200, cli_seed=cs)


def eval_rows(rows, true):
    for terms, op, deg in rows:
        v = sum(c for c, l in terms if (l > 0) == (abs(l) in true))
        if not (v >= deg if op == ">=" else v == deg):
            return False
    return True


def case_text(ctx, tails, rseed, quiet=True):
    """What the two programs print: the DIMACS text of cnfgen and the OPB text of pbgen, read back by the reference
    readers of C06 / C12 and compared on sampled assignments.  Includes formulas whose number of constraints is a power of
    two or a multiple of one (buffered writers work in blocks of such sizes)."""
    from ..cliharness import run_main
    from ..refmodels import c06_dimacs, c12_opb
    from ..refmodels.names import eval_many
    for tail in tails:
        label = " ".join(tail) + " [random.seed(%d) before]" % rseed
        random.seed(rseed)
        a = run_main("cnfgen", (["-q"] if quiet else []) + list(tail))
        random.seed(rseed)
        b = run_main("pbgen", (["-q"] if quiet else []) + list(tail))
        ctx.count("text_pairs")
        if a.exc is not None or b.exc is not None or a.rc != 0 or b.rc != 0:
            if (a.rc, type(a.exc)) != (b.rc, type(b.exc)):
                ctx.violation("%s:one-tool-refuses" % tail[0], "%s: cnfgen -> rc=%r %r, pbgen -> rc=%r %r" % (label, a.rc, a.exc, b.rc, b.exc))
            else:
                ctx.count("both_refused")
            continue
        try:
            n, clauses = c06_dimacs.read(a.out)
        except Exception as e:      # noqa: BLE001
            ctx.violation("%s:text:cnfgen-output-unreadable" % tail[0], "%s: %r" % (label, e))
            continue
        T = c12_opb.read_opb(b.out)
        if not T:
            ctx.violation("%s:text:pbgen-output-unreadable" % tail[0], "%s: %r" % (label, T))
            continue
        if T.variables != n:
            ctx.violation("%s:text:numvar" % tail[0], "%s: cnfgen prints %d variables, pbgen %d" % (label, n, T.variables))
            continue
        if len(clauses) in (1 << k for k in range(8, 20)) or any(len(clauses) % (1 << k) == 0 for k in range(12, 20)):
            ctx.count("text_pairs_with_power_of_two_many_clauses")
        r = ctx.rng("c08text", tuple(tail), rseed)
        pool = [set(), set(range(1, n + 1))]
        for _ in range(14):
            p = r.choice([0.02, 0.2, 0.5, 0.8, 0.98])
            pool.append({v for v in range(1, n + 1) if r.random() < p})
        # an assignment satisfying the CNF when one is easy to get: unit clauses decide it
        units = {c[0] for c in clauses if len(c) == 1}
        pool.append({v for v in range(1, n + 1) if v in units or (-v not in units and r.random() < 0.5)})
        if n <= 10:
            pool = [{v for v in range(1, n + 1) if (mask >> (v - 1)) & 1} for mask in range(1 << n)]
            ctx.count("text_pairs_decided_on_every_assignment")
        va = eval_many(clauses, pool)
        vb = [eval_rows(T.rows, t) for t in pool]
        ctx.count("sampled_assignments", len(pool))
        if va != vb:
            j = next(j for j in range(len(pool)) if va[j] != vb[j])
            ctx.violation("%s:text:sampled-models" % tail[0], "%s: an assignment satisfies the printed %s but not the printed %s "
                          "(%d clauses vs %d constraints)" % (label, "CNF" if va[j] else "OPB", "OPB" if va[j] else "CNF", len(clauses), len(T.rows)),
                          true_vars=sorted(pool[j])[:40])
            continue
        ctx.judged(("text", tuple(tail), rseed), nontrivial=n > 0,
                   sample={"argv": tail, "variables": n, "clauses": len(clauses), "opb_rows": len(T.rows), "satisfying_samples": sum(va)})


def case_wide_parities(ctx, which):
    """Parities on 17 and 18 literals (2^16 / 2^17 clauses each), one, two or three of them in one formula: Tseitin on
    complete bipartite graphs K_{a,17} given as files, and random 17-/18-XOR, through both tools (sampled)."""
    import os
    import shutil
    import tempfile
    cap = 18 if ctx.tier == "quick" else 22
    tmp = tempfile.mkdtemp(prefix="c08w-")
    try:
        if which[0] == "K":
            a, b, charge = which[1], which[2], which[3]
            path = os.path.join(tmp, "K%d_%d.kthlist" % (a, b))
            with open(path, "w") as f:
                f.write("%d\n" % (a + b))
                for u in range(1, a + 1):
                    f.write("%d : %s 0\n" % (u, " ".join(str(v) for v in range(a + 1, a + b + 1))))
                for v in range(a + 1, a + b + 1):
                    f.write("%d : %s 0\n" % (v, " ".join(str(u) for u in range(1, a + 1))))
            ctx.count("graph_file_pairs")
            ctx.count("parities_on_17_or_more_literals")
            compare(ctx, "tseitin", ["tseitin", charge, path], 1, cap, 40)
        else:
            ctx.count("parities_on_17_or_more_literals")
            compare(ctx, "randkxor", ["randkxor", str(which[1]), str(which[2]), str(which[3])], 5, cap, 40)
    finally:
        shutil.rmtree(tmp, ignore_errors=True)


def case_table_classes(ctx, rseed):
    """The library route of the statement -- a family built with the OPB formula class against the same family built
    with the CNF class -- for classes of the user's that keep what they are given in their own tables (add_clause /
    add_constraint overridden): same variables, same names, same model set."""
    import cnfgen as g
    from cnfgen.graphs import Graph, BipartiteGraph
    from cnfgen.formula.cnf import CNF
    from ..ducks import table_class, table_opb_class
    tt.selfcheck()
    KC, KO = table_class(CNF), table_opb_class()
    r = ctx.rng("c08table", rseed)
    n = r.randint(4, 5)
    G = Graph(n)
    for _ in range(n + 1):
        u, v = r.sample(range(1, n + 1), 2)
        G.add_edge(u, v)
    B = BipartiteGraph(3, 3)
    for _ in range(5):
        B.add_edge(r.randint(1, 3), r.randint(1, 3))
    s1 = r.randint(0, 10 ** 6)
    fams = {"php": lambda K: g.PigeonholePrinciple(3, 2, formula_class=K), "tseitin": lambda K: g.TseitinFormula(G, formula_class=K),
            "randkxor": lambda K: g.RandomKXOR(3, 6, 4, seed=s1, formula_class=K), "randkcnf": lambda K: g.RandomKCNF(3, 6, 5, seed=s1, formula_class=K),
            "randkxor planted": lambda K: g.RandomKXOR(2, 5, 3, seed=s1, planted_assignments=[[1, -2, 3, -4, 5]], formula_class=K),
            "subsetcard": lambda K: g.SubsetCardinalityFormula(B, formula_class=K), "gphp": lambda K: g.GraphPigeonholePrinciple(B, formula_class=K),
            "kcolor": lambda K: g.GraphColoringFormula(G, 3, formula_class=K), "domset": lambda K: g.DominatingSet(G, 2, formula_class=K),
            "count": lambda K: g.CountingPrinciple(4, 2, formula_class=K), "op": lambda K: g.OrderingPrinciple(3, formula_class=K),
            "matching": lambda K: g.PerfectMatchingPrinciple(G, formula_class=K), "cliquecoloring": lambda K: g.CliqueColoring(4, 3, 2, formula_class=K),
            "bphp": lambda K: g.BinaryPigeonholePrinciple(3, 2, formula_class=K), "tiling": lambda K: g.Tiling(G, formula_class=K),
            "ec": lambda K: g.EvenColoringFormula(Graph.complete_graph(5), formula_class=K), "vdw": lambda K: g.VanDerWaerden(6, 2, 3, formula_class=K),
            "rphp": lambda K: g.RelativizedPigeonholePrinciple(2, 2, 2, formula_class=K), "parity": lambda K: g.ParityPrinciple(4, formula_class=K)}
    for name, fn in fams.items():
        sa, A = ctx.call(fn, KC)
        sb, Bf = ctx.call(fn, KO)
        ctx.count("table_class_pairs")
        label = "%s built into a user's table class" % name
        if sa == "exc" or sb == "exc":
            if (sa == "exc") != (sb == "exc"):
                ctx.violation("%s:table-class:one-class-raises" % name.split()[0], "%s: CNF -> %r, OPB -> %r" % (label, A if sa == "exc" else "formula", Bf if sb == "exc" else "formula"))
            continue
        na, nb = A.number_of_variables(), Bf.number_of_variables()
        if na != nb or list(A.all_variable_labels()) != list(Bf.all_variable_labels()):
            ctx.violation("%s:table-class:names" % name.split()[0], "%s: %d variables / %d variables, or other names" % (label, na, nb))
            continue
        if na <= 20:
            ma, mb = tt.models_of(A), tt.models_of(Bf)
            if ma != mb:
                d = tt.first_difference(na, ma, mb)
                ctx.violation("%s:table-class:models" % name.split()[0], "%s: %d CNF models vs %d OPB models (%d rows vs %d rows); %r satisfies only the %s"
                              % (label, tt.count(ma), tt.count(mb), len(A), len(Bf), d["assignment"], "CNF" if d["in_first"] else "OPB"))
        ctx.judged(("table-class", name, rseed), nontrivial=na > 0, sample={"family": name, "variables": na, "cnf_rows": len(A), "opb_rows": len(Bf)})


def case_dimacs_files(ctx, rseed, count):
    """`cnfgen dimacs <file>` against `pbgen dimacs <file>` on valid DIMACS files of the kinds no family produces:
    clauses with a variable in both polarities, repeated literals, repeated clauses, the empty clause, unused
    variables.  Formula objects (every assignment) and printed texts (every assignment) are compared."""
    import os
    import shutil
    import tempfile
    tt.selfcheck()
    r = ctx.rng("c08dimacs", rseed)
    tmp = tempfile.mkdtemp(prefix="c08d-")
    fixed = [(2, [[1, -1, 2]]), (1, [[1, -1]]), (2, [[1, 1, 2]]), (3, [[2, -2, -2, 3], [1]]), (3, [[-1, 1], [2, 3], [-2, 2, -3]]),
             (2, [[], [1, -1]]), (4, [[1, 2], [1, 2], [-4, 4, 4]]), (3, [[3, -3, 3, -3]])]
    try:
        for i in range(count):
            if i < len(fixed):
                n, cls = fixed[i]
            else:
                n = r.randint(1, 7)
                cls = []
                for _ in range(r.randint(1, 6)):
                    w = r.randint(0, 4)
                    c = [r.choice((1, -1)) * r.randint(1, n) for _ in range(w)]
                    if c and r.random() < 0.6:
                        c.insert(r.randrange(len(c) + 1), -r.choice(c))        # a variable in both polarities
                    if c and r.random() < 0.3:
                        c.insert(r.randrange(len(c) + 1), r.choice(c))         # a repeated literal
                    cls.append(c)
            path = os.path.join(tmp, "odd%d.cnf" % i)
            with open(path, "w") as f:
                f.write("c clauses no family produces\np cnf %d %d\n" % (n, len(cls)))
                for c in cls:
                    f.write(" ".join(str(l) for l in c) + " 0\n")
            ctx.count("dimacs_file_pairs")
            if any(-l in c for c in cls for l in c):
                ctx.count("dimacs_files_with_a_variable_in_both_polarities")
            compare(ctx, "dimacs", ["dimacs", path], 1, 18, 100)
            case_text(ctx, [["dimacs", path]], rseed)
    finally:
        shutil.rmtree(tmp, ignore_errors=True)


def case_sessions(ctx, rseed, count):
    """Both tools used as functions in one session: a call with --seed followed, without re-seeding, by a call that
    draws random numbers.  The same sequence of calls must give the same second formula with either tool."""
    tt.selfcheck()
    cap = 18 if ctx.tier == "quick" else 22
    r = ctx.rng("c08sessions", rseed)
    deterministic = {tuple(t) for _, t in small(randomized=False)}
    rnd = [(sub, t) for sub, t in small() if tuple(t) not in deterministic]
    every = [(sub, t) for sub, t in small()]
    for _ in range(count):
        sub, tail = r.choice(rnd)
        prelude = []
        for _k in range(r.choice((1, 1, 2))):
            psub, ptail = r.choice(rnd if r.random() < 0.7 else every)
            prelude.append((list(ptail), r.choice((None, 0, 3, 11)) if r.random() < 0.85 else None))
        if all(ps is None for _, ps in prelude):
            prelude[0] = (prelude[0][0], 3)
        ctx.count("sessions_compared")
        compare(ctx, sub, tail, r.randrange(1000), cap, 150, prelude=tuple((tuple(a), b) for a, b in prelude))


def case_text_varnames(ctx, tails, rseed):
    """--varnames with and without the header (-q, -v): both programs list a name for every variable, and the same ones."""
    import re
    from ..cliharness import run_main
    from ..refmodels import c12_opb
    for tail in tails:
        for flags in (["--varnames"], ["-q", "--varnames"], ["--varnames", "-q"], ["-v", "--varnames"]):
            random.seed(rseed)
            a = run_main("cnfgen", flags + list(tail))
            random.seed(rseed)
            b = run_main("pbgen", flags + list(tail))
            ctx.count("varname_text_pairs")
            label = "%s %s" % (" ".join(flags), " ".join(tail))
            if a.exc is not None or b.exc is not None or a.rc != 0 or b.rc != 0:
                if (a.rc, type(a.exc)) != (b.rc, type(b.exc)):
                    ctx.violation("%s:one-tool-refuses" % tail[0], "%s: cnfgen -> rc=%r %r, pbgen -> rc=%r %r" % (label, a.rc, a.exc, b.rc, b.exc))
                continue
            na = {int(m.group(1)): m.group(2) for m in re.finditer(r"^c varname (\d+) (.*)$", a.out, re.M)}
            T = c12_opb.read_opb(b.out)
            if not T:
                ctx.violation("%s:text:pbgen-output-unreadable" % tail[0], "%s: %r" % (label, T))
                continue
            nb = dict(T.varnames)
            n = T.variables
            if sorted(na) != list(range(1, n + 1)) or na != nb:
                ctx.violation("%s:text:varnames" % tail[0], "%s: cnfgen lists %d names, pbgen %d, for %d variables; first difference %r"
                              % (label, len(na), len(nb), n, next(((i, na.get(i), nb.get(i)) for i in range(1, n + 1) if na.get(i) != nb.get(i)), None)))
            ctx.judged(("varnames", tuple(flags), tuple(tail)), nontrivial=n > 0, sample={"argv": flags + list(tail), "variables": n})


def case_text_headers(ctx):
    """The printed texts with their comment headers on, for input files whose names (echoed in the header) contain line
    breaks of every kind: both texts must still read back as the same formula."""
    import os
    import shutil
    import tempfile
    tmp = tempfile.mkdtemp(prefix="c08h-")
    try:
        names = ["plain.cnf", "in\r+1 x1 +1 x2 >= 2 ;.cnf", "in\n-1 2 0.cnf", "in\r\n+1 x1 >= 1 ;.cnf", "x\x0cy.cnf", "x\x0b1 0.cnf",
                 "u\u2028+1 x2 >= 1 ;.cnf", "u\x85p cnf 1 1.cnf", "c\rc.cnf", "tab\there.cnf"]
        tails = []
        for i, nm in enumerate(names):
            path = os.path.join(tmp, nm)
            try:
                with open(path, "w") as f:
                    f.write("p cnf 3 3\n1 2 0\n-1 3 0\n-2 -3 0\n")
            except (OSError, ValueError):
                continue
            tails.append(["dimacs", path])
        case_text(ctx, tails, 1, quiet=False)
        ctx.count("text_pairs_with_headers", len(tails))
    finally:
        shutil.rmtree(tmp, ignore_errors=True)


def case_files(ctx):
    """Graphs given as files: a vertex of degree 9-10 (parity constraints on many literals), named vertices."""
    import os
    import shutil
    import tempfile
    tt.selfcheck()
    cap = 18 if ctx.tier == "quick" else 22
    tmp = tempfile.mkdtemp(prefix="c08-")
    try:
        for d in (9, 10):
            path = os.path.join(tmp, "star%d.kthlist" % d)
            with open(path, "w") as f:
                f.write("%d\n" % (d + 1))
                f.write("1 : %s 0\n" % " ".join(str(v) for v in range(2, d + 2)))
                for v in range(2, d + 2):
                    f.write("%d : 1 0\n" % v)
            for tail in (["tseitin", "first", path], ["tseitin", "one", path], ["tseitin", "zero", path], ["matching", path],
                         ["tiling", path], ["ec", path] if d % 2 == 0 else ["kcolor", "1", path], ["domset", "1", path]):
                ctx.count("graph_file_pairs")
                compare(ctx, tail[0], tail, 1, cap, 300)
    finally:
        shutil.rmtree(tmp, ignore_errors=True)

"""C04 -- linear, parity and mapping constraint builders mean what their names say.

Monitor shape: every builder call is executed on a fresh formula and the model
set of what it inserted (truth table, vmon.tt) is compared with the stated
arithmetic / functional condition evaluated directly, assignment by assignment,
in plain Python.
"""
import itertools
import operator

from .. import tt

PYTHON_O_STRIDE = {"quick": 4, "thorough": 2}      # every n-th case is repeated in an interpreter started with -O
RULE = ("builder calls enumerated over literal lists (length 0..5 quick / 0..7 thorough, every "
        "polarity pattern, containers list/tuple/range/generator, shifted variable ids, repeated "
        "literals in thorough), all operators, constants -2..n+2, CNF and OPB parents; mappings "
        "n,m<=3 (+sparse domains), normalize_opb on seeded constraints.  A case is one builder "
        "call judged over all 2^n assignments; distinct = (builder, class, literals, container, "
        "op, constant); trivial = empty literal list.")
ASSUMPTIONS = ["the truth-table engine (self-checked against a naive evaluator at start-up)",
               "mapping atoms are read through the group's own index->variable call (judged by C11)"]
REQUIRED = ["cnf_builder_calls", "opb_builder_calls", "mapping_calls", "normalize_calls",
            "generator_arguments", "range_arguments", "descending_arguments", "unchecked_builder_calls", "tuple_arguments", "wide_parity_calls", "wide_binary_mappings", "huge_parity_calls"]

OPS = {"<=": operator.le, ">=": operator.ge, "<": operator.lt, ">": operator.gt,
       "==": operator.eq, "!=": operator.ne}


def classes():
    from cnfgen.formula.cnf import CNF
    from cnfgen.formula.opb import OPB
    return {"CNF": CNF, "OPB": OPB}


def expected_set(n, pred):
    acc = 0
    for a in range(1 << n):
        if pred(a):
            acc |= 1 << a
    return acc


def nsat(a, lits):
    return sum(tt.naive_lit(a, l) for l in lits)


def containers(lits):
    """(kind, factory) -- factory builds a fresh argument each call."""
    out = [("list", lambda: list(lits)), ("tuple", lambda: tuple(lits)),
           ("generator", lambda: (l for l in lits))]
    if len(lits) >= 1:
        step = lits[1] - lits[0] if len(lits) > 1 else 1
        if step != 0 and all(lits[i + 1] - lits[i] == step for i in range(len(lits) - 1)):
            rg = range(lits[0], lits[-1] + (1 if step > 0 else -1), step)
            if 0 not in rg and list(rg) == list(lits):
                out.append(("range", lambda: rg))
    return out


_FRESH = [0]


def fresh(ctx, K):
    """An empty formula of class K: mostly K(), every few calls a deep copy (copy.deepcopy, pickle round trip) of an
    empty K() that stays around -- a deep copy is a formula of its own, what is built on it must not land in the
    original.  (A shallow copy.copy shares the clause list by definition and is not used.)"""
    import copy
    import pickle
    _FRESH[0] += 1
    how = _FRESH[0] % 9
    if how not in (2, 8):
        return K()
    F0 = K()
    try:
        F = copy.deepcopy(F0) if how == 2 else pickle.loads(pickle.dumps(F0))
    except Exception:       # noqa: BLE001 - a class that cannot be copied this way decides nothing here
        ctx.count("copies_not_supported")
        return K()
    ctx.count("formulas_obtained_by_" + {2: "deepcopy", 5: "copy", 8: "pickle"}[how])
    F._vmon_origin = (F0, {2: "copy.deepcopy", 5: "copy.copy", 8: "pickle round trip"}[how])
    return F


def judge(ctx, who, F, n, pred, key, args_repr):
    """F was empty before the builder ran; compare its model set with pred."""
    origin = getattr(F, "_vmon_origin", None)
    if origin is not None:
        F0, how = origin
        if len(F0) or F0.number_of_variables():
            ctx.violation(who + ":copy-writes-into-its-original", "%s on a %s of an empty formula: the original now has %d "
                          "constraint(s) and %d variable(s)" % (args_repr, how, len(F0), F0.number_of_variables()))
    if F.number_of_variables() > n:
        ctx.violation(who + ":numvar", "builder raised the variable count beyond its literals: %s"
                      % args_repr, numvar=F.number_of_variables(), expected_max=n)
        return
    mentioned = 0
    for con in F:
        for t in con:
            if isinstance(t, int) and not isinstance(t, bool) and not hasattr(F, "_constraints"):
                mentioned = max(mentioned, abs(t))
            elif isinstance(t, tuple):
                mentioned = max(mentioned, abs(t[1]))
    if F.number_of_variables() < mentioned:
        ctx.violation(who + ":numvar-below-its-literals", "%s: the formula mentions variable %d but declares %d variable(s); "
                      "the next new variable would get an index the constraint already uses"
                      % (args_repr, mentioned, F.number_of_variables()))
        return
    got = tt.models_of_n(F, n)
    exp = expected_set(n, pred)
    if got != exp:
        ctx.violation(who + ":models", "%s: model set differs from the stated condition" % args_repr,
                      difference=tt.first_difference(n, got, exp), formula=list(F))
    ctx.judged(key, nontrivial=key[2] != (), sample={"call": args_repr, "models": tt.count(got)})


def lit_patterns(L, shift):
    base = [i + 1 + shift for i in range(L)]
    for signs in itertools.product([1, -1], repeat=L):
        yield [s * v for s, v in zip(signs, base)]


def call_builder(ctx, who, F, fn, arg, *rest):
    st, val = ctx.call(fn, arg, *rest)
    if st == "exc":
        ctx.violation("%s:raises:%s" % (who, type(val).__name__),
                      "%s%r raised %r" % (who, (arg,) + rest, val))
        return False
    return True


def unchecked_calls(ctx, cls, K, kind, make, lits, n, L):
    """The same builders with check=False, the documented way for a caller that has declared its variables already
    (the formula has its n variables before the call)."""
    lits_t = tuple(lits)

    def declared():
        F = fresh(ctx, K)
        F.update_variable_number(n)
        return F
    for const in range(-1, L + 2):
        for op, pyop in OPS.items():
            pred = (lambda a, c=const, o=pyop: o(nsat(a, lits), c))
            rep = "%s.%%s(%s %r, %r, %d, check=False)" % (cls, kind, lits, op, const)
            if cls == "CNF":
                F = declared()
                st, val = ctx.call(F.add_linear, make(), op, const, check=False)
                if st == "exc":
                    ctx.violation("CNF.add_linear:unchecked:raises:%s" % type(val).__name__, "%s raised %r" % (rep % "add_linear", val))
                else:
                    ctx.count("unchecked_builder_calls")
                    judge(ctx, "CNF.add_linear[%s]:unchecked" % op, F, n, pred, ("lin-u", cls, lits_t, kind, op, const), rep % "add_linear")
            name = {"<=": "cardinality_leq", ">=": "cardinality_geq", "==": "cardinality_eq", "!=": "cardinality_neq"}.get(op)
            if name:
                F = declared()
                st, val = ctx.call(getattr(F, name), make(), const, check=False)
                if st == "exc":
                    ctx.violation("%s.%s:unchecked:raises:%s" % (cls, name, type(val).__name__), "%s raised %r" % (rep % name, val))
                else:
                    ctx.count("unchecked_builder_calls")
                    judge(ctx, "%s.%s:unchecked" % (cls, name), F, n, pred, ("card-u", cls, lits_t, kind, op, const), rep % name)
    for name, pred in (("add_loose_majority", lambda a: 2 * nsat(a, lits) >= L), ("add_strict_majority", lambda a: 2 * nsat(a, lits) > L),
                       ("add_loose_minority", lambda a: 2 * nsat(a, lits) <= L), ("add_strict_minority", lambda a: 2 * nsat(a, lits) < L)):
        F = declared()
        st, val = ctx.call(getattr(F, name), make(), check=False)
        if st == "exc":
            ctx.violation("%s.%s:unchecked:raises:%s" % (cls, name, type(val).__name__), "%s.%s(%s %r, check=False) raised %r" % (cls, name, kind, lits, val))
        else:
            ctx.count("unchecked_builder_calls")
            judge(ctx, "%s.%s:unchecked" % (cls, name), F, n, pred, (name + "-u", cls, lits_t, kind),
                  "%s.%s(%s %r, check=False)" % (cls, name, kind, lits))
    for const in (0, 1):
        F = declared()
        st, val = ctx.call(F.add_parity, make(), const, check=False)
        if st == "exc":
            ctx.violation("%s.add_parity:unchecked:raises:%s" % (cls, type(val).__name__), "%s.add_parity(%s %r, %d, check=False) raised %r" % (cls, kind, lits, const, val))
        else:
            ctx.count("unchecked_builder_calls")
            judge(ctx, cls + ".add_parity:unchecked", F, n, lambda a, c=const: nsat(a, lits) % 2 == c,
                  ("parity-u", cls, lits_t, kind, const), "%s.add_parity(%s %r, %d, check=False)" % (cls, kind, lits, const))


# --------------------------------------------------------------------------
def case_card(ctx, cls, L, shift, repeated=False):
    """add_linear / cardinality_* / majorities / parity on one length."""
    tt.selfcheck()
    K = classes()[cls]
    n = L + shift + (1 if L else 0)       # one unused trailing variable
    pats = list(lit_patterns(L, shift))
    if repeated and L >= 2:
        rep = []
        for p in pats[:8]:
            rep.append(p[:-1] + [p[0]])       # repeated literal
            rep.append(p[:-1] + [-p[0]])      # opposite literal
        pats = rep
    if not repeated and L >= 2:
        # the same literals listed downwards, and every second variable (both ways): arithmetic progressions that a
        # caller writes as range(n, 0, -1), range(1, 2n, 2), range(-1, -2n, -2)
        ups = [i + 1 + shift for i in range(L)]
        odd = [2 * i + 1 + shift for i in range(L)]
        pats += [ups[::-1], [-v for v in ups][::-1], odd, odd[::-1], [-v for v in odd], [-v for v in odd][::-1]]
    n0 = n
    for ipat, lits in enumerate(pats):
        lits_t = tuple(lits)
        n = max([n0] + [abs(l) + 1 for l in lits])
        if any(lits[i + 1] < lits[i] for i in range(len(lits) - 1)) and len(set(lits)) == len(lits):
            ctx.count("descending_arguments")
        for kind, make in containers(lits):
            ctx.count(kind + "_arguments")
            if ipat % 3 == 0 or len(pats) - ipat <= 6:
                unchecked_calls(ctx, cls, K, kind, make, lits, n, L)
            # cardinality against every constant, every operator
            for const in range(-2, L + 3):
                for op, pyop in OPS.items():
                    pred = (lambda a, c=const, o=pyop: o(nsat(a, lits), c))
                    rep = "%s.%%s(%s %r, %r, %d)" % (cls, kind, lits, op, const)
                    if cls == "CNF":
                        F = fresh(ctx, K)
                        if call_builder(ctx, "CNF.add_linear", F, F.add_linear, make(), op, const):
                            ctx.count("cnf_builder_calls")
                            judge(ctx, "CNF.add_linear[%s]" % op, F, n, pred,
                                  ("lin", cls, lits_t, kind, op, const), rep % "add_linear")
                    name = {"<=": "cardinality_leq", ">=": "cardinality_geq",
                            "==": "cardinality_eq", "!=": "cardinality_neq"}.get(op)
                    if name:
                        F = fresh(ctx, K)
                        if call_builder(ctx, "%s.%s" % (cls, name), F, getattr(F, name), make(), const):
                            ctx.count(cls.lower() + "_builder_calls")
                            judge(ctx, "%s.%s" % (cls, name), F, n, pred,
                                  ("card", cls, lits_t, kind, op, const), rep % name)
            # majorities / minorities
            for name, pred in (
                    ("add_loose_majority", lambda a: 2 * nsat(a, lits) >= L),
                    ("add_strict_majority", lambda a: 2 * nsat(a, lits) > L),
                    ("add_loose_minority", lambda a: 2 * nsat(a, lits) <= L),
                    ("add_strict_minority", lambda a: 2 * nsat(a, lits) < L)):
                F = fresh(ctx, K)
                if call_builder(ctx, "%s.%s" % (cls, name), F, getattr(F, name), make()):
                    ctx.count(cls.lower() + "_builder_calls")
                    judge(ctx, "%s.%s" % (cls, name), F, n, pred, (name, cls, lits_t, kind),
                          "%s.%s(%s %r)" % (cls, name, kind, lits))
            # parity
            for const in (0, 1, True, False):
                F = fresh(ctx, K)
                if call_builder(ctx, cls + ".add_parity", F, F.add_parity, make(), const):
                    ctx.count(cls.lower() + "_builder_calls")
                    judge(ctx, cls + ".add_parity", F, n,
                          lambda a, c=int(const): nsat(a, lits) % 2 == c,
                          ("parity", cls, lits_t, kind, repr(const)),
                          "%s.add_parity(%s %r, %r)" % (cls, kind, lits, const))


def case_opb_constraint(ctx, L, rseed, count):
    """OPB.add_constraint with arbitrary integer coefficients and all five operators."""
    tt.selfcheck()
    OPB = classes()["OPB"]
    r = ctx.rng("opbcon", L, rseed)
    n = L + 1
    for _ in range(count):
        terms = []
        for i in range(L):
            var = r.randint(1, n) if r.random() < 0.3 else i + 1
            c = r.choice([-4, -3, -2, -1, 0, 1, 2, 3, 4])
            terms.append((c, r.choice([1, -1]) * var))
        op = r.choice(["<=", ">=", "<", ">", "=="])
        deg = r.randint(-6, 4 * L + 2) if r.random() < 0.8 else r.randint(-30, 40)
        con = terms + [op, deg]
        F = OPB()
        # one call in three gets a constraint already in normal form (positive coefficients, >= or ==), as a list the
        # caller keeps and goes on editing afterwards
        if r.random() < 0.34:
            terms = [(abs(c), l) for c, l in terms]
            op = r.choice([">=", "=="])
            con = terms + [op, deg]
        mine = list(con)
        if not call_builder(ctx, "OPB.add_constraint", F, F.add_constraint, mine):
            continue
        ctx.count("opb_builder_calls")
        before = [list(c) for c in F]
        mine[-1] = deg + 1 if isinstance(deg, int) else deg         # the caller reuses its list for the next constraint
        mine[-2] = "==" if op != "==" else ">="
        mine.insert(0, (5, 1))
        ctx.count("argument_lists_edited_after_the_call")
        if [list(c) for c in F] != before:
            ctx.violation("OPB.add_constraint:formula-follows-the-callers-list", "after add_constraint(%r) the caller edited its own list and "
                          "the stored constraint changed from %r to %r" % (con, before, [list(c) for c in F]))
            continue
        pred = lambda a: tt.naive_pb_holds(a, terms, op, deg)
        bad = [c for c in F if any(co <= 0 for co, _ in c[:-2]) or c[-2] not in (">=", "==")]
        if bad:
            ctx.violation("OPB.add_constraint:not-normalised",
                          "stored constraint is not normalised: %r -> %r" % (con, bad))
        judge(ctx, "OPB.add_constraint[%s]" % op, F, n, pred,
              ("opbcon", tuple(terms), op, deg), "OPB.add_constraint(%r)" % (con,))


def case_normalize(ctx, rseed, count):
    """normalize_opb keeps the model set, leaves positive coefficients and >= / ==."""
    from cnfgen.formula.baseopb import normalize_opb
    r = ctx.rng("norm", rseed)
    for _ in range(count):
        L = r.randint(0, 6)
        n = max(1, L)
        terms = [(r.choice([-9, -5, -3, -2, -1, 0, 0, 1, 2, 3, 4, 7]),
                  r.choice([1, -1]) * r.randint(1, n)) for _ in range(L)]
        op = r.choice(["<=", ">=", "<", ">", "=="])
        deg = r.randint(-12, 25)
        con = terms + [op, deg]
        before = list(con)
        arg = list(con)
        st, out = ctx.call(normalize_opb, arg)
        ctx.count("normalize_calls")
        if st == "exc":
            ctx.violation("normalize_opb:raises:" + type(out).__name__, "normalize_opb(%r) raised %r" % (con, out))
            continue
        if arg != before:
            ctx.violation("normalize_opb:mutates-argument", "argument changed: %r -> %r" % (before, arg))
        shape_ok = (out[-2] in (">=", "==") and all(isinstance(c, int) and c > 0 for c, _ in out[:-2])
                    and all(isinstance(l, int) and l != 0 for _, l in out[:-2]))
        if not shape_ok:
            ctx.violation("normalize_opb:shape", "%r -> %r is not normalised" % (con, out))
            continue
        exp = expected_set(n, lambda a: tt.naive_pb_holds(a, terms, op, deg))
        got = tt.models_pb(n, out[:-2], out[-2], out[-1])
        if got != exp:
            ctx.violation("normalize_opb:models[%s]" % op, "%r -> %r changes the model set" % (con, out),
                          difference=tt.first_difference(n, got, exp))
        ctx.judged(("norm", tuple(terms), op, deg), nontrivial=L > 0,
                   sample={"in": con, "out": out})


# -------------------------------------------------------------------------- mappings
def relation_of(a, atoms):
    return {p for p, v in atoms.items() if (a >> (v - 1)) & 1}


UNARY_CONDS = {
    "complete": lambda R, D, Rg, E: all(any((x, y) in R for y in Rg) for x in D),
    "functional": lambda R, D, Rg, E: all(sum((x, y) in R for y in Rg) <= 1 for x in D),
    "injective": lambda R, D, Rg, E: all(sum((x, y) in R for x in D) <= 1 for y in Rg),
    "surjective": lambda R, D, Rg, E: all(any((x, y) in R for x in D) for y in Rg),
    "nondecreasing": lambda R, D, Rg, E: not any(x1 < x2 and y1 > y2 for (x1, y1) in R for (x2, y2) in R),
}


def case_unary_mapping(ctx, cls, n, m, edgemask, offset):
    """force_* on new_mapping / new_sparse_mapping; edgemask None = complete domain."""
    tt.selfcheck()
    from cnfgen.graphs import BipartiteGraph
    K = classes()[cls]
    pairs = [(x, y) for x in range(1, n + 1) for y in range(1, m + 1)]
    if edgemask is None:
        E = pairs
    else:
        E = [p for i, p in enumerate(pairs) if (edgemask >> i) & 1]
    for r in range(1, len(UNARY_CONDS) + 1):
        for conds in itertools.combinations(sorted(UNARY_CONDS), r):
            if r > 2 and conds not in (("complete", "functional", "injective"),
                                       ("complete", "functional", "surjective"),
                                       ("complete", "functional", "injective", "surjective"),
                                       ("complete", "functional", "nondecreasing")):
                continue
            F = K()
            if offset:
                F.update_variable_number(offset)
            if edgemask is None:
                st, f = ctx.call(F.new_mapping, n, m)
            else:
                rep = (edgemask + r + offset + len(conds[0])) % 4
                if rep == 1:
                    from ..ducks import computed_bipartite
                    B = computed_bipartite(n, m, E)                   # a user's BipartiteGraph subclass with computed edges
                    ctx.count("sparse_domain_as_user_class")
                elif rep == 2:
                    from ..ducks import computed_bipartite
                    B = computed_bipartite(n, m, E, order="preference", base="BaseBipartiteGraph")   # ... neighbours in its own order
                    ctx.count("sparse_domain_as_user_class_own_neighbour_order")
                else:
                    B = BipartiteGraph(n, m)
                    for e in E:
                        B.add_edge(*e)
                st, f = ctx.call(F.new_sparse_mapping, B)
            if st == "exc":
                ctx.violation("mapping:create:raises:" + type(f).__name__,
                              "creating a %dx%d mapping raised %r" % (n, m, f))
                return
            N = F.number_of_variables()
            if N != offset + len(E):
                ctx.violation("mapping:unary:numvar", "mapping %dx%d edges=%d has %d variables"
                              % (n, m, len(E), N - offset))
                return
            atoms = {}
            for (x, y) in E:
                atoms[(x, y)] = f(x, y)
            # what the group hands out belongs to the caller, who may well edit it (negate a table of literals, sort,
            # clear, merge another mapping's table into it) before asking for the constraints
            if (len(E) + r + offset) % 2 == 0:
                for getter in (lambda: f.to_dict(), lambda: f(None, None), lambda: f(1, None), lambda: f(None, 1), lambda: f.indices()):
                    try:
                        got_ = getter()
                    except Exception:       # noqa: BLE001
                        continue
                    if isinstance(got_, dict):
                        for k_ in list(got_):
                            got_[k_] = -got_[k_] if isinstance(got_[k_], int) else None
                        got_[("x", "y")] = 99
                        ctx.count("handed_out_containers_edited")
                    elif isinstance(got_, list):
                        got_.reverse()
                        got_.append(-1)
                        ctx.count("handed_out_containers_edited")
            ok = True
            for c in conds:
                if not call_builder(ctx, "force_%s_mapping[unary,%s]" % (c, cls), F,
                                    getattr(F, "force_%s_mapping" % c), f):
                    ok = False
            if not ok:
                continue
            ctx.count("mapping_calls")
            D, Rg = range(1, n + 1), range(1, m + 1)
            pred = lambda a: all(UNARY_CONDS[c](relation_of(a, atoms), D, Rg, E) for c in conds)
            if F.number_of_variables() != N:
                ctx.violation("mapping:unary:numvar-changed", "force_%s changed the variable count" % (conds,))
                continue
            got = tt.models_of_n(F, N)
            exp = expected_set(N, pred)
            if got != exp:
                ctx.violation("force_%s_mapping[unary]:models" % "+".join(conds),
                              "%s mapping %dx%d edges=%r conds=%r: model set differs" % (cls, n, m, E, conds),
                              difference=tt.first_difference(N, got, exp), formula=list(F))
            ctx.judged(("umap", cls, n, m, edgemask, offset, conds), nontrivial=len(E) > 0,
                       sample={"mapping": [n, m], "edges": E, "force": conds, "models": tt.count(got)})


def case_binary_mapping(ctx, cls, n, m, offset):
    tt.selfcheck()
    K = classes()[cls]
    pow2 = (m & (m - 1)) == 0
    combos = [("complete",), ("complete", "functional"), ("complete", "injective"),
              ("complete", "nondecreasing"), ("complete", "injective", "nondecreasing")]
    if pow2:
        combos += [("injective",), ("nondecreasing",), ("functional",)]
    for conds in combos:
        F = K()
        if offset:
            F.update_variable_number(offset)
        st, f = ctx.call(F.new_binary_mapping, n, m)
        if st == "exc":
            ctx.violation("mapping:create:raises:" + type(f).__name__,
                          "new_binary_mapping(%d,%d) raised %r" % (n, m, f))
            return
        k = (m - 1).bit_length()
        N = F.number_of_variables()
        if N != offset + n * k:
            ctx.violation("mapping:binary:numvar", "binary mapping %d->%d has %d variables, expected %d"
                          % (n, m, N - offset, n * k))
            return
        bitvar = {(i, b): f(i, b) for i in range(1, n + 1) for b in range(k)}
        if (n + m + offset + len(conds)) % 2:
            # a caller that builds its own clauses out of what the group hands out, and edits those lists in place:
            # whatever is returned belongs to the caller, the requirements built afterwards must not depend on it
            for i in range(1, n + 1):
                for j in range(1 << k):
                    st, cl = ctx.call(f.forbid, i, j)
                    if st == "ok" and isinstance(cl, list):
                        cl += [10 ** 6, -1]
                        cl.reverse()
                        ctx.count("returned_lists_edited_by_caller")
                st, row = ctx.call(f, i, None)
                if st == "ok" and isinstance(row, list):
                    row.append(-(10 ** 6))
                    del row[0]
                    ctx.count("returned_lists_edited_by_caller")
        ok = True
        for c in conds:
            if not call_builder(ctx, "force_%s_mapping[binary,%s]" % (c, cls), F,
                                getattr(F, "force_%s_mapping" % c), f):
                ok = False
        if not ok:
            continue
        ctx.count("mapping_calls")
        if F.number_of_variables() != N:
            ctx.violation("mapping:binary:numvar-changed", "force_%s on a binary mapping %d->%d changed the variable count "
                          "from %d to %d" % (conds, n, m, N, F.number_of_variables()))
            continue
        stray = [l for con in F for l in ([x[1] for x in con[:-2]] if cls == "OPB" else con) if not 1 <= abs(l) <= N]
        if stray:
            ctx.violation("mapping:binary:undeclared-variable", "force_%s on a binary mapping %d->%d produced a constraint over "
                          "literal %r, the formula has %d variables" % (conds, n, m, stray[0], N))
            continue

        def value(a, i):
            return sum(((a >> (bitvar[(i, b)] - 1)) & 1) << b for b in range(k))

        def pred(a):
            vals = [value(a, i) for i in range(1, n + 1)]
            if "complete" in conds and any(v >= m for v in vals):
                return False
            if "injective" in conds and any(vals[i] == vals[j] and vals[i] < m
                                            for i in range(n) for j in range(i + 1, n)):
                return False
            if "nondecreasing" in conds and any(vals[i] > vals[j] and vals[i] < m and vals[j] < m
                                                for i in range(n) for j in range(i + 1, n)):
                return False
            return True
        got = tt.models_of_n(F, N)
        exp = expected_set(N, pred)
        if got != exp:
            ctx.violation("force_%s_mapping[binary]:models" % "+".join(conds),
                          "%s binary mapping %d->%d conds=%r: model set differs" % (cls, n, m, conds),
                          difference=tt.first_difference(N, got, exp), formula=list(F))
        ctx.judged(("bmap", cls, n, m, offset, conds), nontrivial=k > 0,
                   sample={"binary_mapping": [n, m], "force": conds, "models": tt.count(got)})


# --------------------------------------------------------------------------
def workload(tier, seed):
    maxL = 5 if tier == "quick" else 7
    for cls in ("CNF", "OPB"):
        for L in range(0, maxL + 1):
            for shift in ((0, 2) if L <= 4 else (0,)):
                yield "card", {"cls": cls, "L": L, "shift": shift}
        for L in range(2, (5 if tier == "quick" else 7)):
            yield "card", {"cls": cls, "L": L, "shift": 0, "repeated": True}
    nb = 16 if tier == "quick" else 640
    for L in range(0, 7):
        for i in range(nb // 4):
            yield "opb_constraint", {"L": L, "rseed": seed * 1000 + i, "count": 60}
    for i in range(nb):
        yield "normalize", {"rseed": seed * 1000 + i, "count": 1250}
    for cls in ("CNF", "OPB"):
        for n in range(0, 4):
            for m in range(0, 4):
                for offset in (0, 3):
                    yield "unary_mapping", {"cls": cls, "n": n, "m": m, "edgemask": None, "offset": offset}
                if 1 <= n * m <= 9:
                    masks = range(1 << (n * m)) if n * m <= 6 else None
                    if masks is None:
                        import random
                        r = random.Random("c04sparse%d%d%d" % (n, m, seed))
                        masks = sorted({r.getrandbits(n * m) for _ in range(40 if tier == "quick" else 300)})
                    for mask in masks:
                        yield "unary_mapping", {"cls": cls, "n": n, "m": m, "edgemask": mask, "offset": 0}
        for L in (9, 10) if tier == "quick" else (9, 10, 11):
            yield "wide", {"cls": cls, "L": L}
        for L in (13, 17) if tier == "quick" else (13, 16, 17, 18, 20):
            yield "huge_parity", {"cls": cls, "L": L}
        for m in (257, 300, 513, 1025, 2 ** 20 - 3) if tier == "quick" else (256, 257, 300, 512, 513, 1000, 1024, 1025, 2049, 2 ** 17 - 3,
                                                                              2 ** 19 - 2, 2 ** 20 - 3, 2 ** 21 - 3, 2 ** 22 - 5):
            yield "binary_mapping_wide", {"cls": cls, "m": m}
        for n in range(1, 4):
            for m in range(1, 9 if tier == "quick" else 12):
                if n * (m - 1).bit_length() <= 12:
                    for offset in (0, 2):
                        yield "binary_mapping", {"cls": cls, "n": n, "m": m, "offset": offset}


def case_wide(ctx, cls, L):
    """Parity and cardinality constraints on 9-11 literals (where byte-level tricks stop working)."""
    tt.selfcheck()
    K = classes()[cls]
    r = ctx.rng("c04wide", cls, L)
    n = L + 1
    base = list(range(1, L + 1))
    pats = [list(base), [-v for v in base], [v if i % 2 else -v for i, v in enumerate(base)]]
    for _ in range(3):
        pats.append([r.choice([1, -1]) * v for v in r.sample(range(1, n + 1), L)])
    for lits in pats:
        for const in (0, 1):
            F = K()
            if call_builder(ctx, cls + ".add_parity", F, F.add_parity, list(lits), const):
                ctx.count(cls.lower() + "_builder_calls")
                ctx.count("wide_parity_calls")
                judge(ctx, cls + ".add_parity", F, n, lambda a, c=const: nsat(a, lits) % 2 == c,
                      ("parity", cls, tuple(lits), "list", repr(const)), "%s.add_parity(%r, %r)" % (cls, lits, const))
        for op, const in (("<=", 1), (">=", L - 1), ("==", L // 2) if L <= 9 else ("==", 1), ("!=", L), (">", L - 2), ("<", 2)):
            pred = (lambda a, c=const, o=OPS[op]: o(nsat(a, lits), c))
            F = K()
            if cls == "CNF":
                ok = call_builder(ctx, "CNF.add_linear", F, F.add_linear, list(lits), op, const)
            elif op == "!=":
                ok = call_builder(ctx, "OPB.cardinality_neq", F, F.cardinality_neq, list(lits), const)
            else:
                ok = call_builder(ctx, "OPB.add_constraint", F, F.add_constraint, [(1, l) for l in lits] + [op, const])
            if ok:
                ctx.count(cls.lower() + "_builder_calls")
                judge(ctx, "%s.linear[%s]" % (cls, op), F, n, pred, ("wide-lin", cls, tuple(lits), op, const),
                      "%s linear(%r, %r, %d)" % (cls, lits, op, const))


def case_huge_parity(ctx, cls, L):
    """Parity constraints on 13-20 literals (beyond 16-bit folding tricks).  Exact without a truth table: when every
    constraint is a clause over the same L variables, each clause forbids exactly one assignment of them, so the model
    set is the parity iff the clauses are 2^(L-1) distinct patterns whose forbidden assignments all violate the parity.
    Any other encoding is judged on sampled assignments (never an alarm for an equivalent encoding)."""
    from ..refmodels.names import Evaluator
    K = classes()[cls]
    r = ctx.rng("c04hugeparity", cls, L)
    shift = r.choice([0, 3])
    base = list(range(1 + shift, L + 1 + shift))
    pats = [list(base), [r.choice([1, -1]) * v for v in r.sample(base, L)]]
    if L >= 20:
        pats = pats[1:]
    for lits in pats:
        for const in (0, 1):
            F = K()
            if not call_builder(ctx, cls + ".add_parity", F, F.add_parity, list(lits), const):
                continue
            ctx.count(cls.lower() + "_builder_calls")
            ctx.count("huge_parity_calls")
            who = cls + ".add_parity[%d literals]" % L
            desc = "%s.add_parity(%r, %r)" % (cls, lits, const)
            if F.number_of_variables() != L + shift:
                ctx.violation(who + ":numvar", "%s: %d variables declared, the literals reach %d" % (desc, F.number_of_variables(), L + shift))
                continue
            neg = {abs(l) for l in lits if l < 0}
            E = Evaluator(F)
            vs = tuple(sorted(base))
            how = "sampled"
            if not E.other and set(E.groups) == {vs}:
                how = "exact"
                got = E.groups[vs]
                bad = None
                for p in got:
                    # the assignment this clause forbids: v is true iff its literal in the clause is negative
                    sat = sum(1 for v, positive in zip(vs, p) if (not positive) != (v in neg))
                    if sat % 2 == const:
                        bad = [v if not positive else -v for v, positive in zip(vs, p)]
                        break
                if bad is not None:
                    ctx.violation(who + ":models", "%s forbids the assignment %r, which satisfies the parity" % (desc, bad))
                elif len(got) != 1 << (L - 1) or E.clauses != len(F):
                    ctx.violation(who + ":models", "%s: %d distinct clauses among %d constraints, the parity needs %d: "
                                  "some violating assignment is allowed or a clause is repeated" % (desc, len(got), len(F), 1 << (L - 1)))
            else:
                for _ in range(300):
                    true = {v for v in base if r.random() < 0.5}
                    exp = sum(1 for l in lits if (l > 0) == (abs(l) in true)) % 2 == const
                    if E.value(true) != exp:
                        ctx.violation(who + ":models", "%s: assignment with true variables %r should %s it"
                                      % (desc, sorted(true), "satisfy" if exp else "violate"))
                        break
            ctx.judged(("huge-parity", cls, tuple(lits), const), nontrivial=True,
                       sample={"call": "%s.add_parity(<%d literals>, %d)" % (cls, L, const), "constraints": len(F), "judged": how})


def case_binary_mapping_wide(ctx, cls, m):
    """Binary mappings with 9 and more bits per element: sampled assignments against the functional condition."""
    from ..refmodels.names import eval_formula
    K = classes()[cls]
    r = ctx.rng("c04binwide", cls, m)
    n = 2
    k = (m - 1).bit_length()
    combos = [("complete",), ("complete", "injective")]
    if m > 70000:
        combos = [("complete",)]        # 17-22 bits: the range ends just below a power of two, so only a few values are forbidden
    if m <= 300 and cls == "CNF":
        combos.append(("complete", "nondecreasing"))           # C(m,2) clauses: affordable for the smaller ranges only
    for conds in combos:
        F = K()
        st, f = ctx.call(F.new_binary_mapping, n, m)
        if st == "exc":
            ctx.violation("mapping:create:raises:" + type(f).__name__, "new_binary_mapping(%d,%d) raised %r" % (n, m, f))
            return
        if F.number_of_variables() != n * k:
            ctx.violation("mapping:binary:numvar", "binary mapping %d->%d has %d variables, expected %d" % (n, m, F.number_of_variables(), n * k))
            return
        bitvar = {(i, b): f(i, b) for i in (1, 2) for b in range(k)}
        ok = True
        for c in conds:
            if not call_builder(ctx, "force_%s_mapping[binary,%s]" % (c, cls), F, getattr(F, "force_%s_mapping" % c), f):
                ok = False
        if not ok:
            continue
        ctx.count("mapping_calls")
        ctx.count("wide_binary_mappings")
        interesting = sorted({0, 1, 2, 3, m - 2, m - 1, m, m + 1, (1 << k) - 1, (1 << k) - 2, 129, 258, 1 << (k - 1), (1 << (k - 1)) - 1,
                              int(bin(m - 1)[2:].zfill(k)[::-1], 2), int(bin(min(m, (1 << k) - 1))[2:].zfill(k)[::-1], 2)} | {r.randrange(1 << k) for _ in range(4)})
        interesting = [v for v in interesting if 0 <= v < (1 << k)]
        if "nondecreasing" in conds:
            interesting = interesting[:3] + interesting[-5:]
        bad = None
        for v1 in interesting:
            for v2 in interesting:
                t = {bitvar[(1, b)] for b in range(k) if (v1 >> b) & 1} | {bitvar[(2, b)] for b in range(k) if (v2 >> b) & 1}
                exp = v1 < m and v2 < m
                if "injective" in conds:
                    exp = exp and v1 != v2
                if "nondecreasing" in conds:
                    exp = exp and v1 <= v2
                if eval_formula(F, t) != exp:
                    bad = (v1, v2, exp)
                    break
            if bad:
                break
        if bad:
            ctx.violation("force_%s_mapping[binary,wide]:models" % "+".join(conds),
                          "%s binary mapping %d->%d %r: elements mapped to (%d,%d) should %s the constraints"
                          % (cls, n, m, conds, bad[0], bad[1], "satisfy" if bad[2] else "violate"))
        ctx.judged(("bmap-wide", cls, m, conds), nontrivial=True, sample={"binary_mapping": [n, m], "force": conds, "bits": k,
                                                                         "value_pairs_tried": len(interesting) ** 2})

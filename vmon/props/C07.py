"""C07 -- output is a function of the command line and the seed only.

Each (tool, argv, seed) is executed several times in *fresh processes* that differ in
PYTHONHASHSEED and working directory (ASLR on): the stdout bytes (and every file the
command saves) must be identical.  An in-process RNG tap records the event trace
`seed(s) | draw@site` of the global generator and checks the trace specification
"with --seed s no draw precedes the first seed(s), and seed(s) happens for every
integer s".  Library generators are called twice per seed.
"""
import hashlib
import os
import random
import re
import shutil
import tempfile

from ..argvcorpus import small, realistic
from ..cliharness import spawn, run_main

RULE = ("(tool, argv, seed): every source of randomness -- random families (randkcnf, randkxor +-plant, pitfall, tseitin N d / random "
        "charges, php M N D, subsetcard N d, stone --sparse, op N d), random graph arguments (gnp incl. t-partite, gnm, gnd, glrp, glrm, "
        "glrd, regular, plantclique, plantbiclique, addedges, splitedges, save), transformations (shuffle, xorcomp/majcomp N d), the "
        "three tools, quiet and verbose, dimacs/opb/latex -- x seeds {0, 1, 42, -7, 2^40}; each executed in fresh processes with "
        "PYTHONHASHSEED in {0, 1, random} from three working directories; deterministic commands also without a seed; in-process "
        "double runs and RNG event traces on the larger corpus.  distinct = (tool, argv, seed); trivial = command refused.")
ASSUMPTIONS = ["hash seeds, working directories and address-space layouts are sampled, not enumerated",
               "stdout bytes (and saved files) are 'the output'; stderr is not compared",
               "the RNG tap replaces the class of random._inst and the module-level functions; it leaves the generated stream unchanged"]
REQUIRED = ["process_groups_compared", "processes_spawned", "library_calls_compared_across_processes", "hashseed_random_runs", "cwd_outside_git_runs", "saved_files_compared",
            "inprocess_double_runs", "trace_runs", "trace_seed_events", "trace_draw_events", "library_double_calls", "seed_zero_cases",
            "negative_seed_cases", "big_seed_cases", "verbose_header_cases", "tool_cnfgen", "tool_pbgen", "tool_cnfshuffle",
            "graph_file_with_named_vertices"]
CASE_TIMEOUT = {"quick": 600, "thorough": 3600}
SEEDS = [0, 1, 42, -7, 2 ** 40]
ADDR = re.compile(r"0x[0-9a-fA-F]{6,}")

RANDOM_TOKENS = {"gnp", "gnm", "gnd", "glrp", "glrm", "glrd", "regular", "plantclique", "plantbiclique", "addedges", "splitedges",
                 "random", "randomodd", "randomeven", "randkcnf", "randkxor", "pitfall", "--sparse", "shuffle", "xorcomp", "majcomp"}


def is_random(tail):
    if any(t in RANDOM_TOKENS for t in tail):
        return True
    sub = tail[0]
    nums = [t for t in tail[1:] if re.fullmatch(r"\d+", t)]
    if sub in ("php", "op") and len(nums) >= (3 if sub == "php" else 2) and not any(t.isalpha() and not t.startswith("-") for t in tail[1:]):
        return True
    if sub in ("tseitin", "subsetcard") and nums and not any(t.isalpha() and not t.startswith("-") for t in tail[1:]):
        return True
    return False


def corpus():
    """[(tool, tail, stdin_text)] with every source of randomness."""
    out = []
    for sub, tail in small():
        if is_random(tail):
            out.append(("cnfgen", tail, ""))
    for sub, tail in realistic():
        if is_random(tail):
            out.append(("cnfgen", tail, ""))
    extra = [["php", "3", "2", "-T", "shuffle"], ["op", "4", "-T", "shuffle", "--no-polarity-flips"],
             ["count", "4", "2", "-T", "xorcomp", "4", "2"], ["peb", "pyramid", "2", "-T", "majcomp", "5", "3"],
             ["kcolor", "3", "gnp", "5", ".5"], ["kcolor", "2", "grid", "2", "2"], ["kcolor", "3", "gnm", "6", "7", "-T", "shuffle"],
             ["matching", "gnp", "6", ".5", "plantclique", "3", "addedges", "2"], ["php", "glrp", "3", "4", ".5", "addedges", "1"],
             ["tseitin", "randomodd", "gnd", "6", "3"], ["subsetcard", "glrd", "4", "4", "2", "plantbiclique", "2", "2"],
             ["stone", "3", "tree", "2", "--sparse", "2", "-T", "shuffle"], ["domset", "2", "gnp", "3", ".5", "3"]]
    extra += [["matching", "gnm", "8", "10", "addedges", "3", "splitedges", "2"],
              ["kcolor", "3", "grid", "3", "3", "splitedges", "2", "addedges", "2"],
              ["tiling", "gnp", "7", ".4", "plantclique", "3", "addedges", "2", "splitedges", "1"],
              ["domset", "2", "complete", "4", "splitedges", "3", "addedges", "4"]]
    # random bipartite graphs written out as the argument of a compression (built while the command line is parsed)
    extra += [["php", "4", "3", "-T", "xorcomp", "glrd", "12", "6", "3"],
              ["php", "4", "3", "-T", "majcomp", "glrp", "12", "5", ".5", "addedges", "2"],
              ["count", "4", "2", "-T", "xorcomp", "glrm", "6", "4", "9", "plantbiclique", "2", "2"],
              ["and", "3", "3", "-T", "majcomp", "regular", "6", "4", "2", "-T", "xorcomp", "glrd", "4", "3", "2"]]
    for t in extra:
        out.append(("cnfgen", t, ""))
    out.append(("pbgen", ["matching", "gnm", "8", "10", "addedges", "3", "splitedges", "2"], ""))
    for sub, tail in small():
        if is_random(tail) and sub in ("php", "subsetcard", "tseitin", "randkcnf", "randkxor", "kcolor", "stone", "op", "matching"):
            out.append(("pbgen", tail, ""))
    # graph files whose vertices have non-numeric names (numbering must not depend on hash order)
    for t in (["kcolor", "3", "@SIMPLE_DOT"], ["matching", "@SIMPLE_DOT", "plantclique", "3"], ["op", "@SIMPLE_DOT"],
              ["php", "@BIP_DOT"], ["php", "--functional", "@BIP_DOT", "addedges", "2"], ["subsetcard", "@BIP_DOT"],
              ["php", "@BIP_DOT", "plantbiclique", "2", "2"], ["peb", "@DAG_DOT"], ["stone", "2", "@DAG_DOT"],
              ["tseitin", "randomodd", "@SIMPLE_DOT"], ["iso", "@SIMPLE_DOT", "-e", "@SIMPLE_DOT"]):
        out.append(("cnfgen", t, ""))
    out.append(("pbgen", ["subsetcard", "@BIP_DOT"], ""))
    out.append(("pbgen", ["php", "@BIP_DOT", "addedges", "1"], ""))
    # the same without (or with only some of) the side attributes: accepted or refused, but the same in every process
    for t in (["php", "@BIP_DOT_PLAIN"], ["subsetcard", "@BIP_DOT_PLAIN"], ["php", "@BIP_DOT_PARTIAL"],
              ["php", "@BIP_GML_PLAIN"], ["php", "@BIP_DOT_PLAIN2"], ["dimacs", "@CNF9", "-T", "xorcomp", "@BIP_DOT_PLAIN"]):
        out.append(("cnfgen", t, ""))
    out.append(("pbgen", ["php", "@BIP_DOT_PLAIN"], ""))
    # every output format's way of quoting the description (file names with characters special to LaTeX / OPB / DIMACS)
    for t in (["-of", "latex", "kcolor", "3", "@ODD_GML"], ["-of", "latex", "dimacs", "@ODD_CNF"], ["-of", "opb", "kcolor", "3", "@ODD_GML"],
              ["-v", "kcolor", "3", "@ODD_GML"], ["-of", "latex", "op", "@ODD_GML", "-T", "shuffle"]):
        out.append(("cnfgen", t, ""))
    out.append(("pbgen", ["-of", "latex", "kcolor", "3", "@ODD_GML"], ""))
    # long command lines (echoed in the header)
    out.append(("cnfgen", ["and", "2", "1"] + ["-T", "none"] * 14 + ["-T", "shuffle"], ""))
    out.append(("pbgen", ["tseitin", "random", "gnm", "8", "10", "addedges", "2", "splitedges", "1", "plantclique", "3"], ""))
    out.append(("cnfgen", ["vdw", "6"] + ["2"] * 40, ""))
    text = "p cnf 6 5\n1 -2 3 0\n-1 4 0\n5 6 0\n-3 -4 -5 0\n2 0\n"
    for flags in ([], ["-p"], ["-v"], ["-c"], ["-p", "-c"]):
        out.append(("cnfshuffle", flags, text))
    return out


FILES = {
    "@SIMPLE_DOT": ("people.dot", 'graph people {\n  alice -- bob;\n  bob -- carol;\n  carol -- dave;\n  dave -- alice;\n  erin -- alice;\n'
                                  '  frank -- carol;\n  grace;\n  heidi -- bob;\n  ivan -- judy;\n  judy -- alice;\n}\n'),
    "@BIP_DOT": ("pairs.dot", 'graph pairs {\n' + "".join('  %s [bipartite=0];\n' % n for n in ("ann", "bo", "cy", "di", "ed"))
                 + "".join('  %s [bipartite=1];\n' % n for n in ("hole_x", "hole_y", "hole_z", "hole_w"))
                 + '  ann -- hole_x;\n  ann -- hole_y;\n  bo -- hole_y;\n  cy -- hole_z;\n  di -- hole_w;\n  ed -- hole_x;\n  ed -- hole_z;\n}\n'),
    "@BIP_DOT_PLAIN": ("plainpairs.dot", 'graph pairs {\n  ann -- hole_x;\n  ann -- hole_y;\n  bo -- hole_y;\n  bo -- hole_z;\n  cy -- hole_z;\n'
                                         '  cy -- hole_w;\n  di -- hole_w;\n  di -- hole_v;\n  ed -- hole_v;\n  ed -- hole_x;\n  fay -- hole_x;\n  gus -- hole_y;\n'
                                         '  hal -- hole_z;\n  ida -- hole_w;\n}\n'),          # connected: one bipartition only
    "@BIP_DOT_PLAIN2": ("plainpairs2.dot", 'graph pairs {\n  ann -- hole_x;\n  ann -- hole_y;\n  bo -- hole_y;\n  cy -- hole_z;\n  di -- hole_w;\n}\n'),
    "@BIP_DOT_PARTIAL": ("partpairs.dot", 'graph pairs {\n  ann [bipartite=0];\n  hole_x [bipartite=1];\n  ann -- hole_x;\n  ann -- hole_y;\n  bo -- hole_y;\n'
                                          '  cy -- hole_z;\n  di -- hole_w;\n}\n'),
    "@BIP_GML_PLAIN": ("plainpairs.gml", 'graph [\n' + "".join('  node [\n    id %d\n    label "%s"\n  ]\n' % (i, n) for i, n in
                                                               enumerate(("ann", "bo", "cy", "hole_x", "hole_y", "hole_z")))
                       + "".join('  edge [\n    source %d\n    target %d\n  ]\n' % e for e in ((0, 3), (0, 4), (1, 4), (1, 5), (2, 5), (2, 3))) + ']\n'),
    "@ODD_GML": ("backup~1^2 50%_{a}&b#c$.gml", 'graph [\n' + "".join('  node [\n    id %d\n    label "%d"\n  ]\n' % (i, i) for i in range(1, 6))
                 + "".join('  edge [\n    source %d\n    target %d\n  ]\n' % e for e in ((1, 2), (2, 3), (3, 4), (4, 5), (5, 1), (1, 3))) + ']\n'),
    "@ODD_CNF": ("old~copy^3 100%_{x}&y#z$.cnf", "p cnf 4 3\n1 -2 0\n3 4 0\n-1 -4 0\n"),
    "@CNF9": ("nine.cnf", "p cnf 9 4\n1 -2 3 0\n-4 5 0\n6 -7 8 0\n-9 1 0\n"),
    "@DAG_DOT": ("steps.dot", 'digraph steps {\n  a1 -> b2;\n  a1 -> c3;\n  b2 -> d4;\n  c3 -> d4;\n  d4 -> e5;\n}\n'),
}


def materialise(tail, directory):
    """Replace @FILE tokens by paths of files written into `directory` (same path for every run of a group)."""
    out = []
    for t in tail:
        if t in FILES:
            name, text = FILES[t]
            path = os.path.join(directory, name)
            if not os.path.exists(path):
                with open(path, "w") as f:
                    f.write(text)
            out.append(path)
        else:
            out.append(t)
    return out


SEED_SPELLINGS = (("--seed", "%d"), ("-S", "%d"), ("--seed=%d",), ("-S%d",), ("--see", "%d"), ("--se=%d",), ("-S=%d",))


def seed_args(tool, seed, key=None):
    """The seed option in one of the spellings the parser accepts (separate, attached, abbreviated); the spelling is a
    function of the command line, so that all runs of one group type exactly the same thing."""
    if tool == "cnfshuffle" or key is None or seed < 0:
        return ["--seed", str(seed)] if tool != "cnfshuffle" else ["-S", str(seed)]
    import zlib
    sp = SEED_SPELLINGS[zlib.crc32(repr((tool, seed, key)).encode()) % len(SEED_SPELLINGS)]
    return [t % seed if "%d" in t else t for t in sp]


def digest(b):
    return hashlib.sha1(b.encode("utf-8", "replace")).hexdigest()[:16]


def case_processes(ctx, lo, hi, seeds, verbose_every):
    """fresh processes: hash seeds x working directories"""
    from .. import REPO
    items = corpus()[lo:hi]
    scratch = tempfile.mkdtemp(prefix="c07-")
    try:
        cwds = [REPO, "/", scratch]
        for i, (tool, tail, stdin_text) in enumerate(items):
            for seed in seeds:
                variants = []
                verbose = (i % verbose_every == 0)
                opts = [] if verbose else ["-q"]
                save_paths = []
                argv_tail = materialise(tail, scratch)
                if argv_tail != list(tail):
                    ctx.count("graph_file_with_named_vertices")
                # save a random graph as well: the stored file is part of the output
                if tool == "cnfgen" and tail[0] in ("matching", "kcolor") and "-T" not in tail and i % 3 == 0:
                    argv_tail = argv_tail + ["save", "kthlist", "SAVEPATH"]
                runs = [("0", cwds[0]), ("1", cwds[1]), ("random", cwds[2])]
                if ctx.tier == "thorough" or argv_tail != list(tail) or \
                        sum(1 for t in argv_tail if t in ("addedges", "splitedges", "plantclique", "plantbiclique")) >= 2:
                    # string-keyed sets/dicts order differently for few hash seeds only: sweep some more
                    runs += [(str(h), cwds[h % 3]) for h in (2, 3, 4, 5, 6, 7, 12345)]
                if i % 4 == 0 or argv_tail != list(tail):
                    # the same moment of the wall clock is no argument either: the last noon of a year, the first of the next
                    runs += [("0", cwds[0], 1798718400.0), ("0", cwds[0], 1798804800.0)]
                if i % 4 == 1 or len(" ".join(argv_tail)) > 60:
                    # ... nor is the size of somebody's terminal window (COLUMNS / LINES are exported by interactive shells)
                    runs += [("0", cwds[0], None, {"COLUMNS": "40", "LINES": "10"}), ("0", cwds[0], None, {"COLUMNS": "200", "LINES": "60"})]
                if i % 4 == 2 or argv_tail != list(tail):
                    # ... nor is the interpreter's optimisation flag (judged for requests that are accepted: the pinned tree
                    # validates some arguments with assert statements, so refusals may differ under -O)
                    runs += [("0", cwds[0], None, {}, ["-O"])]
                for k, run in enumerate(runs):
                    hs, cwd = run[0], run[1]
                    clock = run[2] if len(run) > 2 else None
                    extra_env = run[3] if len(run) > 3 else {}
                    pyflags = run[4] if len(run) > 4 else []
                    if pyflags and variants and variants[0][2].rc not in (0, None):
                        continue
                    if pyflags:
                        ctx.count("python_O_runs")
                    if extra_env:
                        ctx.count("terminal_size_runs")
                    sp = os.path.join(scratch, "saved.kthlist")      # same path every time: it is echoed in the header
                    at = [sp if t == "SAVEPATH" else t for t in argv_tail]
                    argv = (seed_args(tool, seed, argv_tail) if seed is not None else []) + opts + at
                    if tool == "cnfshuffle":
                        argv = seed_args(tool, seed) + ([] if verbose else ["-q"]) + at
                    if clock is not None:
                        ctx.count("pinned_clock_runs")
                    try:
                        o = spawn(tool, argv, stdin_text=stdin_text, cwd=cwd, env=dict({"PYTHONHASHSEED": hs}, **extra_env), timeout=300, clock=clock, pyflags=pyflags)
                    except Exception as e:      # noqa: BLE001 - a watchdog firing is inconclusive, not a violation
                        ctx.problems.append({"kind": "spawn-failed", "case": ctx.case, "traceback": repr(e)})
                        continue
                    ctx.count("processes_spawned")
                    if hs == "random":
                        ctx.count("hashseed_random_runs")
                    if cwd == scratch:
                        ctx.count("cwd_outside_git_runs")
                    saved = None
                    if "SAVEPATH" in argv_tail and os.path.exists(sp):
                        saved = open(sp).read()
                        os.unlink(sp)
                    variants.append((hs, cwd, o, saved))
                if len(variants) < 2:
                    continue
                label = "%s %s" % (tool, " ".join((seed_args(tool, seed, argv_tail) if seed is not None else []) + opts + argv_tail))
                ctx.count("process_groups_compared")
                ctx.count("tool_" + tool)
                if seed == 0:
                    ctx.count("seed_zero_cases")
                if seed is not None and seed < 0:
                    ctx.count("negative_seed_cases")
                if seed is not None and seed > 2 ** 32:
                    ctx.count("big_seed_cases")
                if verbose:
                    ctx.count("verbose_header_cases")
                base = variants[0]
                rcs = {v[2].rc for v in variants}
                if len(rcs) > 1:
                    ctx.violation("%s:exit-status-differs-between-processes" % tool, "%s: exit statuses %r" % (label, sorted(rcs, key=str)))
                for v in variants[1:]:
                    if v[2].out != base[2].out:
                        a, b = base[2].out.splitlines(), v[2].out.splitlines()
                        j = next((j for j, (x, y) in enumerate(zip(a, b)) if x != y), min(len(a), len(b)))
                        la, lb = (a[j] if j < len(a) else "<end>"), (b[j] if j < len(b) else "<end>")
                        kind = "header" if la.startswith(("c", "*", "%")) else "formula"
                        which = ("working-directory" if ("generator" in la or "generator" in lb) else
                                 "seed-0-ignored" if seed == 0 and kind == "formula" else
                                 "random-graph-argument" if kind == "formula" else "header")
                        ctx.violation("%s:stdout-differs-between-processes:%s:%s" % (tool, kind, which),
                                      "%s: PYTHONHASHSEED=%s cwd=%s and PYTHONHASHSEED=%s cwd=%s differ at line %d: %r vs %r"
                                      % (label, base[0], base[1] if base[1] != scratch else "<tmp>", v[0],
                                         v[1] if v[1] != scratch else "<tmp>", j + 1, la[:120], lb[:120]))
                        break
                if base[3] is not None:
                    ctx.count("saved_files_compared")
                    if any(v[3] != base[3] for v in variants[1:]):
                        ctx.violation("%s:saved-graph-differs-between-processes" % tool, "%s: the saved graph files differ" % label)
                m = ADDR.search(base[2].out)
                if m:
                    ctx.violation("%s:object-address-in-output" % tool, "%s prints %r" % (label, base[2].out[max(0, m.start() - 60):m.end() + 10]))
                refused = base[2].rc not in (0, None)
                ctx.judged((tool, tuple(argv_tail), seed, verbose), nontrivial=not refused,
                           sample={"command": label, "stdout_sha1": digest(base[2].out), "processes": len(variants), "rc": base[2].rc})
    finally:
        shutil.rmtree(scratch, ignore_errors=True)


# ------------------------------------------------------------------ RNG tap (in-process)
class Trace:
    def __init__(self):
        self.events = []


def install_tap(trace):
    """Swap the class of the global generator for a tracing subclass and rebind the module functions."""
    import sys

    class TracingRandom(random.Random):
        def random(self):
            trace.events.append(("draw", _site()))
            return super().random()

        def getrandbits(self, k):
            trace.events.append(("draw", _site()))
            return super().getrandbits(k)

        def seed(self, a=None, version=2):
            trace.events.append(("seed", a))
            return super().seed(a, version)

    def _site():
        f = sys._getframe(2)
        while f is not None:
            fn = f.f_code.co_filename
            if "/cnfgen/" in fn or "networkx" in fn:
                return "%s:%s" % (os.path.basename(fn), f.f_code.co_name)
            f = f.f_back
        return "?"
    inst = random._inst
    old_class = inst.__class__
    inst.__class__ = TracingRandom
    names = ("seed", "random", "uniform", "triangular", "randint", "choice", "randrange", "sample", "shuffle", "choices",
             "normalvariate", "lognormvariate", "expovariate", "vonmisesvariate", "gammavariate", "gauss", "betavariate",
             "paretovariate", "weibullvariate", "getstate", "setstate", "getrandbits", "randbytes")
    saved = {n: getattr(random, n) for n in names if hasattr(random, n)}
    for n in saved:
        setattr(random, n, getattr(inst, n))

    def undo():
        inst.__class__ = old_class
        for n, f in saved.items():
            setattr(random, n, f)
    return undo


def case_inprocess(ctx, lo, hi, seeds):
    """same argv + seed twice in one process; RNG event trace against the trace specification"""
    items = corpus()[lo:hi]
    scratch = tempfile.mkdtemp(prefix="c07i-")
    try:
        _inprocess(ctx, items, seeds, scratch)
    finally:
        shutil.rmtree(scratch, ignore_errors=True)


def _inprocess(ctx, items, seeds, scratch):
    for (tool, tail, stdin_text) in items:
        tail = materialise(tail, scratch)
        for seed in seeds:
            argv = seed_args(tool, seed, list(tail)) + ["-q"] + list(tail)
            label = "%s %s" % (tool, " ".join(argv))
            random.seed(987654321)                 # a different ambient state before each run
            a = run_main(tool, argv, stdin_text=stdin_text)
            random.seed(123)
            trace = Trace()
            undo = install_tap(trace)
            try:
                b = run_main(tool, argv, stdin_text=stdin_text)
            finally:
                undo()
            ctx.count("inprocess_double_runs")
            ctx.count("trace_runs")
            if a.exc is not None or b.exc is not None:
                ctx.count("escaping_exception(C18)")
                continue
            if (a.rc, a.out) != (b.rc, b.out):
                ctx.violation("%s:output-depends-on-ambient-rng-state" % tool,
                              "%s: two runs in one process (different RNG state before the call) differ" % label)
            ev = trace.events
            seeds_seen = [e for e in ev if e[0] == "seed"]
            draws = [e for e in ev if e[0] == "draw"]
            ctx.count("trace_seed_events", len(seeds_seen))
            ctx.count("trace_draw_events", len(draws))
            if b.rc in (0, None):
                if draws and not seeds_seen:
                    ctx.violation("%s:trace:draws-without-seeding" % tool, "%s: %d draws (first at %s) and the generator was never seeded"
                                  % (label, len(draws), draws[0][1]))
                elif draws and seeds_seen:
                    first_seed = next(i for i, e in enumerate(ev) if e[0] == "seed")
                    early = [e for e in ev[:first_seed] if e[0] == "draw"]
                    if early:
                        ctx.violation("%s:trace:draw-before-seed" % tool, "%s: %d draw(s) precede the first seed(), first at %s"
                                      % (label, len(early), early[0][1]))
                    if str(seeds_seen[0][1]) != str(seed):
                        ctx.violation("%s:trace:seeded-with-another-value" % tool, "%s: first seed() call got %r" % (label, seeds_seen[0][1]))
            ctx.judged(("inprocess", tool, tuple(tail), seed), nontrivial=b.rc in (0, None),
                       sample={"command": label, "seed_events": len(seeds_seen), "draw_events": len(draws),
                               "first_draw_site": draws[0][1] if draws else None})


def case_library(ctx, rseed):
    """library generators called twice with the same seed argument"""
    import cnfgen as g
    import cnfgen.graphs as cg
    r = ctx.rng("c07lib", rseed)

    def meddle():
        # between two calls another caller of the documented helper functions edits, in place, whatever lists they hand out
        import cnfgen.families.randomformulas as rf
        import cnfgen.families.randomkxor as rx
        st = random.getstate()
        try:
            for (k, n) in ((2, 4), (2, 5), (3, 5), (3, 6), (3, 8)):
                for helper, args in ((getattr(rf, "all_clauses", None), (k, n, [])), (getattr(rf, "sample_clauses", None), (k, n, 3, [])),
                                     (getattr(rx, "all_good_parities", None), (k, n, [])), (getattr(rx, "sample_parities", None), (k, n, 2, []))):
                    if helper is None:
                        continue
                    try:
                        for item in list(helper(*args))[:2000]:
                            if isinstance(item, list):
                                item.append(99)
                                item.reverse()
                            elif isinstance(item, tuple) and item and isinstance(item[0], list):
                                item[0].append(99)
                        ctx.count("helper_results_edited_by_another_caller")
                    except Exception:       # noqa: BLE001 - the helpers' signatures are not part of any statement
                        pass
        finally:
            random.setstate(st)

    def twice(label, fn, state):
        s = r.choice(SEEDS + [r.randint(0, 10 ** 9), "a string seed"])
        random.seed(r.random())
        st1, A = ctx.call(fn, s)
        meddle()
        random.seed(r.random())
        st2, B = ctx.call(fn, s)
        ctx.count("library_double_calls")
        if st1 == "exc" or st2 == "exc":
            if (st1, type(A)) != (st2, type(B)):
                ctx.violation("library:%s:differs" % label, "%s(seed=%r): %r vs %r" % (label, s, A, B))
            return
        if state(A) != state(B):
            ctx.violation("library:%s:same-seed-different-result" % label, "%s(seed=%r) returned two different results" % (label, s))
        ctx.judged(("lib", label, repr(s)), nontrivial=True, sample={"call": "%s(seed=%r)" % (label, s)})
    fstate = lambda F: (F.number_of_variables(), [list(c) for c in F])
    bstate = lambda B: (B.left_order(), B.right_order(), list(B.edges()))
    for _ in range(6):
        twice("RandomKCNF", lambda s: g.RandomKCNF(3, 8, 12, seed=s), fstate)
        twice("RandomKCNF[planted]", lambda s: g.RandomKCNF(3, 6, 5, seed=s, planted_assignments=[[1, -2, 3, 4, -5, 6]]), fstate)
        twice("RandomKXOR", lambda s: g.RandomKXOR(3, 8, 6, seed=s), fstate)
        # the dense sampler: requests at the exact maximum, and requests driven there by the bounded adversary
        twice("RandomKCNF[max]", lambda s: g.RandomKCNF(2, 4, 24, seed=s), fstate)
        twice("RandomKCNF[max,3,5]", lambda s: g.RandomKCNF(3, 5, 80, seed=s), fstate)
        twice("RandomKXOR[max]", lambda s: g.RandomKXOR(2, 5, 20, seed=s), fstate)

        def dense(fn, k, n, m):
            def run(s):
                from ..hostile import adversary
                # unlucky for exactly as long as the sparse loop lasts (10*m rounds of 1 sample + k choices),
                # fair (seeded with s) from the dense fall-back on
                with adversary("repeat", 10 * m * (k + 1), s):
                    return fn(k, n, m)
            return run
        twice("RandomKCNF[dense via adversary]", dense(g.RandomKCNF, 2, 5, 12), fstate)
        twice("RandomKXOR[dense via adversary]", dense(g.RandomKXOR, 2, 5, 8), fstate)
        twice("bipartite_random_left_regular", lambda s: cg.bipartite_random_left_regular(5, 6, 3, seed=s), bstate)
        twice("bipartite_random_regular", lambda s: cg.bipartite_random_regular(6, 4, 2, seed=s), bstate)
        twice("bipartite_random_m_edges", lambda s: cg.bipartite_random_m_edges(4, 4, 9, seed=s), bstate)
        twice("bipartite_random_m_edges[sparse]", lambda s: cg.bipartite_random_m_edges(5, 5, 3, seed=s), bstate)
        twice("bipartite_random", lambda s: cg.bipartite_random(4, 5, .5, seed=s), bstate)

        def addm(s):
            G = cg.Graph(6)
            G.add_edge(1, 2)
            cg.add_random_missing_edges(G, 5, seed=s)
            return G

        def split(s):
            G = cg.Graph.complete_graph(4)
            cg.split_random_edges(G, 3, seed=s)
            return G
        gstate = lambda G: (G.number_of_vertices(), list(G.edges()))
        twice("add_random_missing_edges", addm, gstate)
        twice("split_random_edges", split, gstate)


LIB_SCRIPT = r"""
import sys, json, hashlib
sys.path.insert(0, %r)
import cnfgen as g
import cnfgen.graphs as cg
def F(x): return [x.number_of_variables(), [list(c) for c in x]]
def B(x): return [x.left_order(), x.right_order(), [list(e) for e in x.edges()]]
def G(x): return [x.number_of_vertices(), sorted(sorted(e) for e in x.edges())]
def addm(s):
    H = cg.Graph(6); H.add_edge(1, 2); cg.add_random_missing_edges(H, 5, seed=s); return H
def split(s):
    H = cg.Graph.complete_graph(4); cg.split_random_edges(H, 3, seed=s); return H
CALLS = {
 "RandomKCNF": lambda s: F(g.RandomKCNF(3, 8, 12, seed=s)),
 "RandomKXOR": lambda s: F(g.RandomKXOR(3, 8, 6, seed=s)),
 "bipartite_random_left_regular": lambda s: B(cg.bipartite_random_left_regular(9, 11, 3, seed=s)),
 "bipartite_random_regular": lambda s: B(cg.bipartite_random_regular(6, 4, 2, seed=s)),
 "bipartite_random_m_edges": lambda s: B(cg.bipartite_random_m_edges(5, 5, 7, seed=s)),
 "bipartite_random": lambda s: B(cg.bipartite_random(5, 6, .5, seed=s)),
 "add_random_missing_edges": lambda s: G(addm(s)),
 "split_random_edges": lambda s: G(split(s)),
}
SEEDS = [7, -3, 2 ** 70, 1.5, "cnfgen", "", "a longer seed with spaces", b"bytes", bytearray(b"ba"), True]
out = {}
for name, fn in sorted(CALLS.items()):
    for s in SEEDS:
        try:
            v = fn(s)
        except Exception as e:
            v = "raised " + type(e).__name__
        out[name + " seed=" + repr(s)] = hashlib.sha256(json.dumps(v).encode()).hexdigest()[:16]
print(json.dumps(out))
"""


def case_library_processes(ctx, hashseeds):
    """The library's generators called with the same seed argument (numbers, text, bytes) in several processes that
    differ in their string-hash salt: the seed argument alone must determine the result."""
    import json
    import subprocess
    import sys
    from ..cliharness import REPO
    runs = []
    for hs in hashseeds:
        e = dict(os.environ)
        e.pop("PYTHONPATH", None)
        e["PYTHONHASHSEED"] = hs
        e["PYTHONPYCACHEPREFIX"] = os.path.join(tempfile.gettempdir(), "vmon-pycache-%d" % os.getuid())
        p = subprocess.run([sys.executable, "-W", "ignore", "-c", LIB_SCRIPT % REPO], capture_output=True, env=e, timeout=300)
        ctx.count("processes_spawned")
        if p.returncode != 0:
            raise RuntimeError("library script failed: " + p.stderr.decode("utf-8", "replace")[-400:])
        runs.append((hs, json.loads(p.stdout.decode())))
    base_hs, base = runs[0]
    for hs, out in runs[1:]:
        for key in sorted(base):
            ctx.count("library_calls_compared_across_processes")
            if out.get(key) != base[key]:
                fn = key.split(" seed=")[0]
                kind = "text" if ("'" in key.split(" seed=")[1] or '"' in key.split(" seed=")[1]) else "number"
                ctx.violation("library-across-processes:%s:%s-seed" % (fn, kind),
                              "%s gave different results in two processes (PYTHONHASHSEED=%s and %s)" % (key, base_hs, hs))
    for key in sorted(base):
        ctx.judged(("lib-proc", key), nontrivial=True, sample={"call": key, "hash seeds": list(hashseeds)})


def workload(tier, seed):
    n = len(corpus())
    q = tier == "quick"
    # fresh processes: a slice of the corpus per seed value (all of it in thorough)
    step = 4
    c = corpus()
    heavy = lambda lo: not any("@" in t for it in c[lo:lo + step] for t in it[1])      # many-process groups first
    for lo in sorted(range(0, n, step), key=heavy):
        if q and (lo // step + seed) % 4 != 0 and lo + step < n and not any("@" in t or t == "splitedges" for it in corpus()[lo:lo + step] for t in it[1]):
            continue              # quick: a quarter of the corpus in fresh processes (rotates with VERIF_SEED), all of it in-process
        if q:
            seeds = [SEEDS[(lo // step + seed) % len(SEEDS)]]
            if (lo // step) % 3 == 0:
                seeds.append(0)
        else:
            seeds = SEEDS
        yield "processes", {"lo": lo, "hi": lo + step, "seeds": seeds, "verbose_every": 2}
    for lo in range(0, n, 10):
        yield "inprocess", {"lo": lo, "hi": lo + 10, "seeds": [0, 7] if q else SEEDS + [7]}
    for i in range(2 if q else 12):
        yield "library", {"rseed": seed * 100 + i}
    yield "library_processes", {"hashseeds": ["0", "1", "random"] if q else ["0", "1", "12345", "random", "random"]}

"""C13 -- random k-CNF / k-XOR have exactly the promised shape.

Every call is judged against a reference enumeration of the compatible clauses
(parities): shape of the result, planted assignments, model set = solutions of
the decoded linear system, and "ValueError exactly when infeasible".  The
bounded adversary (vmon.hostile) forces the sparse sampler to exhaust its budget
so that the dense path runs for small m as well.
"""
import itertools

from .. import tt
from ..hostile import adversary

PYTHON_O_STRIDE = {"quick": 4, "thorough": 2}      # every n-th case is repeated in an interpreter started with -O
RULE = ("(family, k, n, m, planted set, randomness) with k in 0..4, n in 0..6, m from 0 to max+2 "
        "(every m in thorough, boundary and spread values in quick), 0..3 planted total assignments, "
        "seeded fair runs and adversarial runs (low/repeat/high) that exhaust the sparse sampler; "
        "distinct = the tuple; trivial = m == 0.")
ASSUMPTIONS = ["parities are decoded from the clause list (clauses grouped by variable set, whole "
               "sign-parity classes); k = 0 parities carry no variables and are judged by clause count only",
               "adversarial answers are legal values of the random functions (positive probability outcomes)"]
REQUIRED = ["kcnf_ok", "kxor_ok", "refusals_expected", "dense_branch_kcnf", "dense_branch_kxor",
            "adversary_engaged", "cli_runs", "at_exact_maximum", "big_at_exact_maximum", "big_planted"]
CASE_TIMEOUT = {"quick": 120, "thorough": 2400}


def planted_sets(n, r, howmany):
    out = []
    for _ in range(howmany):
        a = [v if r.random() < 0.5 else -v for v in range(1, n + 1)]
        if r.random() < 0.5:
            r.shuffle(a)                # an assignment is a set of literals: the order they come in means nothing
        out.append(a)
    return out


def sat(cl, asg):
    s = set(asg)
    return any(l in s for l in cl)


def all_compatible_clauses(k, n, planted):
    out = []
    for dom in itertools.combinations(range(1, n + 1), k):
        for pol in itertools.product((1, -1), repeat=k):
            cl = [p * v for p, v in zip(pol, dom)]
            if all(sat(cl, a) for a in planted):
                out.append(cl)
    return out


def parity_ok(X, b, asg):
    s = set(asg)
    return sum(1 for x in X if x in s) % 2 == b


def all_compatible_parities(k, n, planted):
    out = []
    for X in itertools.combinations(range(1, n + 1), k):
        for b in (0, 1):
            if all(parity_ok(X, b, a) for a in planted):
                out.append((X, b))
    return out


class BranchTap:
    """Observes whether the dense fall-back ran (reach of an anchored branch)."""

    def __init__(self, module, name):
        self.module, self.name, self.hits = module, name, 0

    def __enter__(self):
        self.orig = getattr(self.module, self.name)

        def tapped(*a, **kw):
            self.hits += 1
            return self.orig(*a, **kw)
        setattr(self.module, self.name, tapped)
        return self

    def __exit__(self, *exc):
        setattr(self.module, self.name, self.orig)


def check_kcnf(ctx, F, k, n, m, planted, label):
    mech = "randkcnf:"
    if F.number_of_variables() != n:
        ctx.violation(mech + "numvar", "%s: %d variables, expected %d" % (label, F.number_of_variables(), n))
    cls = [list(c) for c in F]
    if len(cls) != m:
        ctx.violation(mech + "clause-count", "%s: %d clauses, expected %d" % (label, len(cls), m))
    seen = set()
    for c in cls:
        vs = [abs(l) for l in c]
        if len(c) != k or len(set(vs)) != k or not all(isinstance(l, int) and 1 <= abs(l) <= n for l in c):
            ctx.violation(mech + "clause-shape", "%s: clause %r is not on %d distinct variables of 1..%d" % (label, c, k, n))
        fs = frozenset(c)
        if fs in seen:
            ctx.violation(mech + "duplicate-clause", "%s: clause %r appears twice" % (label, c))
        seen.add(fs)
        for a in planted:
            if not sat(c, a):
                ctx.violation(mech + "planted-falsified", "%s: clause %r falsified by planted %r" % (label, c, a))


def check_kxor(ctx, F, k, n, m, planted, label):
    mech = "randkxor:"
    if F.number_of_variables() != n:
        ctx.violation(mech + "numvar", "%s: %d variables, expected %d" % (label, F.number_of_variables(), n))
        return
    cls = [list(c) for c in F]
    if k == 0:
        # parities without variables: 0=0 contributes nothing, 0=1 the empty clause
        lo = 0
        hi = min(m, 1)
        need = 1 if m >= 2 else lo
        if any(len(c) for c in cls) or not (need <= len(cls) <= hi) or (planted and cls):
            ctx.violation(mech + "k0-shape", "%s: clauses %r" % (label, cls))
        return
    groups = {}
    for c in cls:
        vs = tuple(sorted(abs(l) for l in c))
        if len(c) != k or len(set(vs)) != k or not all(isinstance(l, int) and 1 <= abs(l) <= n for l in c):
            ctx.violation(mech + "clause-shape", "%s: clause %r is not on %d distinct variables" % (label, c, k))
            return
        groups.setdefault(vs, []).append(frozenset(c))
    parities = []
    for vs, members in groups.items():
        classes = {0: set(), 1: set()}
        for fs in members:
            neg = sum(1 for l in fs if l < 0)
            # a clause with `neg` negated literals excludes the assignment with exactly those
            # variables true, whose parity is neg mod 2: it belongs to the constraint sum = 1 - neg%2
            classes[(1 - neg) % 2].add(fs)
        if sum(len(c) for c in classes.values()) != len(members):
            ctx.violation(mech + "duplicate-parity", "%s: repeated clause on variables %r" % (label, vs))
        for b, cset in classes.items():
            if not cset:
                continue
            if len(cset) != 2 ** (k - 1):
                ctx.violation(mech + "partial-parity", "%s: variables %r carry %d of the %d clauses of a parity"
                              % (label, vs, len(cset), 2 ** (k - 1)))
            parities.append((vs, b))
    if len(parities) != m:
        ctx.violation(mech + "parity-count", "%s: %d distinct parity constraints, expected %d" % (label, len(parities), m))
    for (X, b) in parities:
        for a in planted:
            if not parity_ok(X, b, a):
                ctx.violation(mech + "planted-falsified", "%s: parity %r=%d falsified by planted %r" % (label, X, b, a))
    # model set = solutions of the linear system
    exp = 0
    for a in range(1 << n):
        if all(sum((a >> (x - 1)) & 1 for x in X) % 2 == b for X, b in parities):
            exp |= 1 << a
    got = tt.models_cnf(n, cls)
    if got != exp:
        ctx.violation(mech + "models", "%s: model set is not the solution set of the decoded system" % label,
                      difference=tt.first_difference(n, got, exp))
    for a in planted:
        idx = tt.index_of([l for l in a if l > 0])
        if not (got >> idx) & 1:
            ctx.violation(mech + "planted-not-a-model", "%s: planted %r does not satisfy the formula" % (label, a))


def m_values(mx, tier):
    if tier == "thorough" or mx <= 12:
        return list(range(0, mx + 3))
    pts = {0, 1, 2, 3, mx // 4, mx // 3, mx // 2, (2 * mx) // 3, mx - 2, mx - 1, mx, mx + 1, mx + 2}
    return sorted(p for p in pts if p >= 0)


def case_lib(ctx, family, k, n, nplanted, rseed, reps):
    tt.selfcheck()
    import cnfgen.families.randomformulas as rf
    import cnfgen.families.randomkxor as rx
    r = ctx.rng("c13", family, k, n, nplanted, rseed)
    planted = planted_sets(n, r, nplanted)
    if family == "kcnf":
        gen, mod, dense_name = rf.RandomKCNF, rf, "all_clauses"
        mx = len(all_compatible_clauses(k, n, planted)) if k <= n else 0
    else:
        gen, mod, dense_name = rx.RandomKXOR, rx, "all_good_parities"
        mx = len(all_compatible_parities(k, n, planted)) if k <= n else 0
    for m in m_values(mx, ctx.tier):
        feasible = k <= n and m <= mx
        for rep in range(reps):
            mode = ("fair", "low", "repeat", "high")[rep % 4] if rep else "fair"
            seed = r.randint(-5, 10 ** 6)
            label = "%s(k=%d,n=%d,m=%d,planted=%r,seed=%d,%s)" % (gen.__name__, k, n, m, planted, seed, mode)
            pl_arg = [list(a) for a in planted]
            container = ("list", "tuple", "set", "dict-keys", "frozenset")[(rep + m + nplanted) % 5] if planted else "list"
            if container == "tuple":
                pl_arg = tuple(tuple(a) for a in planted)
            elif container == "set":
                pl_arg = {tuple(a) for a in planted}            # the documentation calls it "a set of assignments"
            elif container == "dict-keys":
                pl_arg = {tuple(a): None for a in planted}.keys()
            elif container == "frozenset":
                pl_arg = frozenset(frozenset(a) for a in planted)
            ctx.count("planted_given_as_" + container)
            canon = lambda P: (type(P).__name__, len(P), sorted(tuple(sorted(a, key=abs)) for a in P),
                               [list(a) for a in P] if isinstance(P, (list, tuple)) else None)
            pl_before = canon(pl_arg)
            with BranchTap(mod, dense_name) as tap:
                if mode == "fair":
                    st, F = ctx.call(gen, k, n, m, seed=seed, planted_assignments=pl_arg)
                else:
                    with adversary(mode, 10 * m * (k + 2) + 50, seed) as adv:
                        st, F = ctx.call(gen, k, n, m, planted_assignments=pl_arg)
                    if adv.engaged:
                        ctx.count("adversary_engaged")
            if tap.hits:
                ctx.count("dense_branch_" + family)
            if canon(pl_arg) != pl_before:
                ctx.violation("rand%s:mutates-planted" % family, "%s changed its planted assignments" % label)
            if st == "exc":
                if isinstance(F, ValueError) and not feasible:
                    ctx.count("refusals_expected")
                elif isinstance(F, ValueError):
                    ctx.violation("rand%s:refuses-feasible" % family,
                                  "%s raised %r although %d <= %d are available" % (label, F, m, mx))
                else:
                    ctx.violation("rand%s:raises:%s" % (family, type(F).__name__), "%s raised %r" % (label, F))
            elif not feasible:
                ctx.violation("rand%s:accepts-infeasible" % family,
                              "%s returned a formula with %d clauses; only %d compatible exist (k<=n: %s)"
                              % (label, len(F), mx, k <= n))
            else:
                (check_kcnf if family == "kcnf" else check_kxor)(ctx, F, k, n, m, planted, label)
                ctx.count(family + "_ok")
                if m == mx:
                    ctx.count("at_exact_maximum")
            ctx.judged((family, k, n, m, tuple(map(tuple, planted)), seed, mode), nontrivial=m > 0,
                       sample={"call": label, "max_compatible": mx, "outcome": "formula" if st == "ok" else repr(F)})


def case_cli(ctx, family, k, n, m, plant, seed):
    """cnfgen randkcnf|randkxor [-p] k n m  through the real command line."""
    from ..cliharness import cli_formula
    argv = ["cnfgen", "--seed", str(seed), "rand" + family] + (["-p"] if plant else []) + [str(k), str(n), str(m)]
    label = " ".join(argv)
    ctx.count("cli_runs")
    try:
        F = cli_formula("cnfgen", argv)
    except SystemExit:
        F = None
    except Exception as e:     # CLIError etc.
        if type(e).__name__ != "CLIError":
            ctx.violation("rand%s:cli-raises:%s" % (family, type(e).__name__), "%s raised %r" % (label, e))
            return
        F = None
    # without planted assignment the maximum is C(n,k)*2^k (2 per set for parities);
    # with a random planted total assignment it is C(n,k)*(2^k-1) (1 per set)
    import math
    per = (2 ** k, 2) if family == "kcnf" else (2, 2)
    per_set = (2 ** k - 1 if family == "kcnf" else 1) if plant else (2 ** k if family == "kcnf" else 2)
    mx = math.comb(n, k) * per_set if k <= n else 0
    feasible = k <= n and m <= mx
    if F is None:
        if feasible:
            ctx.violation("rand%s:cli-refuses-feasible" % family, "%s was refused; %d <= %d" % (label, m, mx))
        else:
            ctx.count("refusals_expected")
    elif not feasible:
        ctx.violation("rand%s:accepts-infeasible" % family, "%s built a formula, max is %d" % (label, mx))
    else:
        # the planted assignment is random: judge the shape, and that some model exists when planted
        (check_kcnf if family == "kcnf" else check_kxor)(ctx, F, k, n, m, [], label)
        if plant and n <= 16 and not tt.models_cnf(n, [list(c) for c in F]):
            ctx.violation("rand%s:cli-plant-unsat" % family, "%s is unsatisfiable although a model was planted" % label)
    ctx.judged(("cli", family, k, n, m, plant, seed), nontrivial=m > 0, sample={"argv": argv})


def case_max(ctx, family, k, n, rseed, slim=False):
    """The exact maximum with zero and with one planted (total) assignment, for every k at a given n:
    C(n,k)*2^k resp. C(n,k)*(2^k-1) clauses, 2*C(n,k) resp. C(n,k) parities.  m = max accepted, max+1 refused."""
    import math
    import cnfgen.families.randomformulas as rf
    import cnfgen.families.randomkxor as rx
    r = ctx.rng("c13max", family, k, n, rseed)
    gen = rf.RandomKCNF if family == "kcnf" else rx.RandomKXOR
    for nplanted in (0, 1) if not slim else (0,):
        planted = planted_sets(n, r, nplanted)
        if family == "kcnf":
            mx = math.comb(n, k) * (2 ** k - nplanted)
        else:
            mx = math.comb(n, k) * (2 - nplanted)
        for m, feasible in ((mx, True), (mx + 1, False)) if not slim else ((mx, True),):
            seed = r.randint(0, 10 ** 6)
            label = "%s(k=%d,n=%d,m=%d,planted=%r,seed=%d) [maximum %d]" % (gen.__name__, k, n, m, planted, seed, mx)
            st, F = ctx.call(gen, k, n, m, seed=seed, planted_assignments=[list(a) for a in planted])
            if st == "exc":
                if isinstance(F, ValueError) and not feasible:
                    ctx.count("refusals_expected")
                elif isinstance(F, ValueError):
                    ctx.violation("rand%s:refuses-feasible" % family, "%s raised %r" % (label, F))
                else:
                    ctx.violation("rand%s:raises:%s" % (family, type(F).__name__), "%s raised %r" % (label, F))
            elif not feasible:
                ctx.violation("rand%s:accepts-infeasible" % family, "%s returned %d clauses" % (label, len(F)))
            else:
                ctx.count("exact_maximum_planted%d" % nplanted)
                if family == "kcnf":
                    check_kcnf(ctx, F, k, n, m, planted, label)
                else:
                    if len(F) != m * 2 ** (k - 1) or F.number_of_variables() != n:
                        ctx.violation("randkxor:shape", "%s: %d clauses / %d variables" % (label, len(F), F.number_of_variables()))
                    sets = [set(a) for a in planted]
                    if any(not any(l in a for l in c) for a in sets for c in F):
                        ctx.violation("randkxor:planted-falsified", "%s: a clause is falsified by the planted assignment" % label)
            ctx.judged(("max", family, k, n, m, nplanted), nontrivial=True, sample={"call": label})


def case_size_sweep(ctx, sizes, rseed):
    """Every n in a range with a few k and about n clauses, with and without a planted assignment (a fast path of the
    samplers may begin at any unremarkable size)."""
    import cnfgen.families.randomformulas as rf
    import cnfgen.families.randomkxor as rx
    r = ctx.rng("c13sweep", rseed, tuple(sizes[:2]))
    for n in sizes:
        for k in sorted({min(n, 2), min(n, 3), min(n, 1 + n % 5)}):
            if k < 1:
                continue
            import math
            m = min(n + n % 7, math.comb(n, k))
            planted = planted_sets(n, r, n % 2)
            seed = r.randint(0, 10 ** 6)
            label = "RandomKCNF(k=%d,n=%d,m=%d,planted x%d,seed=%d)" % (k, n, m, len(planted), seed)
            st, F = ctx.call(rf.RandomKCNF, k, n, m, seed=seed, planted_assignments=[list(a) for a in planted])
            ctx.count("size_sweep_calls")
            if st == "exc":
                ctx.violation("randkcnf:%s" % ("refuses-feasible" if isinstance(F, ValueError) else "raises:" + type(F).__name__), "%s raised %r" % (label, F))
            else:
                check_kcnf(ctx, F, k, n, m, planted, label)
            ctx.judged(("sweep", "kcnf", k, n, m, len(planted)), nontrivial=m > 0, sample={"call": label})
            if k <= 4:
                label = "RandomKXOR(k=%d,n=%d,m=%d,planted x%d,seed=%d)" % (k, n, m, len(planted), seed)
                st, F = ctx.call(rx.RandomKXOR, k, n, m, seed=seed, planted_assignments=[list(a) for a in planted])
                ctx.count("size_sweep_calls")
                if st == "exc":
                    ctx.violation("randkxor:%s" % ("refuses-feasible" if isinstance(F, ValueError) else "raises:" + type(F).__name__), "%s raised %r" % (label, F))
                else:
                    sets = [set(a) for a in planted]
                    if len(F) != m * 2 ** (k - 1) or F.number_of_variables() != n:
                        ctx.violation("randkxor:shape", "%s: %d clauses / %d variables" % (label, len(F), F.number_of_variables()))
                    elif any(not any(l in a for l in c) for a in sets for c in F):
                        ctx.violation("randkxor:planted-falsified", "%s: a clause is falsified by the planted assignment" % label)
                ctx.judged(("sweep", "kxor", k, n, m, len(planted)), nontrivial=m > 0, sample={"call": label})


def case_dense_big_universe(ctx, rseed):
    """Parities compatible with five planted assignments are 1 in 32: the sparse sampler gives up and the dense one
    enumerates a universe of more than 10^7 parities.  The request is small and feasible."""
    import cnfgen.families.randomkxor as rx
    r = ctx.rng("c13dense", rseed)
    for (k, n, m, npl) in ((3, 312, 20, 5),):
        planted = planted_sets(n, r, npl)
        seed = r.randint(0, 10 ** 6)
        label = "RandomKXOR(k=%d,n=%d,m=%d,planted x%d,seed=%d)" % (k, n, m, npl, seed)
        with BranchTap(rx, "all_good_parities") as tap:
            st, F = ctx.call(rx.RandomKXOR, k, n, m, seed=seed, planted_assignments=[list(a) for a in planted])
        if tap.hits:
            ctx.count("dense_branch_kxor")
            ctx.count("dense_branch_beyond_10^7")
        if st == "exc":
            ctx.violation("randkxor:%s" % ("refuses-feasible" if isinstance(F, ValueError) else "raises:" + type(F).__name__), "%s raised %r" % (label, F))
        else:
            sets = [set(a) for a in planted]
            if len(F) != m * 2 ** (k - 1) or F.number_of_variables() != n:
                ctx.violation("randkxor:shape", "%s: %d clauses / %d variables" % (label, len(F), F.number_of_variables()))
            elif any(not any(l in a for l in c) for a in sets for c in F):
                ctx.violation("randkxor:planted-falsified", "%s: a clause is falsified by a planted assignment" % label)
        ctx.judged(("dense-big", k, n, m, npl), nontrivial=True, sample={"call": label, "dense": bool(tap.hits)})


def case_astronomical(ctx, rseed):
    """Requests for a handful of clauses / parities out of a universe far beyond any machine number (C(n,k)*2^k above
    1e308, n up to 2^62): they are satisfiable requests like any other."""
    import cnfgen.families.randomformulas as rf
    import cnfgen.families.randomkxor as rx
    r = ctx.rng("c13astro", rseed)
    for (k, n, m) in ((1024, 1024, 1), (1024, 1024, 3), (1100, 1100, 2), (600, 1200, 5), (200, 5000, 10), (120, 10 ** 4, 4), (18, 2 ** 62, 3),
                      (3, 2 ** 40, 5), (40, 2 ** 30, 6), (1, 2 ** 62, 2), (2000, 4000, 1)):
        seed = r.randint(0, 10 ** 6)
        label = "RandomKCNF(k=%d,n=%d,m=%d,seed=%d)" % (k, n, m, seed)
        st, F = ctx.call(rf.RandomKCNF, k, n, m, seed=seed)
        ctx.count("astronomical_universes")
        if st == "exc":
            ctx.violation("randkcnf:%s" % ("refuses-feasible" if isinstance(F, ValueError) else "raises:" + type(F).__name__), "%s raised %r" % (label, F))
        else:
            check_kcnf(ctx, F, k, n, m, [], label)
        ctx.judged(("astro", "kcnf", k, n, m), nontrivial=True, sample={"call": label})
    for (k, n, m) in ((3, 2 ** 40, 5), (2, 2 ** 62, 3), (3, 10 ** 6, 7), (1, 2 ** 61, 2), (4, 2 ** 33, 3),
                      # wide parities over universes beyond the largest float (k >= 18 with n around 2^60), few of them
                      (18, 2 ** 61, 1), (18, 2 ** 60 + 3, 0), (20, 2 ** 62, 1), (11, 2 ** 62, 2), (12, 2 ** 61 + 1, 1)):
        seed = r.randint(0, 10 ** 6)
        label = "RandomKXOR(k=%d,n=%d,m=%d,seed=%d)" % (k, n, m, seed)
        st, F = ctx.call(rx.RandomKXOR, k, n, m, seed=seed)
        ctx.count("astronomical_universes")
        if st == "exc":
            ctx.violation("randkxor:%s" % ("refuses-feasible" if isinstance(F, ValueError) else "raises:" + type(F).__name__), "%s raised %r" % (label, F))
        elif len(F) != m * 2 ** (k - 1) or F.number_of_variables() != n or any(len({abs(l) for l in c}) != k for c in F):
            ctx.violation("randkxor:shape", "%s: %d clauses / %d variables" % (label, len(F), F.number_of_variables()))
        ctx.judged(("astro", "kxor", k, n, m), nontrivial=True, sample={"call": label})


def case_word_boundaries(ctx, family, exps, rseed):
    """(k, n) chosen so that the number of clauses / parities on n variables sits just below, at and inside the
    window above 2^e for the machine-word sizes e (a universe numbered with a C integer, a `range`, a float mantissa):
    requests for a few of them are ordinary feasible requests."""
    import math
    import cnfgen.families.randomformulas as rf
    import cnfgen.families.randomkxor as rx
    r = ctx.rng("c13words", family, tuple(exps), rseed)
    size = (lambda k, n: math.comb(n, k) * 2 ** k) if family == "kcnf" else (lambda k, n: 2 * math.comb(n, k))
    fn = rf.RandomKCNF if family == "kcnf" else rx.RandomKXOR
    for e in exps:
        T = 1 << e
        for k in (1, 2, 3, 4, 10):
            # smallest n whose universe reaches T
            lo, hi = k, max(k + 1, 4)
            while size(k, hi) < T:
                hi *= 2
            while lo < hi:
                mid = (lo + hi) // 2
                if size(k, mid) >= T:
                    hi = mid
                else:
                    lo = mid + 1
            first = lo
            # largest n still inside [T, 2T)
            lo2, hi2 = first, first * 2 + 2
            while size(k, hi2) < 2 * T:
                hi2 *= 2
            while lo2 < hi2:
                mid = (lo2 + hi2) // 2
                if size(k, mid) >= 2 * T:
                    hi2 = mid
                else:
                    lo2 = mid + 1
            last = lo2 - 1
            ns = sorted({first - 1, first, (first + max(first, last)) // 2, max(first, last), last + 1} - {0})
            for n in ns:
                if n < k or n > 2 ** 62:
                    continue
                if k * 3 > 40 and family == "kxor":
                    continue
                m = r.choice((0, 1, 3, 6))
                if family == "kxor" and m * 2 ** (k - 1) > 4000:
                    m = 1
                seed = r.randint(0, 10 ** 6)
                label = "%s(k=%d,n=%d,m=%d,seed=%d) [universe %s 2^%d]" % (
                    "RandomKCNF" if family == "kcnf" else "RandomKXOR", k, n, m, seed,
                    "below" if size(k, n) < T else ("at least 2^%d, beyond" % (e + 1) if size(k, n) >= 2 * T else "within a factor two above"), e)
                st, F = ctx.call(fn, k, n, m, seed=seed)
                ctx.count("universes_at_word_boundaries")
                if st == "exc":
                    ctx.violation("rand%s:%s" % (family, "refuses-feasible" if isinstance(F, ValueError) else "raises:" + type(F).__name__),
                                  "%s raised %r" % (label, F))
                elif family == "kcnf":
                    check_kcnf(ctx, F, k, n, m, [], label)
                elif len(F) != m * 2 ** (k - 1) or F.number_of_variables() != n or any(len({abs(l) for l in c}) != k for c in F):
                    ctx.violation("randkxor:shape", "%s: %d clauses / %d variables" % (label, len(F), F.number_of_variables()))
                ctx.judged(("words", family, k, n, m), nontrivial=True, sample={"call": label})


def case_many_planted(ctx, k, n, m, t, rseed):
    """Many planted assignments on a large universe: almost every sampled clause is falsified by one of them, the
    quick sampling phase gives up, and still thousands of compatible clauses exist -- a feasible request."""
    import cnfgen.families.randomformulas as rf
    r = ctx.rng("c13planted", k, n, m, t, rseed)
    planted = [[v if r.random() < 0.5 else -v for v in range(1, n + 1)] for _ in range(t)]
    seed = r.randint(0, 10 ** 6)
    label = "RandomKCNF(k=%d,n=%d,m=%d,seed=%d, %d random planted assignments)" % (k, n, m, seed, t)
    st, F = ctx.call(rf.RandomKCNF, k, n, m, seed=seed, planted_assignments=[list(p) for p in planted])
    ctx.count("requests_with_many_planted_assignments")
    if st == "exc":
        ctx.violation("randkcnf:%s" % ("refuses-feasible" if isinstance(F, ValueError) else "raises:" + type(F).__name__),
                      "%s raised %r although about %.0f clauses are compatible with all of them"
                      % (label, F, (1 - 2.0 ** -k) ** t * 2 ** k * __import__("math").comb(n, k)))
    else:
        check_kcnf(ctx, F, k, n, m, planted, label)
    ctx.judged(("many-planted", k, n, m, t), nontrivial=True, sample={"call": label})


def workload(tier, seed):
    import math
    if tier != "quick":
        yield "dense_big_universe", {"rseed": seed}      # minutes: the dense sampler walks through 10^7 parities
    # the slow ones first: the fall-back of the sampler walks through the whole universe and tests every clause against
    # every planted assignment (10^7 clauses x 30 assignments: five minutes) -- thorough tier only
    if tier != "quick":
        yield "many_planted", {"k": 3, "n": 200, "m": 40, "t": 30, "rseed": seed}
        yield "many_planted", {"k": 3, "n": 120, "m": 30, "t": 28, "rseed": seed}
    for (k, n, m, t) in ((3, 30, 20, 25), (3, 60, 30, 25), (2, 300, 20, 10), (4, 40, 20, 38)):
        yield "many_planted", {"k": k, "n": n, "m": m, "t": t, "rseed": seed}
    # the exact maximum on universes just above 2^18 clauses (10-30 s each: one request only)
    for (k, n) in ((2, 363),) if tier == "quick" else ((2, 363), (3, 60), (5, 19), (2, 520)):
        yield "max", {"family": "kcnf", "k": k, "n": n, "rseed": seed, "slim": True}
    yield "astronomical", {"rseed": seed}
    for family in ("kcnf", "kxor"):
        for exps in ([31, 32], [53, 63], [64, 65]) if tier == "quick" else ([15, 16], [24, 31], [32, 33], [52, 53], [62, 63], [64, 65], [127, 128]):
            yield "word_boundaries", {"family": family, "exps": exps, "rseed": seed}
    sweep = list(range(1 + seed % 4, 330, 4)) if tier == "quick" else list(range(1, 700))
    for i in range(0, len(sweep), 20):
        yield "size_sweep", {"sizes": sweep[i:i + 20], "rseed": seed}
    for family in ("kcnf", "kxor"):
        # clauses produced at the maximum; the k-CNF ones are inspected one by one, the parities only counted
        limit = {"kcnf": 12000, "kxor": 450000} if tier == "quick" else {"kcnf": 150000, "kxor": 3000000}
        for n in range(7, 19):
            for k in range(1, n + 1):
                if math.comb(n, k) * 2 ** k <= limit[family]:
                    yield "max", {"family": family, "k": k, "n": n, "rseed": seed}
    reps = 5 if tier == "quick" else 40
    for family in ("kcnf", "kxor"):
        for k in range(0, 5):
            for n in range(0, 7):
                if k > n + 1:
                    continue
                for nplanted in range(0, 4):
                    for rs in range(1 if tier == "quick" else 6):
                        yield "lib", {"family": family, "k": k, "n": n, "nplanted": nplanted,
                                      "rseed": seed * 10 + rs, "reps": reps}
        for (k, n) in ((1, 11), (2, 11), (3, 11), (5, 11), (10, 11), (11, 11), (2, 15), (3, 15), (3, 16), (2, 23), (3, 23), (2, 33), (3, 36), (3, 70), (4, 40)):
            yield "big", {"family": family, "k": k, "n": n, "rseed": seed}
        # the command line documents k and n as positive integers
        for k in range(1, 4):
            for n in range(1, 6):
                import math
                top = (math.comb(n, k) * 2 ** k if k <= n else 0) + 2
                for m in sorted({0, 1, top // 2, top - 3, top - 2, top - 1, top}):
                    if m < 0:
                        continue
                    for plant in (False, True):
                        yield "cli", {"family": family, "k": k, "n": n, "m": m, "plant": plant,
                                      "seed": seed + 1 + (m % 3)}


def case_big(ctx, family, k, n, rseed):
    """Larger n: the exact maximum (closed form, no planted assignment) must be accepted and one more refused;
    planted assignments on 32..70 variables must satisfy every clause / parity."""
    import math
    import cnfgen.families.randomformulas as rf
    import cnfgen.families.randomkxor as rx
    r = ctx.rng("c13big", family, k, n, rseed)
    gen = rf.RandomKCNF if family == "kcnf" else rx.RandomKXOR
    mx = math.comb(n, k) * (2 ** k if family == "kcnf" else 2)
    if mx <= 40000:
        for m, feasible in ((mx, True), (mx + 1, False), (mx - 1, True)):
            seed = r.randint(0, 10 ** 6)
            label = "%s(k=%d,n=%d,m=%d,seed=%d) [maximum %d]" % (gen.__name__, k, n, m, seed, mx)
            st, F = ctx.call(gen, k, n, m, seed=seed)
            if st == "exc":
                if isinstance(F, ValueError) and not feasible:
                    ctx.count("refusals_expected")
                elif isinstance(F, ValueError):
                    ctx.violation("rand%s:refuses-feasible" % family, "%s raised %r" % (label, F))
                else:
                    ctx.violation("rand%s:raises:%s" % (family, type(F).__name__), "%s raised %r" % (label, F))
            elif not feasible:
                ctx.violation("rand%s:accepts-infeasible" % family, "%s returned %d clauses" % (label, len(F)))
            else:
                ctx.count("big_at_exact_maximum")
                if family == "kcnf":
                    check_kcnf(ctx, F, k, n, m, [], label)
                elif len(F) != m * 2 ** (k - 1) or F.number_of_variables() != n:
                    ctx.violation("randkxor:shape", "%s: %d clauses / %d variables" % (label, len(F), F.number_of_variables()))
            ctx.judged(("big-max", family, k, n, m), nontrivial=True, sample={"call": label})
    # planted assignments on many variables (sparse regime)
    for _ in range(6):
        # feasible by construction: every planted assignment excludes exactly one sign pattern per variable set,
        # and a single planted assignment leaves exactly one parity per variable set
        nplanted = r.randint(1, 2) if family == "kcnf" and k >= 2 else 1
        planted = planted_sets(n, r, nplanted)
        room = math.comb(n, k) * ((2 ** k - nplanted) if family == "kcnf" else 1)
        if room < 1:
            continue
        m = r.randint(min(n, room), min(3 * n, room))
        seed = r.randint(0, 10 ** 6)
        label = "%s(k=%d,n=%d,m=%d,planted x%d,seed=%d)" % (gen.__name__, k, n, m, len(planted), seed)
        st, F = ctx.call(gen, k, n, m, seed=seed, planted_assignments=[list(a) for a in planted])
        if st == "exc":
            ctx.violation("rand%s:raises:%s" % (family, type(F).__name__), "%s raised %r" % (label, F))
            continue
        ctx.count("big_planted")
        sets = [set(a) for a in planted]
        for c in F:
            for a in sets:
                if not any(l in a for l in c):
                    ctx.violation("rand%s:planted-falsified" % family, "%s: clause %r falsified by a planted assignment" % (label, list(c)))
                    break
            else:
                continue
            break
        if family == "kcnf":
            check_kcnf(ctx, F, k, n, m, planted, label)
        elif len(F) != m * 2 ** (k - 1) or F.number_of_variables() != n:
            ctx.violation("randkxor:shape", "%s: %d clauses / %d variables" % (label, len(F), F.number_of_variables()))
        ctx.judged(("big-planted", family, k, n, m, seed), nontrivial=True, sample={"call": label})

"""C17 -- a command line builds the same formula as the library call it stands for.

A *reference dispatcher* written from the help texts maps a structured command
(sub-command, options, numbers, graph specifications) to the documented library
call.  The command line is rendered with `save` on every graph argument; the
saved files, read by independent readers, are the graphs handed to the library.
Both sides run in-process under the same RNG state; names are compared as
lists, clauses / constraints as multisets.  Options with a random effect are
judged by what they promise.
"""
import collections
import itertools
import os
import random
import shutil
import tempfile

from ..cliharness import cli_formula, run_main
from ..refmodels import c15_ref

PYTHON_O_STRIDE = {"quick": 4, "thorough": 2}      # every n-th case is repeated in an interpreter started with -O
RULE = ("structured command = (tool, sub-command, option subset, numbers, graph specifications, -T chain): all 33 formula sub-commands "
        "with the option subsets and parameter grids of their help texts, deterministic and random graph constructions (saved and "
        "read back), graph files written by the harness, cnfgen vs formula_class=CNF and pbgen vs formula_class=OPB, -T chains of "
        "length 0-3, kthlist2pebbling vs 'peb', output options -q/-v/--varnames/-of/-o.  distinct = the structured command + seed; "
        "trivial = formula without clauses.")
ASSUMPTIONS = ["saved graph files are read by the independent readers of vmon/refmodels/c15_ref.py (C15 shows the saved file is the graph used)",
               "random options are judged by their promise (--plant: shape and a planted model; random charges: parity; --sparse d: d stones per "
               "vertex; numeric php/subsetcard/op/tseitin forms: degrees), not by replaying draws, except where the command draws nothing before "
               "the generator (randkcnf, randkxor, pitfall, shuffle on deterministic bases)"]
REQUIRED = ["cli_vs_library_compared", "pbgen_compared", "chains_compared", "graphs_read_back", "promise_checks", "rng_replays",
            "kthlist2pebbling_compared", "output_option_checks", "graph_file_inputs", "save_before_modifiers", "file_reuse_checks", "explicit_seed_zero_runs"] + ["sub_" + s for s in (
                "and", "or", "true", "false", "bphp", "cliquecoloring", "count", "parity", "cpls", "domset", "ec", "tiling", "matching",
                "kcolor", "kclique", "kcliquebin", "iso", "subgraph", "ramlb", "op", "tseitin", "peb", "stone", "php", "subsetcard",
                "pitfall", "ptn", "ram", "rphp", "vdw", "randkcnf", "randkxor", "dimacs")]
CASE_TIMEOUT = {"quick": 300, "thorough": 1800}

FMT = {"simple": "kthlist", "bipartite": "kthlist", "dag": "kthlist"}


class G:
    """A graph slot of a command: kind + specification tokens."""

    def __init__(self, kind, spec):
        self.kind, self.spec = kind, [str(t) for t in spec]

    def __repr__(self):
        return "<%s %s>" % (self.kind, " ".join(self.spec))


MODIFIERS = ("plantclique", "plantbiclique", "addedges", "splitedges")


def render(tokens, tmpdir, tag, save_early=False):
    """tokens with G slots -> (argv tail, [(kind, path)]).  save_early: the documented `save` option is written
    before the graph modifiers instead of at the end (the stored graph is the one the formula is built from either way)."""
    out, files = [], []
    for t in tokens:
        if isinstance(t, G):
            path = os.path.join(tmpdir, "%s_%d.%s" % (tag, len(files), FMT[t.kind]))
            cut = next((i for i, x in enumerate(t.spec) if x in MODIFIERS), len(t.spec)) if save_early else len(t.spec)
            out += t.spec[:cut] + ["save", FMT[t.kind], path] + t.spec[cut:]
            files.append((t.kind, path))
        else:
            out.append(str(t))
    return out, files


def load_graph(kind, path, fmt=None):
    """cnfgen graph object from a saved file, through the independent reader."""
    from cnfgen.graphs import Graph, BipartiteGraph, DirectedGraph
    k, size, E = c15_ref.read_saved(kind, fmt or FMT[kind], path)
    if kind == "simple":
        Gr = Graph(size)
        for e in sorted(tuple(sorted(x)) for x in E):
            Gr.add_edge(*e)
    elif kind == "dag":
        Gr = DirectedGraph(size)
        for e in sorted(E):
            Gr.add_edge(*e)
    else:
        Gr = BipartiteGraph(*size)
        for e in sorted(E):
            Gr.add_edge(*e)
    return Gr


# ------------------------------------------------------------------ comparison
def body(F):
    if hasattr(F, "_constraints"):
        return collections.Counter((tuple(sorted(c[:-2])), c[-2], c[-1]) for c in F)
    return collections.Counter(tuple(sorted(c)) for c in F)


def clauses_of(F):
    """Clauses of a CNF, or the clause-shaped constraints of an OPB, as lists of literals."""
    if hasattr(F, "_constraints"):
        return [[l for _, l in c[:-2]] for c in F if c[-2] == ">=" and c[-1] == 1 and all(k == 1 for k, _ in c[:-2])]
    return [list(c) for c in F]


def same_formula(ctx, mech, label, A, B, names=True):
    """A: command line, B: library."""
    if type(A).__name__ != type(B).__name__ and hasattr(A, "_constraints") != hasattr(B, "_constraints"):
        ctx.violation(mech + ":formula-class", "%s: the tool built a %s, the documented call a %s"
                      % (label, type(A).__name__, type(B).__name__))
        return False
    if A.number_of_variables() != B.number_of_variables():
        ctx.violation(mech + ":numvar", "%s: %d variables on the command line, %d from the library"
                      % (label, A.number_of_variables(), B.number_of_variables()))
        return False
    if names:
        la, lb = list(A.all_variable_labels()), list(B.all_variable_labels())
        if la != lb:
            i = next((i for i, (x, y) in enumerate(zip(la, lb)) if x != y), 0)
            ctx.violation(mech + ":names", "%s: variable %d is %r on the command line, %r from the library"
                          % (label, i + 1, la[i:i + 1], lb[i:i + 1]))
            return False
    ba, bb = body(A), body(B)
    if ba != bb:
        extra, missing = list((ba - bb).elements())[:2], list((bb - ba).elements())[:2]
        ctx.violation(mech + ":clauses", "%s: %d clauses vs %d; only on the command line %r; only from the library %r"
                      % (label, sum(ba.values()), sum(bb.values()), extra, missing))
        return False
    return True


def run_cli(tool, argv, seed):
    random.seed(seed)
    try:
        return "ok", cli_formula(tool, [tool] + argv)
    except SystemExit as e:
        return "refused", e
    except Exception as e:      # noqa: BLE001
        return ("refused" if type(e).__name__ == "CLIError" else "exc"), e


# ------------------------------------------------------------------ the reference dispatcher
def classes(tool):
    from cnfgen.formula.cnf import CNF
    from cnfgen.formula.opb import OPB
    return CNF if tool == "cnfgen" else OPB


def lib_transform(F, t):
    import cnfgen as g
    name = t[0]
    a = [int(x) for x in t[1:] if x.lstrip("-").isdigit()]
    if name == "none":
        return F
    simple = {"or": g.OrSubstitution, "xor": g.XorSubstitution, "eq": g.AllEqualSubstitution, "neq": g.NotAllEqualSubstitution,
              "maj": g.MajoritySubstitution, "one": g.ExactlyOneSubstitution, "lift": g.FormulaLifting,
              "atleast": g.AtLeastKSubstitution, "atmost": g.AtMostKSubstitution, "exact": g.ExactlyKSubstitution,
              "anybut": g.AnythingButKSubstitution}
    if name in simple:
        return simple[name](F, *a)
    if name == "ite":
        return g.IfThenElseSubstitution(F)
    if name == "flip":
        return g.FlipPolarity(F)
    if name == "shuffle":
        return g.Shuffle(F, "fixed" if "--no-polarity-flips" in t else "shuffle",
                         "fixed" if "--no-variables-permutation" in t else "shuffle",
                         "fixed" if "--no-clauses-permutation" in t else "shuffle")
    raise ValueError(name)


def reference(sub, opts, nums, graphs, K):
    """The documented library call for a structured command.  Returns a formula, or None when the
    command's effect is random and is judged by promise instead."""
    import cnfgen as g
    o = set(opts)
    if sub in ("and", "or"):
        P, N = nums
        F = K()
        pos = F.new_block(P, label="x_{}")
        neg = F.new_block(N, label="y_{}")
        if sub == "or":
            F.add_clause(list(pos) + [-v for v in neg])
        else:
            for v in pos:
                F.add_clause([v])
            for v in neg:
                F.add_clause([-v])
        return F
    if sub == "true":
        return K()
    if sub == "false":
        F = K()
        F.add_clause([])
        return F
    if sub == "bphp":
        return g.BinaryPigeonholePrinciple(*nums, formula_class=K)
    if sub == "cliquecoloring":
        return g.CliqueColoring(*nums, formula_class=K)
    if sub == "count":
        return g.CountingPrinciple(*nums, formula_class=K)
    if sub == "parity":
        return g.CountingPrinciple(nums[0], 2, formula_class=K)
    if sub == "cpls":
        return g.CPLSFormula(*nums, formula_class=K)
    if sub == "domset":
        return g.DominatingSet(graphs[0], nums[0], alternative=bool(o & {"-a", "--alternative"}), formula_class=K)
    if sub == "ec":
        return g.EvenColoringFormula(graphs[0], formula_class=K)
    if sub == "tiling":
        return g.Tiling(graphs[0], formula_class=K)
    if sub == "matching":
        return g.PerfectMatchingPrinciple(graphs[0], formula_class=K)
    if sub == "kcolor":
        return g.GraphColoringFormula(graphs[0], nums[0], formula_class=K)
    if sub == "kclique":
        return g.CliqueFormula(graphs[0], nums[0], symbreak="--no-symmetry-breaking" not in o, formula_class=K)
    if sub == "kcliquebin":
        return g.BinaryCliqueFormula(graphs[0], nums[0], formula_class=K)
    if sub == "iso":
        if len(graphs) == 2:
            return g.GraphIsomorphism(graphs[0], graphs[1], formula_class=K)
        return g.GraphAutomorphism(graphs[0], formula_class=K)
    if sub == "subgraph":
        return g.SubgraphFormula(graphs[0], graphs[1], formula_class=K)
    if sub == "ramlb":
        return g.RamseyWitnessFormula(graphs[0], nums[0], nums[1], formula_class=K)
    if sub == "op":
        kw = dict(total=bool(o & {"-t", "--total"}), smart=bool(o & {"-s", "--smart"}), plant=bool(o & {"-p", "--plant"}),
                  knuth=2 if "--knuth2" in o else (3 if "--knuth3" in o else 0))
        if graphs:
            return g.GraphOrderingPrinciple(graphs[0], formula_class=K, **kw)
        if len(nums) == 1:
            return g.OrderingPrinciple(nums[0], formula_class=K, **kw)
        return None
    if sub == "tseitin":
        if graphs and opts and opts[0] in ("first", "zero", "one"):
            n = graphs[0].number_of_vertices()
            ch = {"first": [1] + [0] * (n - 1), "zero": [0] * n, "one": [1] * n}[opts[0]]
            return g.TseitinFormula(graphs[0], ch[:n] if n else None, formula_class=K)
        return None
    if sub == "peb":
        return g.PebblingFormula(graphs[0], formula_class=K)
    if sub == "stone":
        if any(x == "--sparse" for x in opts):
            return None
        return g.StoneFormula(graphs[0], nums[0], formula_class=K)
    if sub == "php":
        kw = dict(functional="--functional" in o, onto="--onto" in o)
        if graphs:
            return g.GraphPigeonholePrinciple(graphs[0], formula_class=K, **kw)
        if len(nums) == 1:
            return g.PigeonholePrinciple(nums[0] + 1, nums[0], formula_class=K, **kw)
        if len(nums) == 2:
            return g.PigeonholePrinciple(nums[0], nums[1], formula_class=K, **kw)
        return None
    if sub == "subsetcard":
        if graphs:
            return g.SubsetCardinalityFormula(graphs[0], equalities=bool(o & {"-e", "--equal"}), formula_class=K)
        return None
    if sub == "ptn":
        return g.PythagoreanTriples(nums[0], formula_class=K)
    if sub == "ram":
        return g.RamseyNumber(*nums, formula_class=K)
    if sub == "rphp":
        return g.RelativizedPigeonholePrinciple(*nums, formula_class=K)
    if sub == "vdw":
        return g.VanDerWaerden(*nums, formula_class=K)
    if sub == "pitfall":
        return g.PitfallFormula(*nums, formula_class=K)            # exact under RNG replay
    if sub == "randkcnf" and not (o & {"-p", "--plant"}):
        return g.RandomKCNF(*nums, formula_class=K)                # exact under RNG replay
    if sub == "randkxor" and not (o & {"-p", "--plant"}):
        return g.RandomKXOR(*nums, formula_class=K)
    return None


# ------------------------------------------------------------------ promise-based judgement
def judge_promise(ctx, tool, sub, opts, nums, graphs, F, label):
    """Random options: reconstruct the random ingredient from the formula, check what the option promises,
    and compare with the library call on the reconstructed ingredient."""
    import cnfgen as g
    from cnfgen.graphs import BipartiteGraph, Graph
    from ..refmodels.names import atoms_of, by_template
    from .. import tt
    K = classes(tool)
    o = set(opts)
    ctx.count("promise_checks")
    at = by_template(atoms_of(F))
    mech = sub + ":promise"
    if sub in ("randkcnf", "randkxor"):
        k, n, m = nums
        if F.number_of_variables() != n:
            ctx.violation(mech + ":numvar", "%s: %d variables" % (label, F.number_of_variables()))
        if sub == "randkcnf":
            if len(F) != m or any(len(set(abs(l) for l in c)) != k for c in clauses_of(F)):
                ctx.violation(mech + ":shape", "%s: not %d clauses of width %d" % (label, m, k))
        elif len(F) != m * 2 ** (k - 1):
            ctx.violation(mech + ":shape", "%s: %d clauses for %d parities of width %d" % (label, len(F), m, k))
        if n <= 16 and not tt.models_of(F):
            ctx.violation(mech + ":plant-unsat", "%s is unsatisfiable although an assignment was planted" % label)
        return
    if sub == "php":
        m, n, d = nums
        p = at.get("p_{#,#}", {})
        B = BipartiteGraph(m, n)
        for (i, j) in sorted(p):
            B.add_edge(i, j)
        if any(B.right_degree(u) != d for u in range(1, m + 1)):
            ctx.violation(mech + ":left-degree", "%s: pigeons have degrees %r, promised %d"
                          % (label, [B.right_degree(u) for u in range(1, m + 1)], d))
        ref = g.GraphPigeonholePrinciple(B, functional="--functional" in o, onto="--onto" in o, formula_class=K)
        same_formula(ctx, sub, label, F, ref)
        return
    if sub == "subsetcard":
        N = nums[0]
        d = nums[1] if len(nums) > 1 else 4
        xs = at.get("x_{#,#}", {})
        B = BipartiteGraph(N, N)
        for e in sorted(xs):
            B.add_edge(*e)
        if B.number_of_edges() != N * d + 1:
            ctx.violation(mech + ":edges", "%s: %d edges, promised a %d-regular graph plus one edge" % (label, B.number_of_edges(), d))
        ref = g.SubsetCardinalityFormula(B, equalities=bool(o & {"-e", "--equal"}), formula_class=K)
        same_formula(ctx, sub, label, F, ref)
        return
    if sub == "op":
        N, d = nums
        # the graph is visible in the "v is not minimal" clauses: x_{u,v} for the neighbours u of v
        labs = list(F.all_variable_labels())
        smart = bool(o & {"-s", "--smart"})
        Gr = Graph(N)
        import re
        for cl in clauses_of(F):
            if len(cl) == d and (smart or all(l > 0 for l in cl)):
                idx = [tuple(map(int, re.findall(r"\d+", labs[abs(l) - 1]))) for l in cl]
                common = set(idx[0])
                for t in idx[1:]:
                    common &= set(t)
                if len(common) == 1:
                    v = common.pop()
                    for t in idx:
                        u = t[0] if t[1] == v else t[1]
                        if u != v:
                            Gr.add_edge(u, v)
        if any(Gr.degree(v) != d for v in range(1, N + 1)):
            ctx.violation(mech + ":degree", "%s: reconstructed graph has degrees %r, promised %d-regular"
                          % (label, [Gr.degree(v) for v in range(1, N + 1)], d))
            return
        kw = dict(total=bool(o & {"-t", "--total"}), smart=smart, plant=bool(o & {"-p", "--plant"}),
                  knuth=2 if "--knuth2" in o else (3 if "--knuth3" in o else 0))
        same_formula(ctx, sub, label, F, g.GraphOrderingPrinciple(Gr, formula_class=K, **kw))
        return
    if sub == "tseitin":
        ev = at.get("E_{#,#}", {})
        if graphs:
            Gr = graphs[0]
            mode = opts[0]
        else:
            N = nums[0]
            d = nums[1] if len(nums) > 1 else 4
            Gr = Graph(N)
            for e in sorted(ev):
                Gr.add_edge(*e)
            if any(Gr.degree(v) != d for v in range(1, N + 1)):
                ctx.violation(mech + ":degree", "%s: graph degrees %r, promised %d-regular" % (label, [Gr.degree(v) for v in range(1, N + 1)], d))
                return
            mode = "randomodd"
        n = Gr.number_of_vertices()
        if n == 0:
            same_formula(ctx, sub, label, F, g.TseitinFormula(Gr, None, formula_class=K))
            return
        # the charge vector is recovered by search: which vectors give exactly this formula?
        have = body(F)
        fits = [c for c in itertools.product((0, 1), repeat=n)
                if body(g.TseitinFormula(Gr, list(c), formula_class=K)) == have] if n <= 10 else None
        if fits is None:
            return
        if not fits:
            same_formula(ctx, sub, label, F, g.TseitinFormula(Gr, [0] * n, formula_class=K), names=True)
            ctx.violation(mech + ":not-a-tseitin-formula", "%s: no charge vector on the given graph yields this formula" % label)
            return
        ref = g.TseitinFormula(Gr, list(fits[0]), formula_class=K)
        if not same_formula(ctx, sub, label, F, ref):
            return
        pars = {sum(c) % 2 for c in fits}
        if mode == "randomodd" and 1 not in pars:
            ctx.violation(mech + ":charge-parity", "%s: total charge is even, promised odd" % label)
        if mode == "randomeven" and 0 not in pars:
            ctx.violation(mech + ":charge-parity", "%s: total charge is odd, promised even" % label)
        return
    if sub == "stone":
        s = nums[0]
        d = int(opts[opts.index("--sparse") + 1])
        P = at.get("P_{#,#}", {})
        D = graphs[0]
        n = D.number_of_vertices()
        B = BipartiteGraph(n, s)
        for e in sorted(P):
            B.add_edge(*e)
        if any(B.right_degree(v) != d for v in range(1, n + 1)):
            ctx.violation(mech + ":stones-per-vertex", "%s: vertices may use %r stones, promised %d each"
                          % (label, [B.right_degree(v) for v in range(1, n + 1)], d))
        same_formula(ctx, sub, label, F, g.SparseStoneFormula(D, B, formula_class=K))
        return


# ------------------------------------------------------------------ one structured command
def run_command(ctx, tool, sub, opts, nums, gslots, chain, seed, layout=None):
    """layout: order of argv pieces, default: sub, opts, nums, graphs."""
    tmp = tempfile.mkdtemp(prefix="c17-")
    try:
        tokens = [sub] + (layout if layout is not None else list(opts) + list(nums) + list(gslots))
        save_early = seed % 2 == 0 and any(x in MODIFIERS for t in tokens if isinstance(t, G) for x in t.spec)
        if save_early:
            ctx.count("save_before_modifiers")
        tail, files = render(tokens, tmp, "g", save_early)
        for t in chain:
            tail += ["-T"] + list(t)
        label = "%s %s [seed %d]" % (tool, " ".join(a if not a.startswith(tmp) else "<tmp>/" + os.path.basename(a) for a in tail), seed)
        st, F = run_cli(tool, tail, seed)
        ctx.count("sub_" + sub)
        if st != "ok":
            # a refusal of a documented, valid command line is a disagreement with the library, which accepts it
            K = classes(tool)
            try:
                # nothing was saved if the tool stopped early: build the graphs from their specifications
                from cnfgen.clitools.graph_args import make_graph_from_spec
                random.seed(seed)
                graphs = [make_graph_from_spec(g_.kind, list(g_.spec)) for g_ in gslots]
                random.seed(seed)
                ref = reference(sub, opts, nums, graphs, K)
            except Exception as e2:      # noqa: BLE001 - the library refuses as well
                ctx.count("both_refuse")
                ctx.count("both_refuse:%s" % sub)
                return
            if ref is not None:
                ctx.violation("%s:command-line-fails" % sub, "%s: %s %r, but the documented library call succeeds" % (label, st, F))
            return
        graphs = []
        for k, p in files:
            graphs.append(load_graph(k, p))
            ctx.count("graphs_read_back")
        K = classes(tool)
        random.seed(seed)
        ref = reference(sub, opts, nums, graphs, K)
        if ref is None:
            if chain:
                return
            judge_promise(ctx, tool, sub, opts, nums, graphs, F, label)
        else:
            if sub in ("pitfall", "randkcnf", "randkxor") or any(t[0] == "shuffle" for t in chain):
                ctx.count("rng_replays")
            for t in chain:
                ref = lib_transform(ref, t)
            if chain:
                ctx.count("chains_compared")
            ctx.count("cli_vs_library_compared")
            if tool == "pbgen":
                ctx.count("pbgen_compared")
            same_formula(ctx, sub, label, F, ref)
        ctx.judged((tool, sub, tuple(opts), tuple(nums), tuple(map(repr, gslots)), tuple(map(tuple, chain)), seed),
                   nontrivial=len(F) > 0, sample={"command": label, "variables": F.number_of_variables(), "clauses": len(F)})
    finally:
        shutil.rmtree(tmp, ignore_errors=True)


# ------------------------------------------------------------------ corpus
S_DET = [["complete", 3], ["complete", 2, 2], ["empty", 3], ["grid", 2, 2], ["grid", 3], ["torus", 3], ["grid", 2, 3], ["empty", 0]]
S_RND = [["gnp", 4, ".5"], ["gnm", 5, 4], ["gnd", 4, 2], ["gnp", 2, ".5", 2], ["grid", 2, 2, "addedges", 1],
         ["empty", 4, "plantclique", 3], ["complete", 3, "splitedges", 1]]
B_DET = [["complete", 2, 2], ["empty", 2, 2], ["shift", 3, 3, 0, 1], ["complete", 1, 3]]
B_RND = [["glrp", 2, 3, ".5"], ["glrm", 2, 3, 3], ["glrd", 3, 3, 2], ["regular", 3, 3, 2], ["empty", 2, 2, "plantbiclique", 1, 1],
         ["glrm", 2, 2, 1, "addedges", 1]]
D_ALL = [["path", 3], ["tree", 1], ["pyramid", 1], ["pyramid", 2], ["path", 0], ["tree", 2]]
EVEN = [["torus", 3], ["complete", 3], ["complete", 5], ["gnd", 6, 2], ["torus", 2, 3]]
OP_FLAGS = [[], ["--total"], ["--smart"], ["--knuth2"], ["--knuth3"], ["--plant"], ["-t", "-p"], ["-s", "-p"], ["--knuth3", "-p"]]


def commands():
    """[(sub, opts, nums, gslots, layout or None)]"""
    out = []
    add = lambda sub, opts=(), nums=(), gs=(), layout=None: out.append((sub, list(opts), list(nums), list(gs), layout))
    S = [G("simple", s) for s in S_DET + S_RND]
    B = [G("bipartite", s) for s in B_DET + B_RND]
    D = [G("dag", s) for s in D_ALL]
    for p, n in ((0, 0), (2, 1), (0, 3), (3, 0)):
        add("and", nums=(p, n))
        add("or", nums=(p, n))
    add("true")
    add("false")
    for m, n in ((1, 1), (2, 3), (3, 2), (3, 5), (4, 8)):
        add("bphp", nums=(m, n))
    for t in ((2, 1, 1), (3, 2, 2), (4, 3, 2), (0, 1, 1), (3, 1, 3)):
        add("cliquecoloring", nums=t)
    for t in ((0, 1), (4, 2), (5, 2), (6, 3), (7, 3)):
        add("count", nums=t)
    for N in (0, 1, 4, 7):
        add("parity", nums=(N,))
    for t in ((1, 1, 1), (2, 2, 2), (1, 2, 4), (3, 2, 1), (2, 4, 2)):
        add("cpls", nums=t)
    for g_ in S:
        for d in (1, 2):
            add("domset", nums=(d,), gs=[g_])
            add("domset", opts=["-a"], nums=(d,), gs=[g_])
        add("tiling", gs=[g_])
        add("matching", gs=[g_])
        for k in (1, 3):
            add("kcolor", nums=(k,), gs=[g_])
        for k in (0, 2, 3):
            add("kclique", nums=(k,), gs=[g_])
            add("kclique", opts=["--no-symmetry-breaking"], nums=(k,), gs=[g_], layout=[k, g_, "--no-symmetry-breaking"])
        for k in (1, 3):
            add("kcliquebin", nums=(k,), gs=[g_])
        for k, s in ((2, 2), (3, 2), (1, 3)):
            add("ramlb", nums=(k, s), gs=[g_])
        for fl in OP_FLAGS:
            add("op", opts=fl, gs=[g_])
        for ch in ("first", "zero", "one", "random", "randomodd", "randomeven"):
            add("tseitin", opts=[ch], gs=[g_])
        add("iso", gs=[g_])
    for s in EVEN:
        add("ec", gs=[G("simple", s)])
    for g1 in S[:7]:
        for g2 in S[:5]:
            add("iso", gs=[g1, g2], layout=[g1, "-e", g2])
            add("subgraph", gs=[g1, g2], layout=["-G", g1, "-H", g2])
    for N in (0, 1, 3, 4):
        for fl in OP_FLAGS:
            add("op", opts=fl, nums=(N,))
    for (N, d) in ((4, 2), (4, 3), (6, 3)):
        for fl in ([], ["--total"], ["--smart"], ["--plant"]):
            add("op", opts=fl, nums=(N, d))
    for t in ((5,), (6,), (4, 2), (5, 2), (6, 3)):
        add("tseitin", nums=t)
    for d_ in D:
        add("peb", gs=[d_])
        for s in (1, 2):
            add("stone", nums=(s,), gs=[d_])
        add("stone", opts=["--sparse", 2], nums=(3,), gs=[d_], layout=[3, d_, "--sparse", 2])
        add("stone", opts=["--sparse", 1], nums=(2,), gs=[d_], layout=[2, d_, "--sparse", 1])
    for fl in ([], ["--functional"], ["--onto"], ["--functional", "--onto"]):
        for N in (0, 2):
            add("php", opts=fl, nums=(N,))
        for m, n in ((0, 0), (2, 3), (3, 2), (4, 4)):
            add("php", opts=fl, nums=(m, n))
        for t in ((4, 3, 2), (3, 4, 1), (3, 3, 3)):
            add("php", opts=fl, nums=t)
        for b in B:
            add("php", opts=fl, gs=[b])
    for b in B:
        add("subsetcard", gs=[b])
        add("subsetcard", opts=["-e"], gs=[b])
    for t in ((3, 2), (4,), (5, 2)):
        add("subsetcard", nums=t)
        add("subsetcard", opts=["-e"], nums=t)
    for N in (0, 5, 13, 30):
        add("ptn", nums=(N,))
    for t in ((1, 1, 2), (2, 2, 3), (3, 3, 5), (3, 2, 4), (3, 4, 0)):
        add("ram", nums=t)
    for t in ((0, 0, 0), (2, 2, 2), (2, 3, 2), (3, 2, 2)):
        add("rphp", nums=t)
    for t in ((5, 2, 2), (8, 3, 3), (4, 1, 2), (5, 2, 2, 2), (4, 3, 1, 2), (0, 2, 2)):
        add("vdw", nums=t)
    for t in ((2, 1, 2, 2, 2), (4, 1, 2, 2, 2), (4, 3, 2, 3, 2), (6, 3, 3, 2, 4)):
        add("pitfall", nums=t)
    for t in ((1, 3, 2), (2, 4, 5), (3, 5, 7), (3, 6, 0)):
        add("randkcnf", nums=t)
        add("randkcnf", opts=["-p"], nums=t)
        add("randkxor", nums=t)
        add("randkxor", opts=["-p"], nums=(t[0], t[1], min(t[2], 3)))
    return out


CHAINS = [["none"], ["or", "2"], ["xor", "2"], ["eq", "2"], ["neq", "3"], ["maj", "3"], ["ite"], ["one", "2"], ["atleast", "3", "2"],
          ["atmost", "3", "1"], ["exact", "3", "2"], ["anybut", "3", "1"], ["lift", "2"], ["flip"], ["shuffle"],
          ["shuffle", "--no-polarity-flips"], ["shuffle", "--no-variables-permutation", "--no-clauses-permutation"]]


def case_commands(ctx, lo, hi, seeds):
    cmds = commands()[lo:hi]
    for (sub, opts, nums, gs, layout) in cmds:
        for tool in ("cnfgen", "pbgen"):
            for seed in seeds:
                run_command(ctx, tool, sub, opts, nums, gs, [], seed, layout)


def case_chains(ctx, rseed, count):
    """-T chains of length 1-3 on deterministic bases (so that shuffles replay exactly)."""
    r = ctx.rng("c17chains", rseed)
    bases = [("php", [], (3, 2), []), ("op", [], (3,), []), ("count", [], (4, 2), []), ("and", [], (2, 1), []),
             ("peb", [], (), [G("dag", ["pyramid", 1])]), ("tseitin", ["first"], (), [G("simple", ["grid", 2, 2])]),
             ("kclique", [], (2,), [G("simple", ["complete", 3])]), ("false", [], (), []), ("ram", [], (3, 3, 4), []),
             # formulas with variables and no clauses: a transformation still renames / multiplies the variables
             ("randkcnf", [], (3, 5, 0), []), ("ptn", [], (3,), []), ("ram", [], (4, 4, 3), []), ("vdw", [], (2, 3, 3), []),
             ("true", [], (), []), ("randkxor", [], (2, 4, 0), [])]
    for _ in range(count):
        sub, opts, nums, gs = r.choice(bases)
        chain = [r.choice(CHAINS) for _ in range(r.randint(1, 3))]
        # keep the blow-up bounded: substitutions distribute over clauses (same estimate as C10)
        from .C10 import chain_cost
        try:
            base = cli_formula("cnfgen", ["cnfgen", sub] + [str(x) for x in list(opts) + list(nums)] + [t for g_ in gs for t in g_.spec])
        except BaseException as e:      # noqa: BLE001
            if isinstance(e, KeyboardInterrupt) or type(e).__name__ == "CaseTimeout":
                raise
            continue
        while chain and chain_cost(base, chain) > (6000 if ctx.tier == "quick" else 30000):
            chain = chain[:-1]
        if not chain:
            continue
        run_command(ctx, "cnfgen", sub, opts, nums, gs, chain, r.randint(1, 10 ** 6))


def write_graph_files(tmp):
    """Graph files written by the harness, one per format and type."""
    files = {}
    files[("simple", "kthlist")] = ("4\n1 : 2 3 0\n2 : 1 0\n3 : 1 4 0\n4 : 3 0\n", [(1, 2), (1, 3), (3, 4)], 4)
    files[("simple", "dimacs")] = ("c a graph\np edge 4 3\ne 1 2\ne 1 3\ne 3 4\n", [(1, 2), (1, 3), (3, 4)], 4)
    files[("simple", "gml")] = ("graph [\n node [ id 1 label \"1\" ]\n node [ id 2 label \"2\" ]\n node [ id 3 label \"3\" ]\n"
                                " edge [ source 1 target 2 ]\n edge [ source 2 target 3 ]\n]\n", [(1, 2), (2, 3)], 3)
    files[("dag", "kthlist")] = ("4\n1 : 0\n2 : 0\n3 : 1 2 0\n4 : 3 0\n", [(1, 3), (2, 3), (3, 4)], 4)
    files[("bipartite", "matrix")] = ("2 3\n1 0 1\n0 1 1\n", [(1, 1), (1, 3), (2, 2), (2, 3)], (2, 3))
    files[("bipartite", "kthlist")] = ("5\n1 : 3 5 0\n2 : 4 5 0\n", [(1, 1), (1, 3), (2, 2), (2, 3)], (2, 3))
    out = {}
    for (kind, fmt), (text, E, size) in files.items():
        p = os.path.join(tmp, "%s.%s" % (kind, fmt))
        with open(p, "w") as f:
            f.write(text)
        out[(kind, fmt)] = (p, E, size)
    return out


def case_files(ctx):
    """Graph arguments given as files (by extension and with an explicit format) and the dimacs sub-command."""
    import cnfgen as g
    from cnfgen.graphs import Graph, BipartiteGraph, DirectedGraph
    from cnfgen.formula.cnf import CNF
    tmp = tempfile.mkdtemp(prefix="c17f-")
    try:
        for (kind, fmt), (path, E, size) in write_graph_files(tmp).items():
            if kind == "simple":
                Gr = Graph(size)
            elif kind == "dag":
                Gr = DirectedGraph(size)
            else:
                Gr = BipartiteGraph(*size)
            for e in E:
                Gr.add_edge(*e)
            for spelled in ([path], [fmt, path]):
                for tool in ("cnfgen", "pbgen"):
                    K = classes(tool)
                    if kind == "simple":
                        pairs = [(["matching"] + spelled, g.PerfectMatchingPrinciple(Gr, formula_class=K)),
                                 (["kcolor", "2"] + spelled, g.GraphColoringFormula(Gr, 2, formula_class=K)),
                                 (["op"] + spelled, g.GraphOrderingPrinciple(Gr, formula_class=K))]
                    elif kind == "dag":
                        pairs = [(["peb"] + spelled, g.PebblingFormula(Gr, formula_class=K)),
                                 (["stone", "2"] + spelled, g.StoneFormula(Gr, 2, formula_class=K))]
                    else:
                        pairs = [(["php"] + spelled, g.GraphPigeonholePrinciple(Gr, formula_class=K)),
                                 (["subsetcard", "-e"] + spelled, g.SubsetCardinalityFormula(Gr, equalities=True, formula_class=K))]
                    for tail, ref in pairs:
                        label = "%s %s" % (tool, " ".join(os.path.basename(t) if t.startswith(tmp) else t for t in tail))
                        st, F = run_cli(tool, tail, 1)
                        ctx.count("graph_file_inputs")
                        ctx.count("sub_" + tail[0])
                        if st != "ok":
                            ctx.violation("%s:file-argument-fails" % tail[0], "%s: %s %r" % (label, st, F))
                            continue
                        ctx.count("cli_vs_library_compared")
                        same_formula(ctx, tail[0] + "[file]", label, F, ref)
                        ctx.judged(("file", tool, kind, fmt, tuple(tail[:-1]), len(spelled)), nontrivial=True, sample={"command": label})
        # degenerate graphs that only a file can name: no vertices at all, a single vertex, isolated vertices only
        K3 = Graph(3)
        for e in ((1, 2), (2, 3), (1, 3)):
            K3.add_edge(*e)
        for nv, texts in ((0, {"kthlist": "0\n", "dimacs": "p edge 0 0\n"}), (1, {"kthlist": "1\n1 : 0\n", "dimacs": "p edge 1 0\n"}),
                          (3, {"kthlist": "3\n1 : 0\n2 : 0\n3 : 0\n", "dimacs": "p edge 3 0\n"})):
            for fmt, text in texts.items():
                path = os.path.join(tmp, "degenerate%d.%s" % (nv, fmt))
                with open(path, "w") as f:
                    f.write(text)
                for tool in ("cnfgen", "pbgen"):
                    K = classes(tool)
                    cases = [(["iso", "complete", "3", "-e", path], lambda: g.GraphIsomorphism(K3, Graph(nv), formula_class=K)),
                             (["iso", path, "-e", "complete", "3"], lambda: g.GraphIsomorphism(Graph(nv), K3, formula_class=K)),
                             (["iso", path, "-e", path], lambda: g.GraphIsomorphism(Graph(nv), Graph(nv), formula_class=K)),
                             (["iso", path], lambda: g.GraphAutomorphism(Graph(nv), formula_class=K)),
                             (["kcolor", "2", path], lambda: g.GraphColoringFormula(Graph(nv), 2, formula_class=K)),
                             (["subgraph", "-G", "complete", "3", "-H", path], lambda: g.SubgraphFormula(K3, Graph(nv), formula_class=K)),
                             (["domset", "1", path], lambda: g.DominatingSet(Graph(nv), 1, formula_class=K))]
                    for tail, make_ref in cases:
                        label = "%s %s" % (tool, " ".join("<graph file with %d vertices, no edges>" % nv if t == path else t for t in tail))
                        try:
                            ref = make_ref()
                        except Exception as e:       # noqa: BLE001 - the library declines: so must the command line
                            ref = None
                        st, F = run_cli(tool, tail, 1)
                        ctx.count("graph_file_inputs")
                        ctx.count("degenerate_graph_files")
                        if ref is None:
                            if st == "ok":
                                ctx.violation("%s:cli-accepts-what-the-library-refuses" % tail[0], "%s builds a formula, the library call raises" % label)
                            continue
                        if st != "ok":
                            ctx.violation("%s:file-argument-fails" % tail[0], "%s: %s %r" % (label, st, F))
                            continue
                        ctx.count("cli_vs_library_compared")
                        same_formula(ctx, tail[0] + "[file]", label, F, ref)
                        ctx.judged(("degenerate-file", tool, nv, fmt, tuple(tail[:2]), tail.index(path)), nontrivial=True, sample={"command": label})
        # the one-string form of a graph specification and file names with backslashes / quotes (next to a decoy whose
        # name is the same without them)
        from cnfgen.clitools.graph_args import make_graph_from_spec
        from cnfgen.graphs import writeGraph
        P4 = Graph(4)
        for e in ((1, 2), (2, 3), (3, 4)):
            P4.add_edge(*e)
        for real, decoy in (("net\\work.gml", "network.gml"), ('q"uote.kthlist', "quote.kthlist"), ("it's.gml", "its.gml"), ("a\\ b.kthlist", "a b.kthlist")):
            fmt = real.rsplit(".", 1)[1]
            writeGraph(P4, os.path.join(tmp, real), "simple", fmt)
            writeGraph(K3, os.path.join(tmp, decoy), "simple", fmt)
            path = os.path.join(tmp, real)
            ref = g.GraphColoringFormula(P4, 2)
            for how, make in (("list", lambda: make_graph_from_spec("simple", [fmt, path])),
                              ("string", (lambda: make_graph_from_spec("simple", fmt + " " + path)) if " " not in real else None),
                              ("command line", lambda: None)):
                if make is None:
                    continue
                label = "kcolor 2 on the graph named by the %s specification %s <dir>/%s" % (how, fmt, real)
                ctx.count("graph_file_inputs")
                ctx.count("odd_file_name_specifications")
                if how == "command line":
                    st, F = run_cli("cnfgen", ["kcolor", "2", fmt, path], 1)
                else:
                    st, G_ = ctx.call(make)
                    F = g.GraphColoringFormula(G_, 2) if st == "ok" else G_
                if st != "ok":
                    ctx.violation("kcolor:file-argument-fails", "%s: %s %r" % (label, st, F))
                    continue
                same_formula(ctx, "kcolor[file]", label, F, ref)
                ctx.judged(("odd-name-spec", real, how), nontrivial=True, sample={"command": label})
        # the tools' cli() entry point without an argument list reads the command line of the moment
        import sys as _sys
        for tool in ("cnfgen", "pbgen"):
            from ..cliharness import tool_module
            mod = tool_module(tool)
            saved = _sys.argv
            try:
                for argv in ([tool, "-q", "php", "3", "2"], [tool, "-q", "op", "3"], [tool, "-q", "count", "4", "2"]):
                    _sys.argv = list(argv)                 # re-bound, as a test harness or an embedding program does
                    st, F = ctx.call(mod.cli, mode="formula")
                    ctx.count("cli_without_argument_list")
                    ref = cli_formula(tool, argv)
                    label = "%s.cli(mode='formula') with sys.argv = %r" % (tool, argv)
                    if st != "ok":
                        ctx.violation("%s:cli-default-argv:%s" % (argv[2], type(F).__name__), "%s raised %r" % (label, F))
                        continue
                    same_formula(ctx, argv[2] + "[cli()]", label, F, ref)
                    ctx.judged(("cli-default-argv", tool, tuple(argv[1:])), nontrivial=True, sample={"call": label})
            finally:
                _sys.argv = saved
        # dimacs sub-command: the formula of the file
        path = os.path.join(tmp, "f.cnf")
        cls = [[1, -2], [], [3, 3, -1], [-4]]
        with open(path, "w") as f:
            f.write("c comment\np cnf 5 4\n1 -2 0\n0\n3 3\n-1 0 -4 0\n")
        for tool in ("cnfgen",):
            st, F = run_cli(tool, ["dimacs", path], 1)
            ctx.count("sub_dimacs")
            if st != "ok":
                ctx.violation("dimacs:fails", "cnfgen dimacs <file>: %s %r" % (st, F))
            else:
                ref = CNF()
                ref.update_variable_number(5)
                for c in cls:
                    ref.add_clause(c)
                ctx.count("cli_vs_library_compared")
                same_formula(ctx, "dimacs", "cnfgen dimacs <file>", F, ref, names=False)
                ctx.judged(("dimacs-file",), nontrivial=True)
        # kthlist2pebbling == peb on the same file, with and without a transformation
        kp = os.path.join(tmp, "dag.kthlist")
        for t in ([], ["xor", "2"], ["lift", "2"], ["shuffle", "--no-polarity-flips"]):
            import sys
            from ..cliharness import tool_module
            random.seed(7)
            try:
                A = tool_module("kthlist2pebbling").cli(["kthlist2pebbling", "-i", kp] + t, mode="formula")
                st = "ok"
            except BaseException as e:      # noqa: BLE001
                if isinstance(e, KeyboardInterrupt) or type(e).__name__ == "CaseTimeout":
                    raise
                st, A = "exc", e
            st2, Bf = run_cli("cnfgen", ["peb", "kthlist", kp] + (["-T"] + t if t else []), 7)
            ctx.count("kthlist2pebbling_compared")
            if st != "ok" or st2 != "ok":
                ctx.violation("kthlist2pebbling:fails", "kthlist2pebbling %r -> %s %r; cnfgen peb -> %s" % (t, st, A if st != "ok" else "", st2))
                continue
            same_formula(ctx, "kthlist2pebbling", "kthlist2pebbling -i <dag> %s vs cnfgen peb kthlist <dag>" % " ".join(t), A, Bf)
            ctx.judged(("kthlist2pebbling", tuple(t)), nontrivial=True)
    finally:
        shutil.rmtree(tmp, ignore_errors=True)


def case_file_reuse(ctx, rseed):
    """A graph file named twice in one command, or in successive commands of one process, with modifiers on one use:
    every use must see the graph of the file."""
    import cnfgen as g
    from cnfgen.graphs import Graph
    r = ctx.rng("c17reuse", rseed)
    tmp = tempfile.mkdtemp(prefix="c17r-")
    try:
        n = 6
        E = sorted(r.sample([(u, v) for u in range(1, n + 1) for v in range(u + 1, n + 1)], 7))
        for fmt in ("kthlist", "gml", "dimacs"):
            path = os.path.join(tmp, "g." + fmt)
            Gf = Graph(n)
            for e in E:
                Gf.add_edge(*e)
            from cnfgen.graphs import writeGraph
            writeGraph(Gf, path, "simple", fmt)

            def fresh():
                H = Graph(n)
                for e in E:
                    H.add_edge(*e)
                return H
            # (a) successive commands in one process: a modified use first, then a plain use
            for first in (["matching", path, "addedges", "3"], ["kcolor", "2", path, "plantclique", "4"], ["tiling", path, "splitedges", "2"]):
                run_cli("cnfgen", first, r.randint(1, 999))
                for tool in ("cnfgen", "pbgen"):
                    K = classes(tool)
                    for tail, ref in ((["matching", path], g.PerfectMatchingPrinciple(fresh(), formula_class=K)),
                                      (["kcolor", "3", path], g.GraphColoringFormula(fresh(), 3, formula_class=K))):
                        st, F = run_cli(tool, tail, 1)
                        ctx.count("file_reuse_checks")
                        label = "%s %s (after '%s' in the same process)" % (tool, " ".join(os.path.basename(t) if t == path else t for t in tail),
                                                                           " ".join(os.path.basename(t) if t == path else t for t in first))
                        if st != "ok":
                            ctx.violation("%s:file-argument-fails" % tail[0], "%s: %s %r" % (label, st, F))
                            continue
                        same_formula(ctx, tail[0] + "[file-reuse]", label, F, ref)
                        ctx.judged(("file-reuse", fmt, tuple(first[:1]), tool, tail[0]), nontrivial=True, sample={"command": label})
            # (b) the same file twice in one command, the second use modified: the first must stay the file's graph
            st, F = run_cli("cnfgen", ["subgraph", "-G", path, "splitedges", "2", "-H", path], 5)
            st2, F2 = run_cli("cnfgen", ["subgraph", "-G", path, "splitedges", "2", "save", "kthlist", os.path.join(tmp, "big.kthlist"), "-H", path], 5)
            ctx.count("file_reuse_checks")
            if st2 == "ok":
                big = load_graph("simple", os.path.join(tmp, "big.kthlist"))
                ref = g.SubgraphFormula(big, fresh())
                same_formula(ctx, "subgraph[file-reuse]", "cnfgen subgraph -G <file> splitedges 2 -H <same file>", F2, ref)
                ctx.judged(("file-reuse-2", fmt), nontrivial=True)
            # (c) the first use stores its modified graph onto the very file the second use names: the second graph
            # argument is the file as it is when that argument is reached, i.e. what 'save' left there
            for tool in ("cnfgen", "pbgen"):
                K = classes(tool)
                for which in ("iso", "subgraph"):
                    again = os.path.join(tmp, "again." + fmt)
                    shutil.copyfile(path, again)
                    if which == "iso":
                        tail = ["iso", again, "plantclique", "4", "save", fmt, again, "-e", again]
                    else:
                        tail = ["subgraph", "-H", again, "addedges", "2", "save", fmt, again, "-G", again]
                    st3, F3 = run_cli(tool, tail, 7)
                    ctx.count("file_reuse_checks")
                    label = "%s %s" % (tool, " ".join("<file>" if t == again else t for t in tail))
                    if st3 != "ok":
                        ctx.violation("%s:file-argument-fails" % which, "%s: %s %r" % (label, st3, F3))
                        continue
                    now = load_graph("simple", again, fmt)
                    ctx.count("save_onto_the_input_file")
                    if sorted(map(tuple, now.edges())) == sorted(E):
                        ctx.violation("%s:save-did-not-store-the-modified-graph" % which, "%s: the file still holds the original graph" % label)
                        continue
                    ref = g.GraphIsomorphism(now, load_graph("simple", again, fmt), formula_class=K) if which == "iso" else \
                        g.SubgraphFormula(load_graph("simple", again, fmt), now, formula_class=K)
                    same_formula(ctx, which + "[file-reuse]", label, F3, ref)
                    ctx.judged(("file-reuse-3", fmt, tool, which), nontrivial=True, sample={"command": label})
    finally:
        shutil.rmtree(tmp, ignore_errors=True)


def case_kthlist_texts(ctx):
    """kthlist2pebbling against 'cnfgen peb' on the same kthlist text, for texts with unusual white space and control
    characters inside lines: whatever one of them makes of the file (a formula or a refusal), the other does too."""
    from ..cliharness import run_main
    base = "c steps of the proof\n5\n1 : 0\n2 : 0\n3 : 1 2 0\n4 : 2 3 0\n5 : 1 4 0\n"
    odd = ["\x0b", "\x0c", "\x1c", "\x1d", "\x1e", "\x85", "\u2028", "\u2029", "\xa0", "\t", "\r", "\u3000", "\ufeff", "\x00"]
    texts = [("plain", base), ("crlf", base.replace("\n", "\r\n")), ("trailing blanks", base.replace("\n", "  \n")),
             ("no final newline", base.rstrip("\n")), ("empty lines", base.replace("\n", "\n\n"))]
    for ch in odd:
        name = "U+%04X" % ord(ch)
        texts.append((name + " as the blank between predecessors", base.replace("3 : 1 2 0", "3 : 1" + ch + "2 0")))
        texts.append((name + " inside a comment, followed by an adjacency line's text", base.replace("c steps of the proof", "c was: " + ch + "3 : 1 0")))
        texts.append((name + " inside a comment, followed by a number", base.replace("c steps of the proof", "c was " + ch + "7")))
        texts.append((name + " at the end of a line", base.replace("4 : 2 3 0", "4 : 2 3 0" + ch)))
        texts.append((name + " before the vertex count", base.replace("\n5\n", "\n" + ch + "5\n")))
    tmp = tempfile.mkdtemp(prefix="c17k-")
    try:
        for i, (what, text) in enumerate(texts):
            path = os.path.join(tmp, "d%d.kthlist" % i)
            with open(path, "w", encoding="utf-8", newline="") as f:
                f.write(text)
            runs = {"kthlist2pebbling -i <file>": run_main("kthlist2pebbling", ["-q", "-i", path]),
                    "kthlist2pebbling < file": run_main("kthlist2pebbling", ["-q"], stdin_text=text.replace("\r\n", "\n").replace("\r", "\n")),   # as a text stream delivers it
                    "cnfgen peb kthlist <file>": run_main("cnfgen", ["-q", "peb", "kthlist", path]),
                    "cnfgen peb <file>": run_main("cnfgen", ["-q", "peb", path])}
            ctx.count("kthlist_texts_compared")
            outcome = {}
            for k, o in runs.items():
                if o.exc is not None:
                    ctx.violation("kthlist-text:raises:%s" % type(o.exc).__name__, "%s on a kthlist file with %s: %r" % (k, what, o.exc))
                    outcome[k] = ("exc",)
                elif o.rc != 0:
                    outcome[k] = ("refused",)
                else:
                    outcome[k] = ("ok", tuple(strip_comments(o.out, "c")))
            ref = outcome["cnfgen peb kthlist <file>"]
            for k, v in outcome.items():
                if v[0] != "exc" and ref[0] != "exc" and v != ref:
                    ctx.violation("kthlist2pebbling:text:%s" % ("other-formula" if v[0] == ref[0] else "one-refuses"),
                                  "kthlist file with %s: '%s' -> %s, 'cnfgen peb kthlist <file>' -> %s"
                                  % (what, k, v[0] if v[0] != "ok" else "formula with %d lines" % len(v[1]),
                                     ref[0] if ref[0] != "ok" else "formula with %d lines" % len(ref[1])))
                    break
            ctx.judged(("kthlist-text", what), nontrivial=ref[0] == "ok", sample={"file": what, "outcome": ref[0]})
    finally:
        shutil.rmtree(tmp, ignore_errors=True)


def strip_comments(text, marker):
    return [l for l in text.splitlines() if not l.startswith(marker)]


def case_compression_specs(ctx, rseed):
    """-T xorcomp / majcomp with the bipartite graph written out as a specification (random constructions, modifiers,
    `save`): the result is the library's VariableCompression of the base formula through the graph that `save` stored,
    and the same --seed gives the same formula whatever the generator's state was before."""
    import cnfgen
    r = ctx.rng("c17comp", rseed)
    tmp = tempfile.mkdtemp(prefix="c17comp-")
    try:
        bases = [(["php", "3", "2"], 6), (["and", "2", "2"], 4), (["op", "3"], 6), (["count", "4", "2"], 6)]
        for base, nv in bases:
            for kind in ("xorcomp", "majcomp"):
                for spec in (["glrd", str(nv), "4", "2"], ["glrm", str(nv), "5", str(nv + 3)], ["glrp", str(nv), "4", ".6"],
                             ["regular", str(nv), "3", "1"], ["complete", str(nv), "2"], ["empty", str(nv), "4", "addedges", str(nv + 1)],
                             ["glrd", str(nv), "5", "1", "plantbiclique", "2", "2"]):
                    out = os.path.join(tmp, "B.matrix")
                    seed = r.randint(0, 10 ** 6)
                    argv = ["cnfgen", "-q", "--seed", str(seed)] + base + ["-T", kind] + spec + ["save", out]
                    label = " ".join(argv).replace(tmp, "<dir>")
                    got = []
                    for ambient in (12345, 999):
                        random.seed(ambient)
                        try:
                            F = cli_formula("cnfgen", argv)
                        except BaseException as e:      # noqa: BLE001
                            if isinstance(e, KeyboardInterrupt) or type(e).__name__ == "CaseTimeout":
                                raise
                            got.append(("refused", type(e).__name__))
                            continue
                        got.append((F.number_of_variables(), [sorted(c) for c in F]))
                        ctx.count("compression_specs_run")
                        try:
                            B = cnfgen.readGraph(out, "bipartite", "matrix")
                            F0 = cli_formula("cnfgen", ["cnfgen", "-q"] + base)
                            R_ = cnfgen.VariableCompression(F0, B, "xor" if kind == "xorcomp" else "maj")
                            if (R_.number_of_variables(), [sorted(c) for c in R_]) != got[-1]:
                                ctx.violation("%s:not-the-compression-through-the-saved-graph" % kind,
                                              "`%s`: the formula is not VariableCompression(%s, <graph stored by save>)" % (label, " ".join(base)))
                        except Exception as e:       # noqa: BLE001
                            ctx.count("saved_graph_not_read")
                    if len(got) == 2 and got[0] != got[1]:
                        ctx.violation("%s:same-seed-different-formula" % kind, "`%s` run twice in one process with different generator states "
                                      "before the call gives two different formulas" % label)
                    ctx.judged(("comp-spec", tuple(base), kind, tuple(spec)), nontrivial=True, sample={"command": label})
    finally:
        shutil.rmtree(tmp, ignore_errors=True)


def case_option_order(ctx, rseed):
    """The modifiers of a graph argument written in another order: which modifier is applied first is the tool's
    business, not the spelling's, so with the same --seed the same formula must come out; and whatever the order,
    the graph stored by `save` is the graph the formula was built on."""
    import itertools as it
    import cnfgen
    r = ctx.rng("c17order", rseed)
    tmp = tempfile.mkdtemp(prefix="c17ord-")
    try:
        items = [("kcolor", ["3"], "simple", [["gnm", "9", "7"], ["grid", "3", "3"], ["complete", "5"], ["gnp", "8", ".4"]],
                  [["plantclique", "3"], ["addedges", "4"], ["splitedges", "2"]]),
                 ("matching", [], "simple", [["gnm", "8", "9"], ["torus", "3", "3"]], [["plantclique", "4"], ["addedges", "3"], ["splitedges", "3"]]),
                 ("php", [], "bipartite", [["glrm", "6", "5", "8"], ["glrd", "5", "6", "2"], ["empty", "4", "4"]],
                  [["plantbiclique", "2", "2"], ["addedges", "5"]]),
                 ("subsetcard", [], "bipartite", [["regular", "6", "6", "2"]], [["plantbiclique", "2", "3"], ["addedges", "4"]])]
        for sub, lead, gtype, bases, mods in items:
            for base in bases:
                mods = [tuple(m) for m in mods]
                for k in range(2, len(mods) + 1):
                    for chosen in it.combinations(mods, k):
                        seed = r.randint(0, 10 ** 6)
                        results = {}
                        for perm in it.permutations(chosen):
                            for tool in ("cnfgen", "pbgen"):
                                out = os.path.join(tmp, "g.%s" % ("kthlist" if gtype == "simple" else "matrix"))
                                spec = list(base) + [t for m in perm for t in m] + ["save", out]
                                argv = [tool, "-q", "--seed", str(seed), sub] + lead + spec
                                try:
                                    F = cli_formula(tool, argv)
                                except BaseException as e:      # noqa: BLE001
                                    if isinstance(e, KeyboardInterrupt) or type(e).__name__ == "CaseTimeout":
                                        raise
                                    results[(perm, tool)] = ("refused", type(e).__name__)
                                    continue
                                ctx.count("option_orders_run")
                                body = (F.number_of_variables(), list(F.all_variable_labels()), [list(map(repr, c)) if hasattr(F, "_constraints") else list(c) for c in F])
                                results[(perm, tool)] = ("ok", body)
                                # the stored graph is the graph of the formula
                                try:
                                    H = cnfgen.readGraph(out, gtype, "kthlist" if gtype == "simple" else "matrix")
                                    fam = {"kcolor": lambda: cnfgen.GraphColoringFormula(H, 3), "matching": lambda: cnfgen.PerfectMatchingPrinciple(H),
                                           "php": lambda: cnfgen.GraphPigeonholePrinciple(H), "subsetcard": lambda: cnfgen.SubsetCardinalityFormula(H)}[sub]
                                    if tool == "cnfgen":
                                        R_ = fam()
                                        if [list(c) for c in R_] != [list(c) for c in F] or R_.number_of_variables() != F.number_of_variables():
                                            ctx.violation("%s:saved-graph-is-not-the-graph-of-the-formula" % sub,
                                                          "`%s`: the formula differs from %s on the graph stored by save" % (" ".join(argv).replace(tmp, "<dir>"), sub))
                                except Exception:       # noqa: BLE001
                                    ctx.count("saved_graph_not_read")
                        for tool in ("cnfgen", "pbgen"):
                            first = results.get((tuple(chosen), tool))
                            for perm in it.permutations(chosen):
                                got = results.get((perm, tool))
                                if got != first:
                                    ctx.violation("%s:modifier-spelling-order-changes-the-formula" % sub,
                                                  "`%s --seed %d %s %s ...`: the modifiers written as %r give another formula than written as %r"
                                                  % (tool, seed, sub, " ".join(lead + base), [" ".join(m) for m in perm], [" ".join(m) for m in chosen]))
                                    break
                        ctx.judged(("option-order", sub, tuple(base), tuple(map(tuple, chosen))), nontrivial=True,
                                   sample={"command": "%s %s %s + %r in every order" % (sub, " ".join(lead), " ".join(base), [" ".join(m) for m in chosen])})
    finally:
        shutil.rmtree(tmp, ignore_errors=True)


def case_output_options(ctx):
    """-q / -v / --varnames / -of / -o select the rendering and change nothing else."""
    from ..refmodels import c12_opb
    tmp = tempfile.mkdtemp(prefix="c17o-")
    try:
        bases = [["php", "3", "2"], ["op", "3"], ["tseitin", "first", "grid", "2", "2"], ["count", "4", "2"], ["false"], ["and", "2", "1"]]
        for base in bases:
            F = cli_formula("cnfgen", ["cnfgen"] + base)
            want = [list(c) for c in F]
            n = F.number_of_variables()
            outs = {}
            for name, flags in (("default", []), ("-v", ["-v"]), ("-q", ["-q"]), ("--varnames", ["--varnames"]),
                                ("-q --varnames", ["-q", "--varnames"])):
                o = run_main("cnfgen", flags + base)
                ctx.count("output_option_checks")
                if o.exc is not None or o.rc not in (0, None):
                    ctx.violation("output:%s:fails" % name, "cnfgen %s %s: rc=%r exc=%r" % (name, " ".join(base), o.rc, o.exc))
                    continue
                outs[name] = o.out
                body_lines = strip_comments(o.out, "c")
                toks = " ".join(body_lines[1:]).split()
                cls, cur = [], []
                for t in toks:
                    if t == "0":
                        cls.append(cur)
                        cur = []
                    else:
                        cur.append(int(t))
                if not body_lines or body_lines[0].split() != ["p", "cnf", str(n), str(len(want))] or cls != want:
                    ctx.violation("output:%s:formula-differs" % name, "cnfgen %s %s prints another formula" % (name, " ".join(base)))
                has_comments = any(l.startswith("c") for l in o.out.splitlines())
                if name == "-q" and has_comments:
                    ctx.violation("output:-q:prints-comments", "cnfgen -q %s still prints comment lines" % " ".join(base))
                if name in ("default", "-v") and not has_comments:
                    ctx.violation("output:-v:no-header", "cnfgen %s %s prints no header" % (name, " ".join(base)))
                if "--varnames" in name:
                    vn = [l for l in o.out.splitlines() if l.startswith("c varname")]
                    if len(vn) != n:
                        ctx.violation("output:--varnames:count", "cnfgen %s %s: %d varname lines for %d variables" % (name, " ".join(base), len(vn), n))
                ctx.judged(("output", tuple(base), name), nontrivial=True, sample={"command": "cnfgen %s %s" % (name, " ".join(base))})
            if "default" in outs and "-q" in outs and strip_comments(outs["default"], "c") != strip_comments(outs["-q"], "c"):
                ctx.violation("output:-q:changes-formula", "cnfgen -q %s differs from the verbose output in a non-comment line" % " ".join(base))
            # -o file == stdout; -of opb denotes the same formula
            path = os.path.join(tmp, "out.cnf")
            o = run_main("cnfgen", ["-q", "-o", path] + base)
            ctx.count("output_option_checks")
            if o.exc is None and os.path.exists(path):
                if open(path).read() != outs.get("-q"):
                    ctx.violation("output:-o:differs-from-stdout", "cnfgen -q -o <file> %s wrote something else than stdout" % " ".join(base))
                if o.out.strip():
                    ctx.violation("output:-o:also-prints", "cnfgen -o <file> %s also wrote to stdout" % " ".join(base))
            else:
                ctx.violation("output:-o:fails", "cnfgen -o <file> %s: %r" % (" ".join(base), o))
            # without -of the format follows the extension of the output file name (.opb, .tex), DIMACS otherwise
            if base == bases[0]:
                for fname, fmt in (("opb", "dimacs"), ("tex", "dimacs"), ("xopb", "dimacs"), ("out.opb.bak", "dimacs"), ("out.texx", "dimacs"),
                                   ("out", "dimacs"), ("out.txt", "dimacs"), ("latex", "dimacs"), ("out.opb", "opb"), ("a.b.opb", "opb"),
                                   ("out.tex", "latex"), ("dimacs.tex", "latex"), ("cnf.opb", "opb")):
                  for relative in (False, True):
                    pth = os.path.join(tmp, fname)
                    if relative:
                        here = os.getcwd()
                        os.chdir(tmp)           # the name as typed in the directory itself: 'opb', 'out.opb'
                        try:
                            o = run_main("cnfgen", ["-q", "-o", fname] + base)
                        finally:
                            os.chdir(here)
                    else:
                        o = run_main("cnfgen", ["-q", "-o", pth] + base)
                    ctx.count("output_option_checks")
                    ctx.count("output_file_names_checked")
                    if o.exc is not None or o.rc not in (0, None) or not os.path.exists(pth):
                        ctx.violation("output:-o:fails", "cnfgen -q -o <dir>/%s %s: %r" % (fname, " ".join(base), o))
                        continue
                    text = open(pth).read()
                    os.unlink(pth)
                    got = "opb" if text.lstrip().startswith("* #variable=") else "dimacs" if text.lstrip().startswith("p cnf") else \
                        "latex" if "\\" in text else "unknown"
                    if got != fmt:
                        ctx.violation("output:-o:format-of-file-name", "cnfgen -q -o <dir>/%s %s wrote %s, the name asks for %s"
                                      % (fname, " ".join(base), got, fmt))
                    ctx.judged(("output-name", fname, relative), nontrivial=True, sample={"output_file": fname, "format": got})
            # the same switches on the OPB side: pbgen, and cnfgen -of opb
            for tool, pre in (("pbgen", []), ("cnfgen", ["-of", "opb"])):
                Fp = cli_formula(tool, [tool] + base)
                np_ = Fp.number_of_variables()
                for name, flags in (("default", []), ("-v", ["-v"]), ("-q", ["-q"]), ("--varnames", ["--varnames"]),
                                    ("-q --varnames", ["-q", "--varnames"]), ("--varnames -q", ["--varnames", "-q"])):
                    o = run_main(tool, pre + flags + base)
                    ctx.count("output_option_checks")
                    ctx.count("opb_output_option_checks")
                    if o.exc is not None or o.rc not in (0, None):
                        ctx.violation("output:opb:%s:fails" % name, "%s %s %s: rc=%r exc=%r" % (tool, " ".join(pre + flags), " ".join(base), o.rc, o.exc))
                        continue
                    vn = [l for l in o.out.splitlines() if l.startswith("* varname")]
                    want_names = np_ if "--varnames" in name else 0
                    if len(vn) != want_names:
                        ctx.violation("output:opb:--varnames:count", "%s %s %s: %d varname lines, %d variables, %s"
                                      % (tool, " ".join(pre + flags), " ".join(base), len(vn), np_,
                                         "names were asked for" if want_names else "names were not asked for"))
                    res = c12_opb.read_opb(o.out)
                    if isinstance(res, c12_opb.Rejection) or res.variables != np_ or len(res.rows) != len(Fp):
                        ctx.violation("output:opb:%s:formula-differs" % name, "%s %s %s prints another formula" % (tool, " ".join(pre + flags), " ".join(base)))
                    ctx.judged(("output-opb", tool, tuple(base), name), nontrivial=True, sample={"command": "%s %s %s" % (tool, " ".join(pre + flags), " ".join(base))})
            for tool in ("cnfgen", "pbgen"):
                o = run_main(tool, (["-q", "-of", "opb"] if tool == "cnfgen" else ["-q"]) + base)
                ctx.count("output_option_checks")
                res = c12_opb.read_opb(o.out)
                Fp = cli_formula(tool, [tool] + base)
                if isinstance(res, c12_opb.Rejection):
                    ctx.violation("output:opb:not-readable", "%s -of opb %s: %r" % (tool, " ".join(base), res))
                    continue
                if res.variables != Fp.number_of_variables() or res.constraints != len(Fp) or len(res.rows) != len(Fp):
                    ctx.violation("output:opb:counts", "%s opb output of %s declares %r/%r" % (tool, " ".join(base), res.variables, res.constraints))
                ctx.judged(("output-opb", tool, tuple(base)), nontrivial=True)
        # kthlist2pebbling -q
        kp = os.path.join(tmp, "dag.kthlist")
        with open(kp, "w") as f:
            f.write("3\n1 : 0\n2 : 1 0\n3 : 1 2 0\n")
        ov = run_main("kthlist2pebbling", ["-i", kp])
        oq = run_main("kthlist2pebbling", ["-q", "-i", kp])
        ctx.count("output_option_checks")
        if ov.exc is None and oq.exc is None:
            if strip_comments(ov.out, "c") != strip_comments(oq.out, "c"):
                ctx.violation("output:kthlist2pebbling:-q-changes-formula", "kthlist2pebbling -q prints another formula")
            if any(l.startswith("c") for l in oq.out.splitlines()):
                ctx.violation("output:kthlist2pebbling:-q-prints-comments", "kthlist2pebbling -q still prints the comment header")
        ctx.judged(("output", "kthlist2pebbling"), nontrivial=True)
        # cnfshuffle -q (all shuffling switched off, so that the formula is comparable)
        text = "c a comment\np cnf 3 2\n1 -2 0\n3 0\n"
        ov = run_main("cnfshuffle", ["-p", "-v", "-c"], stdin_text=text)
        oq = run_main("cnfshuffle", ["-q", "-p", "-v", "-c"], stdin_text=text)
        ctx.count("output_option_checks")
        if ov.exc is None and oq.exc is None:
            if strip_comments(ov.out, "c") != strip_comments(oq.out, "c") or strip_comments(oq.out, "c") != ["p cnf 3 2", "1 -2 0", "3 0"]:
                ctx.violation("output:cnfshuffle:-q-changes-formula", "cnfshuffle -q prints another formula: %r" % oq.out[:200])
            if any(l.startswith("c") for l in oq.out.splitlines()):
                ctx.violation("output:cnfshuffle:-q-prints-comments", "cnfshuffle -q still prints the comment header")
            if not any(l.startswith("c") for l in ov.out.splitlines()):
                ctx.violation("output:cnfshuffle:no-header", "cnfshuffle without -q prints no header")
        else:
            ctx.violation("output:cnfshuffle:fails", "cnfshuffle -p -v -c: %r / %r" % (ov, oq))
        ctx.judged(("output", "cnfshuffle"), nontrivial=True)
    finally:
        shutil.rmtree(tmp, ignore_errors=True)


def case_explicit_seed(ctx, rseed):
    """--seed S (S = 0 included) together with a graph argument that draws random numbers while the command line is
    read and a transformation that draws again when the formula is built: the result is what the library gives for the
    graph that `save` stored -- the family on that graph, then Shuffle started from seed S -- whatever the graph
    argument consumed and whatever the generator's state was before the call."""
    r = ctx.rng("c17seed", rseed)
    tmp = tempfile.mkdtemp(prefix="c17seed-")
    try:
        fams = [["kcolor", "3"], ["domset", "2"], ["tseitin", "first"], ["kclique", "3"], ["matching"]]
        specs = [["gnp", "7", ".5"], ["gnm", "7", "9"], ["gnd", "8", "3"], ["grid", "2", "3", "addedges", "2"],
                 ["gnp", "6", ".4", "plantclique", "3"], ["complete", "4", "splitedges", "2"]]
        for S in (0, 1, r.randint(2, 10 ** 6)):
            for fam in fams:
                spec = r.choice(specs)
                out = os.path.join(tmp, "G.kthlist")
                argv = ["cnfgen", "-q", "--seed", str(S)] + fam + spec + ["save", "kthlist", out, "-T", "shuffle"]
                label = " ".join(argv).replace(tmp, "<dir>")
                random.seed(r.randint(0, 10 ** 6))
                try:
                    F = cli_formula("cnfgen", argv)
                except BaseException as e:      # noqa: BLE001
                    if isinstance(e, KeyboardInterrupt) or type(e).__name__ == "CaseTimeout":
                        raise
                    ctx.count("explicit_seed_refused")       # refusals are judged by the commands cases
                    continue
                F0 = cli_formula("cnfgen", ["cnfgen", "-q"] + fam + [out])
                random.seed(S)
                R_ = lib_transform(F0, ("shuffle",))
                ctx.count("explicit_seed_runs")
                if S == 0:
                    ctx.count("explicit_seed_zero_runs")
                if (F.number_of_variables(), [list(c) for c in F]) != (R_.number_of_variables(), [list(c) for c in R_]):
                    ctx.violation("explicit-seed:not-the-library-result-from-that-seed",
                                  "`%s`: the formula is not Shuffle(%s <graph stored by save>) with the generator started from seed %d"
                                  % (label, " ".join(fam), S))
                ctx.judged(("explicit-seed", tuple(fam), tuple(spec), S), nontrivial=True, sample={"command": label})
    finally:
        shutil.rmtree(tmp, ignore_errors=True)


def workload(tier, seed):
    n = len(commands())
    seeds = [seed * 13 + 1, seed * 13 + 2] if tier == "quick" else [seed * 13 + i for i in range(1, 21)]
    step = 10
    for lo in range(0, n, step):
        yield "commands", {"lo": lo, "hi": lo + step, "seeds": seeds}
    for i in range(12 if tier == "quick" else 600):
        yield "chains", {"rseed": seed * 1000 + i, "count": 12}
    yield "files", {}
    yield "output_options", {}
    yield "kthlist_texts", {}
    for i in range(1 if tier == "quick" else 12):
        yield "option_order", {"rseed": seed * 10 + i}
        yield "compression_specs", {"rseed": seed * 10 + i}
        yield "explicit_seed", {"rseed": seed * 10 + i}
    for i in range(2 if tier == "quick" else 10):
        yield "file_reuse", {"rseed": seed * 10 + i}

"""C20 -- solve() and is_satisfiable() report what the SAT solver found.

No solver is installed here, so the bridge never runs in the repository's own
tests.  This module installs `vmon/fakesolver.py` under the supported solver
names in a scratch PATH directory and lets the real `CNF.solve()` /
`CNF.is_satisfiable()` talk to it.  The fake solver decides the formula by
brute force, speaks the I/O convention of the name it was started under, bends
its output into the requested *shape* and logs what it answered to a side file.
(On PATH sits a four-line /bin/sh launcher per name: it answers cnfgen's
`--help` installation probe itself and otherwise execs the byte-compiled fake
solver, which keeps one bridge call at ~15 ms of child processes.)

A violation is reported with a replay case of exactly that one call
(`case_single`), not the batch it was met in.

Oracles
  * the side log        -> "what the solver found" (answer, model printed, which
                           name/convention/flags were started, which formula arrived)
  * vmon.tt             -> "the assignment satisfies the formula" (and the fake
                           solver's own decision is cross-checked against it)
  * a reference reading of the documentation of sat_solve() -> which calls must be
                           refused and with which exception type
  * tempfile.tempdir is a fresh directory; an audit hook (tempfile.mkstemp,
    open+O_CREAT, os.remove, ...) keeps a created/removed ledger and the
    directory is listed after every call, successful or not.
"""
import ast
import io
import os
import shutil
import sys
import tempfile
import zlib

from .. import tt

# name -> convention, in the order cnfgen documents/tries them (reference copy: the fake
# solver speaks *this* convention, whatever cnfgen's own table says)
REF_TABLE = (("cadical", "stdin"), ("kissat", "stdin"), ("lingeling", "stdin"), ("plingeling", "stdin"),
             ("precosat", "stdin"), ("picosat", "stdin"), ("march", "filein"), ("cryptominisat", "stdin"),
             ("minisat", "fileout"), ("glucose", "stdin"), ("sat4j", "filein"))
NAMES = tuple(n for n, _ in REF_TABLE)
CONV = dict(REF_TABLE)
FAKE_SOURCE = os.path.join(os.path.dirname(os.path.dirname(os.path.abspath(__file__))), "fakesolver.py")

PYTHON_O_STRIDE = {"quick": 4, "thorough": 2}      # every n-th case is repeated in an interpreter started with -O
RULE = ("one evaluation = one call of CNF.solve() or CNF.is_satisfiable() with a fake solver on a scratch PATH. "
        "Formulas: curated corner cases (no variables, empty clause, only unused variables, unused variables "
        "between used ones, alternating-sign unique model, pigeonhole instances) and seeded random CNFs with "
        "0..8 (thorough: 0..10) variables, clause widths 0..4, 0..5n clauses; every supported name, started as "
        "'name', 'name flags', 'other' + sameas, absolute path + sameas, 'name' + sameas of another convention, "
        "and by the default search (cmd=None) over sets of installed names, the other names absent or present "
        "but not startable (no x bit / dangling link / directory) (quick: empty, singletons, 18 pairs, full, 70 "
        "seeded sets; thorough: all 2048); output shapes = literals per v line x "
        "comment placement x answer before/after model x closing 0 same line/own line/absent x shuffled x "
        "blank lines x decoy comments x exit code, result-file variants for minisat, failing shapes (s UNKNOWN, "
        "INDET, no status line, silence with exit 0/1/137, exit before reading input, 300 kB input) and garbage "
        "(unprefixed chatter, bare 's', non-numeric 'v', non-ASCII, random bytes); refusals (unknown sameas, "
        "unsupported name, absent / non-executable / dangling solver, nothing installed). distinct = (entry "
        "point, command form, sameas, installed set, shape, formula); trivial = the call must be refused "
        "before any solver process is started.")
ASSUMPTIONS = [
    "the fake solver's side log is the truth about what the solver answered; its decision is cross-checked "
    "against the truth-table engine on every run (a disagreement is a harness error, not a violation)",
    "the convention each supported name speaks is the reference table in this module (a copy of the documented "
    "table: minisat file->file, march and sat4j file->stdout, the others stdin->stdout)",
    "'the documented error' is read from the Raises sections of sat_solve/solve/is_satisfiable: RuntimeError when "
    "the solver cannot be invoked correctly or gives no answer, ValueError for an unknown sameas",
    "which installed solver the default search picks is recorded (counter default_winner_*) but not judged: the "
    "statement only requires that the answer of the solver that ran is reported",
    "garbage shapes are judged leniently: RuntimeError, or a verdict equal to the conforming answer contained in "
    "the output; any other exception type or verdict is a violation",
    "temporary files are those created below tempfile.tempdir (pointed to a fresh directory) or announced by the "
    "tempfile audit events during the call",
]
REQUIRED = ["conv_stdin_runs", "conv_filein_runs", "conv_fileout_runs"] + ["solver_%s_runs" % n for n in NAMES] + [
    "method_solve", "method_is_satisfiable", "answered_sat", "answered_unsat", "answered_none",
    "verdict_true_ok", "verdict_false_ok", "failing_solver_runtimeerror_ok",
    "witness_checked_against_truth_table", "solver_decision_cross_checked",
    "shape_multiple_v_lines", "shape_comments_interleaved", "shape_answer_after_model", "shape_no_closing_zero",
    "shape_zero_on_own_line", "shape_shuffled_model", "shape_decoy_comments", "shape_blank_lines",
    "shape_unknown", "shape_noanswer", "shape_silent", "shape_early", "shape_garbage", "shape_exit_10_20",
    "resultfile_split_lines", "resultfile_empty", "big_input_runs",
    "formula_zero_variables", "formula_empty_clause", "formula_unused_variables", "formula_satisfiable",
    "formula_unsatisfiable",
    "cmd_plain", "cmd_flags", "cmd_sameas_other", "cmd_sameas_path", "cmd_sameas_cross", "flags_seen_by_solver",
    "default_search_calls", "default_search_runs", "default_search_skipped_broken", "default_winner_first_in_table",
    "refusal_unknown_sameas_ok", "refusal_unsupported_ok", "refusal_absent_ok", "refusal_nothing_installed_ok",
    "refusal_not_executable_ok",
    "temp_files_created", "temp_files_removed", "ledger_checks", "ledger_checks_after_failure",
    "tempdir_listings_empty"]
CASE_TIMEOUT = {"quick": 180, "thorough": 900}


# --------------------------------------------------------------------------- temp-file ledger
_LEDGER = {"installed": False, "armed": False, "root": None, "created": [], "removed": []}


def _audit(event, args):
    L = _LEDGER
    if not L["armed"]:
        return
    try:
        if event in ("tempfile.mkstemp", "tempfile.mkdtemp"):
            p = os.fsdecode(args[0])
            if p not in L["created"]:
                L["created"].append(p)
        elif event == "open":
            path, _, flags = args
            if isinstance(path, (str, bytes)) and isinstance(flags, int) and flags & os.O_CREAT:
                p = os.path.abspath(os.fsdecode(path))
                if p.startswith(L["root"] + os.sep) and p not in L["created"]:
                    L["created"].append(p)
        elif event in ("os.remove", "os.rmdir", "shutil.rmtree"):
            if isinstance(args[0], (str, bytes)):
                L["removed"].append(os.path.abspath(os.fsdecode(args[0])))
        elif event == "os.rename":
            src, dst = os.path.abspath(os.fsdecode(args[0])), os.path.abspath(os.fsdecode(args[1]))
            L["removed"].append(src)
            if dst not in L["created"]:
                L["created"].append(dst)
    except Exception:       # noqa: BLE001 - a monitor never raises through the code under test
        pass


def _install_ledger():
    if not _LEDGER["installed"]:
        sys.addaudithook(_audit)
        _LEDGER["installed"] = True


def _tree(root):
    out = []
    for d, dirs, files in os.walk(root):
        for x in dirs + files:
            out.append(os.path.relpath(os.path.join(d, x), root))
    return sorted(out)


# --------------------------------------------------------------------------- the bench
_ENV_KEYS = ("PATH", "FAKESAT_LOG", "FAKESAT_CONV", "FAKESAT_SHAPE", "FAKESAT_SEED")


class Bench:
    """Scratch PATH directory + fresh tempfile.tempdir + side log; everything restored on exit."""
    count = 0

    def __enter__(self):
        import cnfgen           # noqa: F401 - importing it runs `git`; must happen while PATH is intact
        _install_ledger()
        self.saved_env = {k: os.environ.get(k) for k in _ENV_KEYS}
        self.saved_tempdir = tempfile.tempdir
        self.root = tempfile.mkdtemp(prefix="vmon-c20-", dir="/tmp")
        try:
            self.bin = os.path.join(self.root, "bin")
            # every other bench puts the temporary directory under a path with a blank in it
            Bench.count += 1
            self.tmp = os.path.join(self.root, "tmp dir" if Bench.count % 2 else "tmp")
            self.log = os.path.join(self.root, "solver.log")
            os.mkdir(self.bin)
            os.mkdir(self.tmp)
            # the solver proper is a byte-compiled copy of vmon/fakesolver.py; what is put on PATH is a
            # launcher that answers the `--help` probe itself and otherwise execs the interpreter on it
            import py_compile
            pyc = os.path.join(self.root, "fakesolver.pyc")
            py_compile.compile(FAKE_SOURCE, cfile=pyc, doraise=True)
            self.fake = os.path.join(self.root, "launcher")
            with open(self.fake, "w", encoding="utf-8") as f:
                if os.access("/bin/sh", os.X_OK):
                    f.write('#!/bin/sh\n[ "$#" = 1 ] && [ "$1" = "--help" ] && exit 0\n'
                            'FAKESAT_NAME="${0##*/}"; export FAKESAT_NAME\n'
                            'exec %s -SE %s "$@"\n' % (sys.executable, pyc))
                else:
                    f.write("#!%s -SE\nimport os, sys\nif sys.argv[1:] == ['--help']:\n    sys.exit(0)\n"
                            "os.environ['FAKESAT_NAME'] = os.path.basename(sys.argv[0])\n"
                            "os.execv(%r, [%r, '-SE', %r] + sys.argv[1:])\n"
                            % (sys.executable, sys.executable, sys.executable, pyc))
            os.chmod(self.fake, 0o755)
            os.environ["PATH"] = self.bin
            os.environ["FAKESAT_LOG"] = self.log
            tempfile.tempdir = self.tmp
        except BaseException:
            self.__exit__(None, None, None)
            raise
        return self

    def __exit__(self, *exc):
        _LEDGER["armed"] = False
        tempfile.tempdir = self.saved_tempdir
        for k, v in self.saved_env.items():
            if v is None:
                os.environ.pop(k, None)
            else:
                os.environ[k] = v
        shutil.rmtree(self.root, ignore_errors=True)
        return False

    def install(self, names, broken=None):
        """`names` become working solvers; broken: name -> 'noexec' | 'dangling' | 'dir'."""
        self.installed = (sorted(names), dict(broken or {}))
        for x in os.listdir(self.bin):
            p = os.path.join(self.bin, x)
            if os.path.isdir(p) and not os.path.islink(p):
                os.rmdir(p)
            else:
                os.unlink(p)
        for n in names:
            os.symlink(self.fake, os.path.join(self.bin, n))
        for n, how in (broken or {}).items():
            p = os.path.join(self.bin, n)
            if how == "noexec":
                shutil.copyfile(self.fake, p)
                os.chmod(p, 0o644)
            elif how == "dangling":
                os.symlink(os.path.join(self.root, "no-such-file"), p)
            elif how == "badinterp":                 # executable, but its #! interpreter does not exist
                with open(p, "w") as f:
                    f.write("#!%s\nprint('s SATISFIABLE')\n" % os.path.join(self.root, "no-such-interpreter"))
                os.chmod(p, 0o755)
            elif how == "emptyexec":                 # an empty file with the x bit: neither a script nor a binary
                open(p, "w").close()
                os.chmod(p, 0o755)
            elif how == "notbinary":                 # the x bit on something the kernel cannot run
                with open(p, "wb") as f:
                    f.write(bytes(range(1, 200)))
                os.chmod(p, 0o755)
            else:
                os.mkdir(p)

    def clean_tmp(self):
        for x in os.listdir(self.tmp):
            p = os.path.join(self.tmp, x)
            if os.path.isdir(p) and not os.path.islink(p):
                shutil.rmtree(p, ignore_errors=True)
            else:
                os.unlink(p)


# --------------------------------------------------------------------------- formulas
def canonical_crc(n, clauses):
    text = "%d;" % n + ";".join(" ".join(map(str, c)) for c in clauses)
    return zlib.crc32(text.encode("ascii"))


CURATED_FORMULAS = [
    ("no-variables", 0, []),
    ("no-variables-empty-clause", 0, [[]]),
    ("only-unused-variables", 3, []),
    ("unit-positive", 1, [[1]]),
    ("unit-negative", 1, [[-1]]),
    ("contradicting-units", 1, [[1], [-1]]),
    ("unused-between-used", 5, [[2, -4], [-2, -4], [4, 2]]),
    ("unsat-with-unused", 4, [[1, 2], [-1, 2], [1, -2], [-1, -2]]),
    ("empty-clause-among-others", 3, [[1, -2, 3], []]),
    ("alternating-signs", 8, [[-1], [2], [-3], [4], [-5], [6], [-7], [8]]),
    ("negative-then-positive", 6, [[-6], [5], [-4, 6], [3], [-2], [1, 2]]),
    # multi-digit variables: 10, 20, 30 and 100 are where digit-level slips in an answer parser show
    ("ten-variables-planted", 10, [[v if v % 3 else -v] for v in range(1, 11)] + [[1, -3, 10], [-9, 10]]),
    ("twenty-variables-planted", 20, [[v if v % 2 else -v] for v in range(20, 0, -1)] + [[19, 20], [-20, 1, 2]]),
    ("thirty-variables-planted", 30, [[-v if v % 5 else v] for v in range(1, 31)] + [[30, -29], [10, 20, 30]]),
    ("hundred-variables-planted", 100, [[v] for v in range(1, 101)] + [[100, -1], [50, 60, -70]]),
    ("thirty-variables-contradiction", 30, [[v] for v in range(1, 31)] + [[-30]]),
]


def build(n, clauses):
    from cnfgen import CNF
    F = CNF()
    F.update_variable_number(n)
    for c in clauses:
        F.add_clause(list(c))
    return F


def family(tag):
    import cnfgen
    if tag == "php32":
        return cnfgen.PigeonholePrinciple(3, 2)
    if tag == "php22":
        return cnfgen.PigeonholePrinciple(2, 2)
    if tag == "bphp32":
        return cnfgen.BinaryPigeonholePrinciple(3, 2)
    return cnfgen.OrderingPrinciple(3)


FAMILIES = ("php32", "php22", "bphp32", "op3")


def random_formula(r, maxn):
    n = r.randint(0, maxn)
    if n == 0:
        return 0, [[] for _ in range(1 if r.random() < 0.3 else 0)]
    used = [v for v in range(1, n + 1) if r.random() < 0.8] or [r.randint(1, n)]
    dens = r.choice((0.5, 1.5, 3.0, 4.5, 6.0))
    m = r.randint(0, int(dens * len(used)) + 1)
    clauses = []
    for _ in range(m):
        x = r.random()
        w = 0 if x < 0.02 else 1 if x < 0.15 else 2 if x < 0.5 else 3 if x < 0.9 else 4
        w = min(w, len(used))
        vs = r.sample(used, w)
        clauses.append([v if r.random() < 0.5 else -v for v in vs])
    return n, clauses


# --------------------------------------------------------------------------- shapes
def shape_str(sh):
    return ";".join("%s=%s" % (k, sh[k]) for k in sorted(sh))


def curated_shapes(conv):
    if conv == "fileout":
        ans = [{"replace": "rename"}, {"replace": "unlink", "per": 2}, {}, {"per": 2}, {"per": 1, "zero": "own"}, {"zero": "absent"}, {"eol": 0, "per": 3},
               {"stdout": 0, "exit": 0}, {"shuffle": 1, "per": 2, "zero": "absent"}]
    else:
        ans = [{}, {"per": 1}, {"per": 2}, {"per": 3, "comments": "inter"}, {"order": "last", "per": 2},
               {"zero": "absent"}, {"zero": "absent", "per": 2, "order": "last"}, {"zero": "own"},
               {"decoy": 1, "comments": "all"}, {"blank": 1, "per": 2, "exit": 0},
               {"per": 1, "comments": "all", "order": "last", "zero": "own", "shuffle": 1, "blank": 1,
                "decoy": 1, "exit": 0},
               {"shuffle": 1, "per": 3, "zero": "absent"}]
    ans += [{"stderr": 1}, {"stderr": 2, "per": 2}]
    out = [dict(s, kind="answer") for s in ans]
    out += [{"kind": "unknown"}, {"kind": "unknown", "word": "INDETERMINATE"}, {"kind": "noanswer"},
            {"kind": "silent", "exit": 1}, {"kind": "silent", "exit": 0}, {"kind": "silent", "exit": 137},
            {"kind": "early"}]
    return out


GARBAGE = ("noise", "junkonly", "bare-s", "bare-s-after", "oneword", "v-nonint", "nonascii", "nonascii-result",
           "binary")


def random_shape(r, conv, allow_garbage=True):
    x = r.random()
    if x < 0.64 or (x >= 0.86 and not allow_garbage):
        sh = {"kind": "answer", "per": r.choice((0, 0, 1, 2, 3, 5)), "zero": r.choice(("same", "same", "own", "absent")),
              "shuffle": r.choice((0, 0, 1)), "pick": "%s:%d" % (r.choice(("lo", "hi")), r.choice((0, 0, 1, 2, 5, 11))),
              "exit": r.choice(("std", "std", 0))}
        if conv == "fileout":
            sh["replace"] = r.choice((0, 0, "rename", "unlink"))
            sh["eol"] = r.choice((1, 1, 0))
            sh["stdout"] = r.choice((1, 1, 0))
        else:
            sh["comments"] = r.choice(("none", "head", "inter", "tail", "all"))
            sh["order"] = r.choice(("first", "first", "last"))
            sh["blank"] = r.choice((0, 0, 1))
            sh["decoy"] = r.choice((0, 0, 1))
        if r.random() < 0.3:
            sh["stderr"] = r.choice((1, 2))
        return sh
    if x < 0.86:
        k = r.choice(("unknown", "noanswer", "silent", "early"))
        sh = {"kind": k}
        if k == "unknown":
            sh["word"] = r.choice(("UNKNOWN", "INDETERMINATE", "TIMEOUT"))
        if k == "silent":
            sh["exit"] = r.choice((0, 1, 2, 137))
        return sh
    sh = {"kind": "garbage", "g": r.choice(GARBAGE), "per": r.choice((0, 2)), "exit": r.choice(("std", 0, 1))}
    if conv != "fileout":
        sh["comments"] = r.choice(("none", "inter"))
    return sh


def count_shape(ctx, sh, conv, model):
    k = sh.get("kind", "answer")
    ctx.count("shape_" + k)
    if k != "answer":
        return
    nl = len(model or ())
    per = int(sh.get("per", 0))
    if model is not None:
        if per and nl > per:
            ctx.count("shape_multiple_v_lines" if conv != "fileout" else "resultfile_split_lines")
        if sh.get("zero") == "absent":
            ctx.count("shape_no_closing_zero")
        if sh.get("zero") == "own":
            ctx.count("shape_zero_on_own_line")
        if str(sh.get("shuffle", 0)) == "1" and nl > 1:
            ctx.count("shape_shuffled_model")
        if conv != "fileout" and sh.get("order") == "last":
            ctx.count("shape_answer_after_model")
    if conv != "fileout":
        if sh.get("comments") in ("inter", "all"):
            ctx.count("shape_comments_interleaved")
        if str(sh.get("decoy", 0)) == "1":
            ctx.count("shape_decoy_comments")
        if str(sh.get("blank", 0)) == "1":
            ctx.count("shape_blank_lines")
    if sh.get("exit", "std") == "std":
        ctx.count("shape_exit_10_20")


# --------------------------------------------------------------------------- reference semantics of a call
def reference(cmd, sameas, usable, bench):
    """What the documentation of sat_solve() promises for (cmd, sameas) when exactly the
    programs in `usable` can be started:  ('error', type name, why) | ('run', program, convention, flags)."""
    if sameas is not None and sameas not in NAMES:
        return ("error", "ValueError", "unknown_sameas")
    if cmd is None or not cmd.split():
        for n in NAMES:
            if n in usable:
                return ("run", n, CONV[n], [])
        return ("error", "RuntimeError", "nothing_installed")
    parts = cmd.split()
    prog, flags = parts[0], parts[1:]
    if prog not in NAMES and sameas is None:
        return ("error", "RuntimeError", "unsupported")
    base = os.path.basename(prog)
    reachable = base in usable and (prog == base or prog == os.path.join(bench.bin, base))
    if not reachable:
        return ("error", "RuntimeError", "absent")
    return ("run", base, CONV[sameas or prog], flags)


# --------------------------------------------------------------------------- one monitored call
def make_formula(spec):
    """spec (JSON-able, what a replay file carries): {'family': tag} | {'label', 'n', 'clauses'} |
    {'label', 'n', 'base', 'times'} (the base clauses repeated cyclically)."""
    if "family" in spec:
        return Formula(spec["family"], family(spec["family"]), spec=spec)
    n = spec["n"]
    if "clauses" in spec:
        clauses = [list(c) for c in spec["clauses"]]
    else:
        clauses = [list(spec["base"][i % len(spec["base"])]) for i in range(spec["times"])]
    return Formula(spec.get("label", "formula"), build(n, clauses), n, clauses, spec=spec)


class Formula:
    def __init__(self, label, F, n=None, clauses=None, spec=None):
        self.label, self.F, self.spec = label, F, spec
        self.n = F.number_of_variables() if n is None else n
        self.clauses = [list(c) for c in F] if clauses is None else clauses
        # up to 18 variables the truth table is the reference; larger formulas are *planted* (every variable
        # forced by unit clauses, or two contradicting units) so that their status is known by construction
        self.big = self.n > 18
        if self.big:
            forced = {}
            self.known_sat = True
            for c in self.clauses:
                if len(c) == 1:
                    if forced.get(abs(c[0]), c[0]) != c[0]:
                        self.known_sat = False
                    forced[abs(c[0])] = c[0]
            if self.known_sat and len(forced) != self.n:
                raise AssertionError("large formulas must force every variable by a unit clause")
            self.models = self.known_sat          # truthiness only
        else:
            self.models = tt.models_cnf(self.n, self.clauses)
        self.crc = canonical_crc(self.n, self.clauses)
        self.key = (self.n, tuple(map(tuple, self.clauses))) if len(self.clauses) <= 200 else (self.n, self.crc)

    def satisfied_by(self, lits):
        """is the total assignment given by `lits` a model?"""
        if not self.big:
            return bool((self.models >> tt.index_of([l for l in lits if l > 0])) & 1)
        true = set(lits)
        return len(true) == self.n and all(any(l in true for l in c) for c in self.clauses)

    def count(self, ctx):
        if self.big:
            ctx.count("formula_more_than_18_variables")
        if self.n == 0:
            ctx.count("formula_zero_variables")
        if any(len(c) == 0 for c in self.clauses):
            ctx.count("formula_empty_clause")
        used = {abs(l) for c in self.clauses for l in c}
        if len(used) < self.n:
            ctx.count("formula_unused_variables")
        ctx.count("formula_satisfiable" if self.models else "formula_unsatisfiable")


def bridge(ctx, bench, fm, method, cmd, sameas, verbose, sh, usable, convmap=None, seed=0, tag="", what=None):
    """Run one call of the code under test and judge it.  `usable` = names that can be started."""
    exp = reference(cmd, sameas, usable, bench)
    conv_env = dict(CONV)
    conv_env.update(convmap or {})
    if exp[0] == "run":
        conv_env[exp[1]] = exp[2]
    os.environ["FAKESAT_CONV"] = ",".join("%s=%s" % kv for kv in sorted(conv_env.items()))
    os.environ["FAKESAT_SHAPE"] = shape_str(sh)
    os.environ["FAKESAT_SEED"] = str(seed)
    open(bench.log, "w").close()
    F = fm.F
    fn = F.solve if method == "solve" else F.is_satisfiable
    kw = {"cmd": cmd, "sameas": sameas}
    if method == "solve" and verbose is not None:
        kw["verbose"] = verbose
        if verbose >= 2 and sh.get("stderr") and exp[0] == "run":
            ctx.count("solver_stderr_chatter_while_verbose")
    L = _LEDGER
    L["created"], L["removed"], L["root"] = [], [], bench.tmp
    old_err = sys.stderr
    sys.stderr = io.StringIO()
    L["armed"] = True
    try:
        st, val = ctx.call(fn, **kw)
    finally:
        L["armed"] = False
        sys.stderr = old_err
    ctx.count("method_" + method)

    runs = []
    for line in open(bench.log, encoding="ascii", errors="replace"):
        line = line.strip()
        if line:
            runs.append(ast.literal_eval(line))
    left = _tree(bench.tmp)
    created, removed = list(L["created"]), set(L["removed"])

    shown_cmd = None if cmd is None else cmd.replace(bench.bin, "<bin>")
    call = "%s(cmd=%r, sameas=%r%s)" % (method, shown_cmd, sameas,
                                        ", verbose=%r" % verbose if "verbose" in kw else "")
    where = "%s on %s [%s] shape {%s}" % (call, fm.label, "installed: " + ",".join(sorted(usable)), shape_str(sh))
    outcome = repr(val) if st == "ok" else "raised %r" % (val,)
    if len(outcome) > 300:
        outcome = outcome[:300] + "..."

    def bad(mech, msg, **detail):
        # the replay of a violation is this one call, not the batch it was met in
        batch = ctx.case
        if fm.spec is not None:
            ctx.case = ["single", {"formula": fm.spec, "method": method, "cmd": shown_cmd, "sameas": sameas,
                                   "verbose": verbose, "shape": dict(sh), "installed": bench.installed[0],
                                   "broken": bench.installed[1], "usable": sorted(usable), "seed": seed,
                                   "what": what,
                                   "met_in": batch[1].get("met_in") if batch and batch[0] == "single" else batch}]
        try:
            ctx.violation(mech, "%s: %s" % (where, msg), call=call, formula={"n": fm.n, "clauses": fm.clauses[:40]},
                          outcome=outcome, solver_log=[{k: r.get(k) for k in ("name", "conv", "flags", "answered",
                                                                              "dec", "model", "err")} for r in runs[:3]],
                          **detail)
        finally:
            ctx.case = batch

    # ---- temporary files: judged after every call, whatever its outcome
    failed = st == "exc"
    ctx.count("ledger_checks")
    if failed:
        ctx.count("ledger_checks_after_failure")
    ctx.count("temp_files_created", len(created))
    ctx.count("temp_files_removed", sum(1 for p in created if p in removed))
    conv_seen = runs[-1]["conv"] if runs else (exp[2] if exp[0] == "run" else "none")
    stray = [p for p in created if not p.startswith(bench.tmp + os.sep) and os.path.lexists(p)]
    if left or stray:
        bad("tempfile:left-behind:%s-convention" % conv_seen,
            "temporary file(s) still present after the call %s: %r"
            % ("failed" if failed else "returned", left + stray),
            created=[os.path.basename(p) for p in created], after_failure=failed)
        bench.clean_tmp()
        for p in stray:
            try:
                os.unlink(p)
            except OSError:
                pass
    else:
        ctx.count("tempdir_listings_empty")
        ghosts = [p for p in created if p not in removed]
        if ghosts:
            ctx.count("ledger_removed_unseen")        # gone, but the hook did not see how: recorded only

    # ---- the call itself
    is_solve = method == "solve"
    exc_name = type(val).__name__ if failed else None
    if exp[0] == "error":
        _, want, why = exp
        if runs:
            bad("refusal:solver-started-anyway:%s" % why, "a solver process was started although the call must be refused")
        if not failed:
            bad("refusal:%s-answered-with-a-verdict" % why, "returned %s instead of raising %s" % (outcome, want))
        elif exc_name != want:
            bad("refusal:%s-raises-%s" % (why, "undocumented-type"),
                "raised %r, the documented error is %s" % (val, want))
        else:
            ctx.count({"unknown_sameas": "refusal_unknown_sameas_ok", "unsupported": "refusal_unsupported_ok",
                       "absent": "refusal_absent_ok", "nothing_installed": "refusal_nothing_installed_ok"}[why])
        ctx.judged(("refuse", method, shown_cmd, sameas, tuple(sorted(usable)), tag), nontrivial=False)
        return st, val

    _, prog, conv, flags = exp
    if not runs:
        if failed:
            bad("invocation:reachable-solver-not-started",
                "%s is installed and supported but was never started; raised %r" % (prog, val))
        else:
            bad("invocation:verdict-without-running-a-solver", "returned %s but no solver process ran" % outcome)
        ctx.judged(("norun", method, shown_cmd, sameas, shape_str(sh), fm.key, tag))
        return st, val
    if len(runs) > 1:
        ctx.count("solver_started_more_than_once")
    run = runs[-1]
    ctx.count("solver_%s_runs" % run["name"] if run["name"] in NAMES else "solver_other_name_runs")
    ctx.count("conv_%s_runs" % run["conv"])
    ctx.count(what or "cmd_other")
    kind = sh.get("kind", "answer")
    if what != "default_search_runs" and run["name"] != prog:
        bad("invocation:wrong-program-started", "%r ran, the command names %r" % (run["name"], prog))
    if run["err"] and run["err"].startswith("usage"):
        bad("invocation:wrong-convention-used",
            "the solver was started against its convention (%s): %s" % (run["conv"], run["err"]))
    elif run["err"] and run["err"].startswith("input"):
        bad("solver-input:not-dimacs", "the solver could not read what it was given: %s" % run["err"])
    elif run["err"]:
        raise AssertionError("fake solver: %s" % run["err"])
    if run["flags"] != flags:
        bad("invocation:flags-not-passed-through", "solver saw flags %r, the command line has %r" % (run["flags"], flags))
    elif flags:
        ctx.count("flags_seen_by_solver")
    if run["crc"] is not None:
        if (run["n"], run["m"], run["crc"]) != (fm.n, len(fm.clauses), fm.crc):
            bad("solver-input:differs-from-formula",
                "the solver received n=%r m=%r clauses=%r" % (run["n"], run["m"], run["clauses"]))
        else:
            # the stand-in must itself be right about the formula it received
            if (run["dec"] == "SAT") != bool(fm.models):
                raise AssertionError("fake solver decided %r, the reference says satisfiable=%r" % (run["dec"], bool(fm.models)))
            if run["model"] is not None and not fm.satisfied_by(run["model"]):
                raise AssertionError("fake solver printed a non-model %r" % (run["model"],))
            ctx.count("solver_decision_cross_checked")
    answered = run["answered"]
    ctx.count("answered_" + answered)
    count_shape(ctx, sh, run["conv"], run["model"] if answered == "sat" else None)
    if kind == "silent" and run["conv"] == "fileout":
        ctx.count("resultfile_empty")
    lenient = kind == "garbage"

    verdict, have_verdict = None, False
    if failed:
        if exc_name == "RuntimeError":
            if answered == "none":
                ctx.count("failing_solver_runtimeerror_ok")
            elif lenient:
                ctx.count("garbage_rejected_with_runtimeerror")
            else:
                bad("working-solver:answer-rejected",
                    "the solver answered %s in a conforming way but the call raised %r" % (answered, val))
        elif answered == "none" or lenient:
            bad("failing-solver:unparsable-output-raises-undocumented-exception",
                "the solver gave %s; the call raised %r, the documented error is RuntimeError"
                % ("no usable answer" if answered == "none" else "an answer wrapped in garbage", val))
        else:
            bad("working-solver:call-raises-undocumented-exception",
                "the solver answered %s in a conforming way but the call raised %r" % (answered, val))
    else:
        if is_solve:
            if not (isinstance(val, tuple) and len(val) == 2):
                bad("result:not-a-pair", "solve() returned %s" % outcome)
            else:
                verdict, have_verdict = val[0], True
        else:
            verdict, have_verdict = val, True
        if have_verdict:
            if verdict is not True and verdict is not False:
                bad("result:verdict-not-a-bool", "the verdict is %r" % (verdict,))
            elif answered == "none":
                bad("failing-solver:verdict-returned-without-an-answer",
                    "the solver gave no answer (%s) but the call returned %s" % (kind, outcome))
            elif verdict != (answered == "sat"):
                bad("%s-answer:opposite-verdict-returned" % answered,
                    "the solver answered %s, the call returned %s" % (answered, outcome))
            elif verdict:
                ok = True
                if is_solve:
                    ok = judge_witness(ctx, bad, fm, run, val[1])
                if ok:
                    ctx.count("verdict_true_ok")
                    if lenient:
                        ctx.count("garbage_answer_extracted")
            else:
                if is_solve and val[1] is not None:
                    bad("unsat-answer:witness-not-None", "returned %s for an unsatisfiable answer" % outcome)
                else:
                    ctx.count("verdict_false_ok")
                    if lenient:
                        ctx.count("garbage_answer_extracted")
    ctx.judged((what or "run", method, shown_cmd, sameas, tuple(sorted(usable)) if what == "default_search_runs" else None,
                verbose, shape_str(sh), fm.key, tag),
               sample={"call": call, "formula": fm.label, "n": fm.n, "clauses": fm.clauses[:12],
                       "shape": shape_str(sh), "solver": {k: run.get(k) for k in ("name", "conv", "flags", "answered", "model")},
                       "outcome": outcome, "temp_files_created": len(created), "left_behind": left})
    return st, val


def judge_witness(ctx, bad, fm, run, w):
    """solve() returned (True, w) and the solver answered satisfiable with run['model']."""
    if w is None and fm.n == 0:
        bad("sat-answer:witness-is-None-for-formula-without-variables",
            "satisfiable formula without variables: the assignment is the empty one, the call returned (True, None)")
        return False
    if not isinstance(w, (list, tuple)) or not all(isinstance(l, int) and not isinstance(l, bool) and l != 0 for l in w):
        bad("sat-answer:witness-malformed", "the assignment is %r" % (w,))
        return False
    w = list(w)
    if [abs(l) for l in w] != sorted(abs(l) for l in w):
        bad("sat-answer:witness-not-ordered-by-variable", "the assignment %r is not ordered by variable" % (w,))
        return False
    if len({abs(l) for l in w}) != len(w):
        bad("sat-answer:witness-repeats-a-variable", "the assignment %r mentions a variable twice" % (w,))
        return False
    if sorted(w, key=abs) != sorted(run["model"], key=abs):
        bad("sat-answer:witness-differs-from-solver-model",
            "the solver printed the model %r, the call returned %r" % (sorted(run["model"], key=abs), w))
        return False
    ctx.count("witness_checked_against_truth_table")
    if any(abs(l) > fm.n for l in w) or len(w) != fm.n or not fm.satisfied_by(w):
        bad("sat-answer:witness-does-not-satisfy-formula", "the assignment %r is not a total model" % (w,))
        return False
    return True


# --------------------------------------------------------------------------- command forms
FLAGSETS = (["-no-pre"], ["--plain"], ["-v", "-model"], ["--seed=3", "-q"], ["-verb=0"])


def command_form(r, bench, name, form):
    """-> (cmd, sameas, usable names, extra convention entries, counter)"""
    if form == "plain":
        return name, None, {name}, {}, "cmd_plain"
    if form == "flags":
        fl = r.choice(FLAGSETS)
        sep = r.choice((" ", "  ", "\t", " \t "))
        cmd = r.choice(("", " ")) + name + sep + sep.join(fl) + r.choice(("", " ", "\n"))
        return cmd, None, {name}, {}, "cmd_flags"
    if form == "sameas-other":
        other = r.choice(("my-hacked-solver", "patched-%s" % name, "solver.sh", "MiniSat", "minisat2"))
        fl = r.choice(((),) + tuple(map(tuple, FLAGSETS)))
        return " ".join((other,) + tuple(fl)), name, {other}, {}, "cmd_sameas_other"
    if form == "sameas-path":
        other = r.choice((name, "tool-%s" % name))
        return os.path.join(bench.bin, other), name, {other}, {}, "cmd_sameas_path"
    if form == "sameas-cross":
        others = [n for n in NAMES if CONV[n] != CONV[name]]
        other = r.choice(others)            # a supported name driven through another name's interface
        return other, name, {other}, {}, "cmd_sameas_cross"
    raise ValueError(form)


FORMS = ("plain", "flags", "sameas-other", "sameas-path", "sameas-cross")


# --------------------------------------------------------------------------- cases
def case_single(ctx, formula, method, cmd, sameas, verbose, shape, installed, broken, usable, seed, what,
                met_in=None):
    """Exactly one call (what a replay file of this module re-executes)."""
    tt.selfcheck()
    fm = make_formula(formula)
    with Bench() as bench:
        bench.install(installed, broken)
        fm.count(ctx)
        bridge(ctx, bench, fm, method, None if cmd is None else cmd.replace("<bin>", bench.bin), sameas, verbose,
               shape, set(usable), seed=seed, tag="single", what=what)


LIGHT = ("no-variables", "no-variables-empty-clause", "unused-between-used", "unsat-with-unused",
         "alternating-signs", "ten-variables-planted", "thirty-variables-planted", "hundred-variables-planted")


def case_curated(ctx, name, form, light=False):
    """Curated formulas x curated shapes for one solver name and command form, both entry points."""
    tt.selfcheck()
    r = ctx.rng("c20-curated", name, form)
    conv = CONV[name]
    formulas = [make_formula({"label": lbl, "n": n, "clauses": cl}) for lbl, n, cl in CURATED_FORMULAS
                if not light or lbl in LIGHT]
    if not light:
        formulas += [make_formula({"family": t}) for t in FAMILIES[:2]]
    with Bench() as bench:
        i = 0
        for fm in formulas:
            for sh in curated_shapes(conv):
                if sh["kind"] != "answer" and fm.label not in (
                        ("no-variables", "unused-between-used") if light else
                        ("no-variables", "unused-between-used", "unsat-with-unused", "php32")):
                    continue
                if sh["kind"] == "answer" and not fm.models and len(sh) > 1 and \
                        not set(sh) & {"comments", "decoy", "blank", "exit", "stdout"}:
                    continue            # model-layout variations mean nothing for an unsatisfiable answer
                if sh["kind"] == "answer" and fm.n <= 1 and ("per" in sh or "shuffle" in sh):
                    continue            # ... nor for a model of at most one literal
                cmd, sameas, usable, cm, what = command_form(r, bench, name, form)
                bench.install(usable)
                method = "solve" if (i % 3) else "is_satisfiable"
                if sh["kind"] == "answer" and fm.models and method != "solve" and fm.n <= 1:
                    method = "solve"
                if "stderr" in sh:
                    method = "solve"
                i += 1
                fm.count(ctx)
                bridge(ctx, bench, fm, method, cmd, sameas, 2 if "stderr" in sh else (None, 0, 1, 2)[i % 4], sh,
                       usable, cm, seed=i, tag="curated", what=what)


def case_random(ctx, name, form, batch, count, maxn):
    tt.selfcheck()
    r = ctx.rng("c20-random", name, form, batch)
    with Bench() as bench:
        for i in range(count):
            if r.random() < 0.08:
                t = r.choice(FAMILIES)
                fm = make_formula({"family": t})
            else:
                n, cl = random_formula(r, maxn)
                fm = make_formula({"label": "random", "n": n, "clauses": cl})
            cmd, sameas, usable, cm, what = command_form(r, bench, name, form)
            conv = CONV[name]
            sh = random_shape(r, conv)
            extra = set(r.sample(NAMES, r.randint(0, 3)))      # other solvers lying around do not matter
            base = os.path.basename(cmd.split()[0])
            extra.discard(base)
            bench.install(usable | extra)
            method = "solve" if r.random() < 0.65 else "is_satisfiable"
            fm.count(ctx)
            bridge(ctx, bench, fm, method, cmd, sameas, r.choice((None, 0, 1, 2, -1)), sh, usable | extra, cm,
                   seed=r.randint(0, 10 ** 6), tag="random", what=what)


def case_early_answer(ctx, rseed):
    """Formulas whose DIMACS text is larger than a pipe's capacity, starting with an empty clause, given to a solver that
    answers as soon as it has seen that clause and leaves without reading the rest: its answer is the answer."""
    tt.selfcheck()
    r = ctx.rng("c20-early", rseed)
    with Bench() as bench:
        for times in (200, 9000, 14000, 40000, 120000):
            base = [[]] + [[r.choice([1, -1]) * v for v in r.sample(range(1, 11), 3)] for _ in range(7)]
            fm = make_formula({"label": "empty clause first, %d clauses" % times, "n": 10, "base": base, "times": times})
            for name in [x for x in NAMES if CONV[x] == "stdin"][:3]:
                for method in ("solve", "is_satisfiable"):
                    bench.install({name})
                    sh = {"kind": "answer", "early": 1, "comments": r.choice(["none", "head"])}
                    fm.count(ctx)
                    ctx.count("early_answer_calls")
                    bridge(ctx, bench, fm, method, name, None, r.choice([None, 0, 2]) if method == "solve" else None, sh, {name},
                           seed=r.randint(0, 10 ** 6), tag="early", what="early_answer")


def case_few_descriptors(ctx, rseed):
    """A long session: 60 solve() / is_satisfiable() calls per solver convention (stdin/stdout, file in / stdout, file in /
    file out) in a process that may open only 30 more files than it has open.  A call that closes what it opens never notices."""
    from .. import semantic as S
    tt.selfcheck()
    r = ctx.rng("c20-fds", rseed)
    with Bench() as bench:
        reps = []
        for conv in ("stdin", "filein", "fileout"):
            names = [x for x in NAMES if CONV[x] == conv]
            if names:
                reps.append(names[0])
        before = S.open_descriptors()
        with S.few_descriptors_left(30):
            for name in reps:
                bench.install({name})
                for i in range(60):
                    base = [[r.choice([1, -1]) * v for v in r.sample(range(1, 7), 3)] for _ in range(4 + i % 3)]
                    fm = make_formula({"label": "session call %d" % (i + 1), "n": 6, "base": base, "times": 1})
                    fm.count(ctx)
                    ctx.count("calls_with_few_descriptors_left")
                    bridge(ctx, bench, fm, "solve" if i % 2 else "is_satisfiable", name, None, None, {"kind": "answer", "comments": "none"}, {name},
                           seed=r.randint(0, 10 ** 6), tag="call %d of a session with 30 spare descriptors" % (i + 1), what="few_descriptors")
        ctx.count("descriptors_open_after_the_session_minus_before", max(0, S.open_descriptors() - before))


def subsets_for(tier, seed):
    full = (1 << len(NAMES)) - 1
    if tier == "thorough":
        return list(range(full + 1))
    out = [0, full] + [1 << i for i in range(len(NAMES))]
    out += [(1 << i) | (1 << j) for i in range(len(NAMES)) for j in range(i + 1, len(NAMES)) if (i + j) % 3 == 0]
    import random as _random
    g = _random.Random("c20-subsets-%d" % seed)
    out += [g.randint(1, full - 1) for _ in range(70)]
    return sorted(set(out))


def case_search(ctx, masks):
    """cmd=None / blank: some installed solver answers; the first one in table order is expected to win."""
    tt.selfcheck()
    with Bench() as bench:
        for mask in masks:
            r = ctx.rng("c20-search", mask)
            usable = {n for i, n in enumerate(NAMES) if (mask >> i) & 1}
            # names that are present but cannot be started must be skipped like missing ones
            broken = {}
            for n in NAMES:
                if n not in usable and r.random() < 0.3:
                    broken[n] = r.choice(("noexec", "dangling", "dir", "badinterp", "notbinary"))
            bench.install(usable, broken)
            n, cl = random_formula(r, 7)
            fm = make_formula({"label": "random", "n": n, "clauses": cl})
            first = next((x for x in NAMES if x in usable), None)
            sh = random_shape(r, CONV[first] if first else "stdin", allow_garbage=False)
            cmd = None
            method = "solve" if r.random() < 0.5 else "is_satisfiable"
            ctx.count("default_search_calls")
            if first and any(NAMES.index(b) < NAMES.index(first) for b in broken):
                ctx.count("default_search_skipped_broken")
            fm.count(ctx)
            bridge(ctx, bench, fm, method, cmd, None, None, sh, usable, seed=mask, tag="search", what="default_search_runs")
            if first:
                ran = [ast.literal_eval(l) for l in open(bench.log) if l.strip()]
                if ran:
                    ctx.count("default_winner_first_in_table" if ran[-1]["name"] == first else "default_winner_other")


def case_refusals(ctx, batch):
    """Calls that must raise the documented error before/without any verdict."""
    tt.selfcheck()
    r = ctx.rng("c20-refusals", batch)
    fms = [make_formula({"label": lbl, "n": n, "clauses": cl}) for lbl, n, cl in CURATED_FORMULAS[:7:2]]
    ans = {"kind": "answer"}
    with Bench() as bench:
        everything = set(NAMES) | {"mysolver"}
        k = 0
        for method in ("solve", "is_satisfiable"):
            # unknown sameas: ValueError, whatever the command
            for sameas in ("zchaff", "MiniSat", "minisat ", "", "lingeling,minisat", "minisat2", "None", "sat"):
                for cmd in (None, "minisat", "mysolver -x", "not-installed", "lingeling --plain"):
                    k += 1
                    if (k + batch) % 2:
                        continue
                    bench.install(everything)
                    bridge(ctx, bench, fms[k % len(fms)], method, cmd, sameas, None, ans, everything, tag="refuse")
            # a program that is not in the table, without sameas: RuntimeError, installed or not
            for cmd in ("mysolver", "mysolver -x", "not-installed", "Minisat", "minisat2 -q", "sat",
                        os.path.join(bench.bin, "minisat"), "./minisat", "lingeling; true"):
                k += 1
                bench.install(everything)
                bridge(ctx, bench, fms[k % len(fms)], method, cmd, None, None, ans, everything, tag="refuse")
            # supported / sameas-qualified but not there, or there but not startable
            for name in NAMES:
                k += 1
                others = set(r.sample(NAMES, 4)) - {name}
                bench.install(others)
                bridge(ctx, bench, fms[k % len(fms)], method, r.choice((name, name + " -q")), None, None, ans, others,
                       tag="refuse")
                if (k + batch) % 3 == 0:
                    bridge(ctx, bench, fms[k % len(fms)], method, "absent-tool", name, None, ans, others, tag="refuse")
                how = ("noexec", "dangling", "dir", "badinterp", "notbinary")[(k + batch) % 5]
                bench.install(others, {name: how})
                st, val = bridge(ctx, bench, fms[k % len(fms)], method, name, None, None, ans, others, tag="refuse-" + how)
                if st == "exc" and type(val).__name__ == "RuntimeError":
                    ctx.count("refusal_not_executable_ok")
            # nothing at all
            bench.install(set(), {"minisat": "noexec"} if batch % 2 else None)
            bridge(ctx, bench, fms[0], method, None, None, None, ans, set(), tag="refuse")


def case_biginput(ctx, name, variant):
    """A formula whose DIMACS text (~300 kB) exceeds every pipe buffer; answered, ignored, or the solver
    dies before reading it."""
    tt.selfcheck()
    r = ctx.rng("c20-big", name, variant)
    n = 7
    base = [[v if r.random() < 0.5 else -v for v in r.sample(range(1, n + 1), 3)] for _ in range(12)]
    if variant == "unsat":
        base += [[1, 2], [-1, 2], [1, -2], [-1, -2]]
    fm = make_formula({"label": "repeated-clauses", "n": n, "base": base, "times": 26000})
    sh = {"sat": {"kind": "answer", "per": 2, "comments": "inter"}, "unsat": {"kind": "answer"},
          "early": {"kind": "early"}, "silent": {"kind": "silent", "exit": 1}}[variant]
    with Bench() as bench:
        bench.install({name})
        for method in ("solve", "is_satisfiable"):
            ctx.count("big_input_runs")
            fm.count(ctx)
            bridge(ctx, bench, fm, method, name, None, None, sh, {name}, tag="big", what="cmd_plain")


# --------------------------------------------------------------------------- workload
def workload(tier, seed):
    quick = tier == "quick"
    for name in NAMES:
        for form in FORMS:
            if quick and form != "plain" and (NAMES.index(name) % 4) + 1 != FORMS.index(form):
                continue
            full = form == "plain" and name in ("cadical", "lingeling", "march", "minisat", "glucose", "sat4j")
            yield "curated", {"name": name, "form": form, "light": quick and not full}
    batches = 1 if quick else 10
    for b in range(batches):
        for name in NAMES:
            for form in FORMS:
                yield "random", {"name": name, "form": form, "batch": seed * 100 + b, "count": 16 if quick else 60,
                                 "maxn": 8 if quick else 10}
    yield "few_descriptors", {"rseed": seed}
    masks = subsets_for(tier, seed)
    step = 12 if quick else 32
    for i in range(0, len(masks), step):
        yield "search", {"masks": masks[i:i + step]}
    for b in range(2 if quick else 6):
        yield "refusals", {"batch": seed * 10 + b}
    for b in range(1 if quick else 4):
        yield "early_answer", {"rseed": seed * 10 + b}
    for name in (("lingeling", "march", "minisat") if quick else NAMES):
        for variant in ("sat", "unsat", "early", "silent"):
            yield "biginput", {"name": name, "variant": variant}

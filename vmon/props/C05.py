"""C05 -- substitution, lifting and compression compose the formula with the gadget.

For every (F, transformation) the gadget functions are written directly on
truth-table masks: every original variable gets its *derived* truth table over
the new variables, F is evaluated over the derived tables, and the result is
compared with the exact model set of the transformed formula.
"""
import itertools
import os
import tempfile

from .. import tt

PYTHON_O_STRIDE = {"quick": 4, "thorough": 2}      # every n-th case is repeated in an interpreter started with -O
RULE = ("(CNF F, transformation, parameters): all CNFs with <= 2 variables and <= 2 clauses of width <= 2 (incl. empty formula, "
        "empty clause, repeated and opposite literals, an unused trailing variable) plus seeded CNFs up to 4 variables / 5 clauses; "
        "xor, or, maj, eq, neq, one with arity 1..3(4), exact/atleast/atmost/anybut N <= 4 with every K in -1..N+1, ite, lift k <= 3, "
        "flip, xorcomp/majcomp with every compression graph up to (3,4) / seeded larger; library call and the -T spelling; "
        "transformed formula <= 16 (quick) / 20 (thorough) variables; distinct = (F, transformation, parameters); trivial = F without clauses.")
ASSUMPTIONS = ["vmon/tt.py truth tables (self-checked)", "gadget functions of this module (xor, or, majority = at least half, "
               "all-equal, exactly-one, thresholds, if-then-else, selection) are the documented ones"]
REQUIRED = ["library_calls", "cli_calls", "transformations_after_an_interruption", "exact_cases", "compression_cases", "lifting_cases", "empty_clause_inputs", "sampled_cases", "sampled_assignments", "named_variable_inputs",
            "unused_variable_inputs"] + ["t_" + t for t in ("xor", "or", "maj", "eq", "neq", "one", "exact", "atleast", "atmost",
                                                             "anybut", "ite", "lift", "flip", "xorcomp", "majcomp")]
CASE_TIMEOUT = {"quick": 300, "thorough": 1800}


def lib():
    import cnfgen
    return cnfgen


# ------------------------------------------------------------------ gadget semantics on masks
def threshold(n, vars_, op, K):
    """mask of assignments where #true(vars_) op K"""
    full, masks = tt.space(n)
    if not vars_:
        cnt_ok = {">=": 0 >= K, "<=": 0 <= K, "==": 0 == K, "!=": 0 != K, ">": 0 > K, "<": 0 < K}[op]
        return full if cnt_ok else 0
    terms = [(1, v) for v in vars_]
    ge = lambda k: tt.models_pb(n, terms, ">=", k) if k > 0 else full
    eq = lambda k: tt.models_pb(n, terms, "==", k) if 0 <= k <= len(vars_) else 0
    if op == ">=":
        return ge(K)
    if op == ">":
        return ge(K + 1)
    if op == "<=":
        return full ^ ge(K + 1)
    if op == "<":
        return full ^ ge(K)
    if op == "==":
        return eq(K)
    if op == "!=":
        return full ^ eq(K)
    raise ValueError(op)


def derived_tables(kind, params, N, nnew):
    """(validity mask, [D_1..D_N]) over nnew variables."""
    full, masks = tt.space(nnew)
    D = []
    valid = full
    if kind in ("xor", "or", "maj", "eq", "neq", "one", "exact", "atleast", "atmost", "anybut", "lin>", "lin<", "lin>=", "lin<=", "lin==", "lin!="):
        k = params[0]
        for v in range(N):
            block = [v * k + i for i in range(1, k + 1)]
            ms = [masks[b - 1] for b in block]
            if kind == "xor":
                d = 0
                for m in ms:
                    d ^= m
            elif kind == "or":
                d = 0
                for m in ms:
                    d |= m
            elif kind == "maj":
                d = threshold(nnew, block, ">=", (k + 1) // 2)       # at least half
            elif kind in ("eq", "neq"):
                allt, allf = full, full
                for m in ms:
                    allt &= m
                    allf &= full ^ m
                d = allt | allf
                if kind == "neq":
                    d ^= full
            elif kind == "one":
                d = threshold(nnew, block, "==", 1)
            else:
                op = {"exact": "==", "atleast": ">=", "atmost": "<=", "anybut": "!="}.get(kind) or kind[3:]
                d = threshold(nnew, block, op, params[1])
            D.append(d)
    elif kind == "ite":
        for v in range(1, N + 1):
            i, t, e = masks[v - 1], masks[N + v - 1], masks[2 * N + v - 1]
            D.append((i & t) | ((full ^ i) & e))
    elif kind == "lift":
        k = params[0]
        for v in range(N):
            X = [v * 2 * k + i for i in range(1, k + 1)]
            Y = [v * 2 * k + k + i for i in range(1, k + 1)]
            valid &= threshold(nnew, Y, "==", 1)
            d = 0
            for xv, yv in zip(X, Y):
                d |= masks[xv - 1] & masks[yv - 1]
            D.append(d)
    elif kind == "flip":
        for v in range(1, N + 1):
            D.append(full ^ masks[v - 1])
    elif kind in ("xorcomp", "majcomp"):
        nbrs = params[0]          # list of right-neighbour lists, one per original variable
        for v in range(N):
            block = nbrs[v]
            if kind == "xorcomp":
                d = 0
                for b in block:
                    d ^= masks[b - 1]
            else:
                d = threshold(nnew, block, ">=", (len(block) + 1) // 2)
            D.append(d)
    else:
        raise ValueError(kind)
    return valid, D


def expected_models(clauses, kind, params, N, nnew):
    full, _ = tt.space(nnew)
    valid, D = derived_tables(kind, params, N, nnew)
    acc = valid
    for cl in clauses:
        c = 0
        for lit in cl:
            d = D[abs(lit) - 1]
            c |= d if lit > 0 else full ^ d
        acc &= c
    return acc


def new_numvar(kind, params, N):
    if kind in ("xor", "or", "maj", "eq", "neq", "one", "exact", "atleast", "atmost", "anybut", "lin>", "lin<", "lin>=", "lin<=", "lin==", "lin!="):
        return N * params[0]
    if kind == "ite":
        return 3 * N
    if kind == "lift":
        return 2 * params[0] * N
    if kind == "flip":
        return N
    return params[1]        # compression: right side of the graph


_SPELL = [0]


def apply_library(kind, params, F):
    g = lib()
    if kind == "xor":
        return g.XorSubstitution(F, params[0])
    if kind == "or":
        return g.OrSubstitution(F, params[0])
    if kind == "maj":
        return g.MajoritySubstitution(F, params[0])
    if kind in ("eq", "neq"):
        # the two documented spellings: the named function, and AllEqualSubstitution with its `invert` flag (given as a
        # bool, or as the 0 / 1 many callers write for a flag)
        _SPELL[0] += 1
        how = _SPELL[0] % 4
        if kind == "eq":
            return [lambda: g.AllEqualSubstitution(F, params[0]), lambda: g.AllEqualSubstitution(F, params[0], False),
                    lambda: g.AllEqualSubstitution(F, params[0], invert=0), lambda: g.AllEqualSubstitution(F, params[0], invert=False)][how]()
        return [lambda: g.NotAllEqualSubstitution(F, params[0]), lambda: g.AllEqualSubstitution(F, params[0], True),
                lambda: g.AllEqualSubstitution(F, params[0], invert=1), lambda: g.AllEqualSubstitution(F, params[0], invert=True)][how]()
    if kind == "one":
        return g.ExactlyOneSubstitution(F, params[0])
    if kind == "exact":
        return g.ExactlyKSubstitution(F, params[0], params[1])
    if kind == "atleast":
        return g.AtLeastKSubstitution(F, params[0], params[1])
    if kind == "atmost":
        return g.AtMostKSubstitution(F, params[0], params[1])
    if kind == "anybut":
        return g.AnythingButKSubstitution(F, params[0], params[1])
    if kind.startswith("lin"):
        # the generic entry point the four named substitutions are written on, with any of its six relations
        from cnfgen.transformations.substitutions import LinearSubstitution
        return LinearSubstitution(F, params[0], kind[3:], params[1])
    if kind == "ite":
        return g.IfThenElseSubstitution(F)
    if kind == "lift":
        return g.FormulaLifting(F, params[0])
    if kind == "flip":
        return g.FlipPolarity(F)
    return g.VariableCompression(F, compression_graph(*params), "xor" if kind == "xorcomp" else "maj")


GRAPH_REPS = ("cnfgen", "cnfgen-repeated", "nx", "nx-multi", "user-class", "nx-directed", "user-class-generator")


def compression_graph(nbrs, R, rep="cnfgen"):
    """The same bipartite graph in several representations; listing an edge twice does not make it two edges."""
    from cnfgen.graphs import BipartiteGraph
    edges = [(u, v) for u, ns in enumerate(nbrs, start=1) for v in ns]
    if rep == "user-class":
        from ..ducks import computed_bipartite
        return computed_bipartite(len(nbrs), R, edges)      # edges computed by overridden methods, nothing stored
    if rep == "user-class-generator":
        from ..ducks import computed_bipartite
        return computed_bipartite(len(nbrs), R, edges, order="generator")      # ... whose neighbourhoods are one-shot iterators
    if rep in ("cnfgen", "cnfgen-repeated"):
        B = BipartiteGraph(len(nbrs), R)
        for (u, v) in (edges if rep == "cnfgen" else list(reversed(edges)) + edges[::2]):
            B.add_edge(u, v)
        return B
    import networkx
    if rep == "nx-directed":
        # a networkx DiGraph: every edge is one arc, some written from the right side to the left one
        G = networkx.DiGraph()
        for u in range(1, len(nbrs) + 1):
            G.add_node("x%d" % u, bipartite=0)
        for v in range(1, R + 1):
            G.add_node("y%d" % v, bipartite=1)
        for k, (u, v) in enumerate(edges):
            if k % 2:
                G.add_edge("x%d" % u, "y%d" % v)
            else:
                G.add_edge("y%d" % v, "x%d" % u)
        return G
    G = networkx.Graph() if rep == "nx" else networkx.MultiGraph()
    for u in range(1, len(nbrs) + 1):
        G.add_node("x%d" % u, bipartite=0)
    for v in range(1, R + 1):
        G.add_node("y%d" % v, bipartite=1)
    for k, (u, v) in enumerate(edges):
        G.add_edge("x%d" % u, "y%d" % v)
        if rep == "nx-multi" and k % 2 == 0:
            G.add_edge("y%d" % v, "x%d" % u)
        if rep == "nx-multi" and k % 3 == 0:
            G.add_edge("x%d" % u, "y%d" % v)
    return G


def judge(ctx, N, clauses, kind, params, T, how, label):
    nnew = new_numvar(kind, params, N)
    if T.number_of_variables() != nnew:
        ctx.violation("%s:numvar" % kind, "%s: %d variables, documented %d" % (label, T.number_of_variables(), nnew),
                      original_variables=N)
        return
    got = tt.models_cnf(nnew, [list(c) for c in T])
    exp = expected_models(clauses, kind, params, N, nnew)
    ctx.count("exact_cases")
    if got != exp:
        d = tt.first_difference(nnew, got, exp)
        ctx.violation("%s:models" % kind, "%s: the transformed formula is %s by an assignment whose induced assignment %s F; %r"
                      % (label, "satisfied" if d["in_first"] else "falsified", "falsifies" if d["in_first"] else "satisfies",
                         d["assignment"]), transformed=[list(c) for c in T][:40])
    ctx.judged((tuple(map(tuple, clauses)), N, kind, repr(params), how), nontrivial=len(clauses) > 0,
               sample={"F": clauses, "variables": N, "transformation": [kind, params], "via": how, "new_variables": nnew,
                       "models": tt.count(got)})


def transformations_for(N, cap, r=None, tier="quick"):
    """All (kind, params) whose result stays under the cap."""
    out = []
    for kind in ("xor", "or", "maj", "eq", "neq", "one"):
        for k in range(1, 12):
            # wide gadgets (9-11 inputs) only where the formula has a single variable: 2^(k-1) clauses per literal
            if N * k <= cap and (k <= 4 or N == 1):
                out.append((kind, [k]))
    for kind in ("exact", "atleast", "atmost", "anybut", "lin>", "lin<", "lin>=", "lin<=", "lin==", "lin!="):
        for n_ in range(1, 5):
            for K in range(-1, n_ + 2):
                if N * n_ <= cap:
                    out.append((kind, [n_, K]))
    if 3 * N <= cap:
        out.append(("ite", []))
    for k in range(1, 4):
        if 2 * k * N <= cap:
            out.append(("lift", [k]))
    out.append(("flip", []))
    return out


def small_cnfs():
    """All CNFs with <= 2 variables (+ optional unused third), <= 2 clauses of width <= 2."""
    lits = [1, -1, 2, -2]
    clauses = [[]] + [[a] for a in lits] + [[a, b] for a in lits for b in lits]
    out = []
    for N in (0, 1, 2, 3):
        pool = [c for c in clauses if all(abs(l) <= min(N, 2) for l in c)]
        out.append((N, []))
        for c in pool:
            out.append((N, [c]))
        for c1, c2 in itertools.combinations_with_replacement(pool, 2):
            out.append((N, [c1, c2]))
    return out


def build_input(N, clauses, names=None):
    """names: None (anonymous variables) or a list of N labels (possibly with repetitions)."""
    from cnfgen.formula.cnf import CNF
    F = CNF(description="C05 input")
    if names is None:
        F.update_variable_number(N)
    else:
        for nm in names:
            F.new_variable(nm)
    for c in clauses:
        F.add_clause(list(c))
    return F


def case_named(ctx, rseed, count):
    """Inputs whose variables have names -- distinct, repeated, or ambiguous like kcolor's x_{111}."""
    tt.selfcheck()
    cap = 16 if ctx.tier == "quick" else 20
    r = ctx.rng("c05named", rseed)
    for _ in range(count):
        N = r.randint(1, 4)
        style = r.choice(["distinct", "repeated", "repeated", "ambiguous"])
        if style == "distinct":
            names = ["v%d" % i for i in range(1, N + 1)]
        elif style == "repeated":
            names = [r.choice(["y", "y", "z", "x_{1}"]) for _ in range(N)]
        else:
            names = ["x_{111}"] * N
        cls = [[r.choice([1, -1]) * r.randint(1, N) for _ in range(r.choice([1, 2, 2, 3]))] for _ in range(r.randint(1, 4))]
        ts = [t for t in transformations_for(N, cap) if t[0] in ("lift", "xor", "or", "ite", "maj", "flip", "one")]
        ts = [t for t in ts if not too_costly(t[0], t[1], cls)]
        for kind, params in r.sample(ts, min(len(ts), 5)):
            F = build_input(N, cls, names)
            label = "%s%r on CNF(%d vars named %r, %r)" % (kind, params, N, names, cls)
            st, T = ctx.call(apply_library, kind, params, F)
            ctx.count("library_calls")
            ctx.count("named_variable_inputs")
            ctx.count("t_" + kind)
            if st == "exc":
                ctx.violation("%s:raises:%s" % (kind, type(T).__name__), "%s raised %r" % (label, T))
                continue
            judge(ctx, N, cls, kind, params, T, "library-named:" + style, label)


def has_dot():
    from cnfgen.graphs import has_dot_library
    return has_dot_library()


def too_costly(kind, params, clauses):
    """Gadgets with five or more inputs are applied to unit clauses only (2^(k-1) clauses per literal otherwise multiply)."""
    if not any(len(c) > 1 for c in clauses):
        return False
    if kind in ("xor", "or", "maj", "eq", "neq", "one", "exact", "atleast", "atmost", "anybut", "lift", "lin>", "lin<", "lin>=", "lin<=", "lin==", "lin!="):
        return bool(params) and params[0] > 4
    if kind in ("xorcomp", "majcomp"):
        return max([len(ns) for ns in params[0]] or [0]) > 4
    return False


def run_one(ctx, N, clauses, kind, params):
    if too_costly(kind, params, clauses):
        return              # substitutions distribute over clauses: gadgets with 5+ inputs on unit clauses only
    F = build_input(N, clauses)
    if N > F.number_of_variables():
        return
    label = "%s%r on CNF(%d vars, %r)" % (kind, params, N, clauses)
    if any(len(c) == 0 for c in clauses):
        ctx.count("empty_clause_inputs")
    used = max([abs(l) for c in clauses for l in c] or [0])
    if used < N:
        ctx.count("unused_variable_inputs")
    st, T = ctx.call(apply_library, kind, params, F)
    ctx.count("library_calls")
    ctx.count("t_" + kind)
    if kind == "lift":
        ctx.count("lifting_cases")
    if kind in ("xorcomp", "majcomp"):
        ctx.count("compression_cases")
    if st == "exc":
        ctx.violation("%s:raises:%s" % (kind, type(T).__name__), "%s raised %r" % (label, T))
        return
    if T is F:
        ctx.violation("%s:returns-input" % kind, "%s returned its argument" % label)
    if [list(c) for c in F] != [list(c) for c in clauses] or F.number_of_variables() != N:
        ctx.violation("%s:mutates-input" % kind, "%s changed its input formula" % label)
    judge(ctx, N, clauses, kind, params, T, "library", label)


def case_small(ctx, lo, hi):
    tt.selfcheck()
    cap = 16 if ctx.tier == "quick" else 20
    cnfs = small_cnfs()[lo:hi]
    for (N, clauses) in cnfs:
        for kind, params in transformations_for(N, cap):
            if ctx.tier == "quick" and (kind in ("exact", "atleast", "atmost", "anybut") or kind.startswith("lin")) and params[0] == 4:
                continue
            run_one(ctx, N, clauses, kind, params)


def random_cnf(r, maxn, maxm):
    N = r.randint(1, maxn)
    used = r.randint(1, N)
    m = r.randint(1, maxm)
    cls = []
    for _ in range(m):
        w = r.choice([0, 1, 2, 2, 3, 3, 4])
        cls.append([r.choice([1, -1]) * r.randint(1, used) for _ in range(w)])
    return N, cls


def case_seeded(ctx, rseed, count):
    tt.selfcheck()
    cap = 16 if ctx.tier == "quick" else 20
    r = ctx.rng("c05", rseed)
    for _ in range(count):
        N, cls = random_cnf(r, 4, 5)
        ts = transformations_for(N, cap)
        for kind, params in r.sample(ts, min(len(ts), 6)):
            run_one(ctx, N, cls, kind, params)


def case_compression(ctx, L, R, masks, fn):
    """every compression graph (L,R) given by edge masks, on a few formulas over L variables"""
    tt.selfcheck()
    r = ctx.rng("c05comp", L, R)
    formulas = [[], [[]], [[i] for i in range(1, L + 1)], [[-i for i in range(1, L + 1)]]]
    for _ in range(3):
        formulas.append([[r.choice([1, -1]) * r.randint(1, L) for _ in range(r.randint(1, 3))] for _ in range(r.randint(1, 4))])
    pairs = [(u, v) for u in range(1, L + 1) for v in range(1, R + 1)]
    for mask in masks:
        nbrs = [[v for (u, v) in pairs if u == x and (mask >> pairs.index((u, v))) & 1] for x in range(1, L + 1)]
        for k, cls in enumerate(formulas):
            rep = GRAPH_REPS[(mask + k) % len(GRAPH_REPS)]
            ctx.count("compression_graph_as_" + rep)
            run_one(ctx, L, cls, fn, [nbrs, R, rep])


def case_cli(ctx, rseed, count):
    """the -T spelling: cnfgen dimacs <file> -T <name> <args>"""
    tt.selfcheck()
    from ..cliharness import cli_formula
    cap = 16 if ctx.tier == "quick" else 20
    r = ctx.rng("c05cli", rseed)
    d = tempfile.mkdtemp(prefix="c05-")
    try:
        for i in range(count):
            N, cls = random_cnf(r, 3, 4)
            path = os.path.join(d, "f%d.cnf" % i)
            with open(path, "w") as f:
                f.write("p cnf %d %d\n" % (N, len(cls)))
                for c in cls:
                    f.write(" ".join(map(str, c + [0])) + "\n")
            ts = [t for t in transformations_for(N, cap)
                  if not (t[0] in ("exact", "atleast", "atmost", "anybut") and t[1][1] < 1)]   # the command line wants K >= 1
            ts = [t for t in ts if not too_costly(t[0], t[1], cls) and not t[0].startswith("lin")]   # lin*: library entry point only
            for kind, params in r.sample(ts, min(len(ts), 5)):
                argv = ["cnfgen", "-q", "dimacs", path, "-T", kind] + [str(p) for p in params]
                label = " ".join(argv[:3] + ["<%d vars %r>" % (N, cls)] + argv[4:])
                ctx.count("cli_calls")
                try:
                    T = cli_formula("cnfgen", argv)
                except SystemExit as e:
                    ctx.violation("%s:cli-refused" % kind, "%s exited with %r" % (label, e.code))
                    continue
                except Exception as e:       # noqa: BLE001
                    ctx.violation("%s:cli-raises:%s" % (kind, type(e).__name__), "%s raised %r" % (label, e))
                    continue
                judge(ctx, N, cls, kind, params, T, "cli", label)
            # compression through the command line with an explicit graph file
            R = r.randint(1, 4)
            nbrs = [sorted(r.sample(range(1, R + 1), r.randint(0, R))) for _ in range(N)]
            gpath = os.path.join(d, "b%d.matrix" % i)
            with open(gpath, "w") as f:
                f.write("%d %d\n" % (N, R))
                for ns in nbrs:
                    f.write(" ".join("1" if v in ns else "0" for v in range(1, R + 1)) + "\n")
            if i % 2 and has_dot():
                # the same graph as a dot file with named vertices, every other edge listed twice / backwards
                gpath = os.path.join(d, "b%d.dot" % i)
                with open(gpath, "w") as f:
                    f.write("graph G {\n")
                    for u in range(1, N + 1):
                        f.write(" x%d [bipartite=0];\n" % u)
                    for v in range(1, R + 1):
                        f.write(" y%d [bipartite=1];\n" % v)
                    k = 0
                    for u, ns in enumerate(nbrs, start=1):
                        for v in ns:
                            f.write(" x%d -- y%d;\n" % (u, v))
                            if k % 2 == 0:
                                f.write(" y%d -- x%d;\n x%d -- y%d;\n" % (v, u, u, v))
                            k += 1
                    f.write("}\n")
                ctx.count("compression_graph_as_dot_file_repeated_edges")
            for fn in ("xorcomp", "majcomp"):
                argv = ["cnfgen", "-q", "dimacs", path, "-T", fn, gpath]
                ctx.count("cli_calls")
                try:
                    T = cli_formula("cnfgen", argv)
                except BaseException as e:       # noqa: BLE001
                    if isinstance(e, KeyboardInterrupt) or type(e).__name__ == "CaseTimeout":
                        raise
                    ctx.violation("%s:cli-raises:%s" % (fn, type(e).__name__), "cnfgen dimacs F -T %s <graph file> raised %r" % (fn, e))
                    continue
                ctx.count("compression_cases")
                ctx.count("t_" + fn)
                judge(ctx, N, cls, fn, [nbrs, R], T, "cli", "cnfgen dimacs <%d vars %r> -T %s <graph %r>" % (N, cls, fn, nbrs))
    finally:
        import shutil
        shutil.rmtree(d, ignore_errors=True)


def workload(tier, seed):
    total = len(small_cnfs())
    step = 12
    for lo in range(0, total, step):
        yield "small", {"lo": lo, "hi": lo + step}
    for i in range(40 if tier == "quick" else 3000):
        yield "seeded", {"rseed": seed * 10000 + i, "count": 12}
    for i in range(16 if tier == "quick" else 400):
        yield "sampled", {"rseed": seed * 10000 + i, "count": 25}
    for i in range(8 if tier == "quick" else 120):
        yield "named", {"rseed": seed * 10000 + i, "count": 20}
    for fn in ("xorcomp", "majcomp"):
        for R in (9, 10, 11):
            yield "compression", {"L": 1, "R": R, "masks": [(1 << R) - 1, (1 << R) - 2, (1 << (R - 1)) - 1], "fn": fn}
        for (L, R) in ((1, 1), (1, 3), (2, 2), (2, 3), (3, 2), (3, 4), (2, 4)):
            nm = 1 << (L * R)
            if nm <= 256:
                masks = list(range(nm))
            else:
                import random
                r = random.Random("c05m%d%d%d" % (L, R, seed))
                masks = sorted({r.getrandbits(L * R) for _ in range(128 if tier == "quick" else 3000)})
            for i in range(0, len(masks), 32):
                yield "compression", {"L": L, "R": R, "masks": masks[i:i + 32], "fn": fn}
    for i in range(8 if tier == "quick" else 240):
        yield "cli", {"rseed": seed * 1000 + i, "count": 6}
    for i in range(8 if tier == "quick" else 200):
        yield "edited_intermediate", {"rseed": seed * 1000 + i, "count": 40}
    for i in range(2 if tier == "quick" else 12):
        yield "two_threads", {"rseed": seed * 1000 + i}
    for i in range(8 if tier == "quick" else 200):
        yield "interrupted", {"rseed": seed * 1000 + i, "count": 30}
    for kind in ("xor", "xorcomp"):
        for k in ((13, 16, 17, 18) if tier == "quick" else range(12, 21)):
            yield "wide_gadget", {"kind": kind, "k": k, "rseed": seed}
    for kind in ("maj", "majcomp", "or", "eq", "neq", "one"):
        for k in ((12, 15) if tier == "quick" else (12, 13, 14, 15, 16, 17)):
            yield "wide_gadget", {"kind": kind, "k": k, "rseed": seed}


# ------------------------------------------------------------------ beyond the cap: sampled assignments, larger arities
def gadget_value(kind, params, N, a, v):
    """value of original variable v (0-based) under assignment a (set of true new variables)"""
    if kind in ("xor", "or", "maj", "eq", "neq", "one", "exact", "atleast", "atmost", "anybut", "lin>", "lin<", "lin>=", "lin<=", "lin==", "lin!="):
        k = params[0]
        cnt = sum(1 for i in range(1, k + 1) if v * k + i in a)
        if kind == "xor":
            return cnt % 2 == 1
        if kind == "or":
            return cnt >= 1
        if kind == "maj":
            return 2 * cnt >= k
        if kind == "eq":
            return cnt in (0, k)
        if kind == "neq":
            return cnt not in (0, k)
        if kind == "one":
            return cnt == 1
        K = params[1]
        return {"exact": cnt == K, "atleast": cnt >= K, "atmost": cnt <= K, "anybut": cnt != K, "lin>": cnt > K, "lin<": cnt < K,
                "lin>=": cnt >= K, "lin<=": cnt <= K, "lin==": cnt == K, "lin!=": cnt != K}[kind]
    if kind == "ite":
        return (N + v + 1 in a) if (v + 1 in a) else (2 * N + v + 1 in a)
    if kind == "lift":
        k = params[0]
        return any((v * 2 * k + i in a) and (v * 2 * k + k + i in a) for i in range(1, k + 1))
    if kind == "flip":
        return v + 1 not in a
    nbrs = params[0][v]
    cnt = sum(1 for b in nbrs if b in a)
    return cnt % 2 == 1 if kind == "xorcomp" else 2 * cnt >= len(nbrs)


def case_edited_intermediate(ctx, rseed, count):
    """F -> T = t1(F); then F and/or T are edited by their owner (F gains a variable and a clause; T gains unused
    variables or a clause); then U = t2(T).  U must be t2 of T *as it now is*, whatever T's ancestry."""
    g = lib()
    r = ctx.rng("c05edited", rseed)
    firsts = [("flip", []), ("xor", [2]), ("or", [2]), ("ite", []), ("lift", [1]), ("one", [2]), ("eq", [2])]
    seconds = [("xor", [2]), ("or", [2]), ("flip", []), ("ite", []), ("one", [2]), ("maj", [3]), ("lift", [2]), ("exact", [2, 1])]
    for _ in range(count):
        N = r.randint(1, 2)
        cls = [[r.choice([1, -1]) * r.randint(1, N) for _ in range(r.randint(1, 2))] for _ in range(r.randint(1, 2))]
        k1, p1 = r.choice(firsts)
        F = build_input(N, cls)
        st, T = ctx.call(apply_library, k1, p1, F)
        if st == "exc":
            continue
        edits = []
        if r.random() < 0.6:
            v = F.new_variable("late")
            F.add_clause([v])
            edits.append("the original gains a variable and a clause")
        if r.random() < 0.6:
            T.update_variable_number(T.number_of_variables() + r.randint(1, 2))
            edits.append("the intermediate gains unused variables")
        if r.random() < 0.4 and T.number_of_variables():
            T.add_clause([r.choice([1, -1]) * r.randint(1, T.number_of_variables())])
            edits.append("the intermediate gains a clause")
        if not edits:
            continue
        NT, clsT = T.number_of_variables(), [list(c) for c in T]
        cands = [(k2, p2) for (k2, p2) in seconds if new_numvar(k2, p2, NT) <= 18 and not too_costly(k2, p2, clsT)
                 and len(clsT) * (4 ** max([len(c) for c in clsT] or [0])) <= 3000]
        if not cands:
            continue
        k2, p2 = r.choice(cands)
        label = "%s%r of [%s%r of CNF(%d vars, %r), then: %s]" % (k2, p2, k1, p1, N, cls, "; ".join(edits))
        st, U = ctx.call(apply_library, k2, p2, T)
        ctx.count("library_calls")
        ctx.count("transformations_of_edited_intermediates")
        if st == "exc":
            ctx.violation("%s:raises:%s" % (k2, type(U).__name__), "%s raised %r" % (label, U))
            continue
        judge(ctx, NT, clsT, k2, p2, U, "library-after-edits", label)


def case_two_threads(ctx, rseed):
    """Two transformations running at the same time in two threads of one process (short switch interval): each result
    must be what the same call gives when it runs alone.  The library holds no lock, so this only asks that the
    transformations share no scratch state."""
    import sys
    import threading
    r = ctx.rng("c05threads", rseed)
    N = 600
    cls = [[(i % N) + 1] if i % 2 else [-((i % N) + 1)] for i in range(N)]
    kinds = [("xor", [3]), ("maj", [3]), ("one", [3]), ("exact", [3, 2]), ("or", [2]), ("eq", [2]), ("xor", [2]), ("lift", [2])]
    alone = {}
    for kind, params in kinds:
        st, T = ctx.call(apply_library, kind, params, build_input(N, cls))
        if st == "ok":
            alone[(kind, tuple(params))] = (T.number_of_variables(), [list(c) for c in T])
    old = sys.getswitchinterval()
    sys.setswitchinterval(1e-5)
    try:
        for _ in range(6):
            pair = r.sample(sorted(alone), 2)
            results = {}

            def work(key):
                try:
                    T = apply_library(key[0], list(key[1]), build_input(N, cls))
                    results[key] = (T.number_of_variables(), [list(c) for c in T])
                except Exception as e:      # noqa: BLE001
                    results[key] = e
            threads = [threading.Thread(target=work, args=(k_,)) for k_ in pair]
            for t in threads:
                t.start()
            for t in threads:
                t.join(120)
            ctx.count("pairs_of_concurrent_transformations")
            for key in pair:
                got = results.get(key)
                label = "%s%r on %d unit clauses while %s%r runs in another thread" % (key[0], list(key[1]), N, [k_ for k_ in pair if k_ != key][0][0],
                                                                                     list([k_ for k_ in pair if k_ != key][0][1]))
                if isinstance(got, Exception) or got is None:
                    ctx.violation("%s:concurrent:raises" % key[0], "%s: %r" % (label, got))
                elif got != alone[key]:
                    ctx.violation("%s:concurrent:another-formula" % key[0], "%s: %d variables / %d clauses, alone it gives %d / %d"
                                  % (label, got[0], len(got[1]), alone[key][0], len(alone[key][1])))
            ctx.judged(("threads", tuple(pair), rseed), nontrivial=True, sample={"concurrent": [list(map(str, k_)) for k_ in pair]})
    finally:
        sys.setswitchinterval(old)


class _InterruptAt:
    """Raises KeyboardInterrupt at the k-th line executed inside the library (files of the cnfgen package), the way a
    Ctrl-C arrives in an interactive session: between two lines of whatever the library is doing.  Deterministic
    (the interpreter's trace hook, no signal, no timer); k beyond the end of the call interrupts nothing."""

    def __init__(self, k):
        self.k, self.n, self.fired = k, 0, False

    def __enter__(self):
        import sys
        self.old = sys.gettrace()

        def local(frame, event, arg):
            if event == "line":
                self.n += 1
                if self.n == self.k and not self.fired:
                    self.fired = True
                    raise KeyboardInterrupt("interrupted by the user")
            return local

        def tracer(frame, event, arg):
            return local if "/cnfgen/" in frame.f_code.co_filename else None
        sys.settrace(tracer)
        return self

    def __exit__(self, *exc):
        import sys
        sys.settrace(self.old)


def case_interrupted(ctx, rseed, count):
    """A transformation is interrupted half-way (KeyboardInterrupt between two lines of the library), the session
    catches it and goes on: the next transformation computed in the same process must be the composition it documents."""
    tt.selfcheck()
    r = ctx.rng("c05interrupted", rseed)
    victims = [("xor", [5]), ("maj", [5]), ("exact", [4, 2]), ("atleast", [4, 2]), ("atmost", [4, 1]), ("anybut", [4, 2]),
               ("one", [4]), ("or", [3]), ("eq", [3]), ("neq", [3]), ("lift", [2]), ("ite", []), ("flip", []),
               ("xorcomp", [[[1, 2, 3], [2, 3, 4], [1, 4, 5]], 5]), ("majcomp", [[[1, 2, 3], [2, 3, 4], [1, 4, 5]], 5])]
    probes = [("xor", [2]), ("maj", [3]), ("exact", [3, 1]), ("atleast", [3, 2]), ("atmost", [3, 1]), ("anybut", [3, 1]),
              ("one", [2]), ("or", [2]), ("eq", [2]), ("lift", [1]), ("xorcomp", [[[1, 2], [2, 3]], 3]),
              ("majcomp", [[[1, 2, 3], [2, 3, 4]], 4])]
    vcls = [[1, -2, 3], [-1, 2], [3], [-3, -2]]
    for _ in range(count):
        vkind, vparams = r.choice(victims)
        with _InterruptAt(1 << 60) as dry:
            try:
                apply_library(vkind, vparams, build_input(3, vcls))
            except Exception:       # noqa: BLE001 - judged elsewhere
                continue
        total = dry.n
        if total < 3:
            ctx.count("interruptions_not_possible")
            continue
        k = r.randint(1, total) if r.random() < 0.7 else r.randint(max(1, total - 12), total)
        fired = False
        try:
            with _InterruptAt(k) as it:
                apply_library(vkind, vparams, build_input(3, vcls))
        except KeyboardInterrupt:
            fired = True
        except Exception as e:      # noqa: BLE001
            ctx.count("interrupted_call_raised_something_else")
        if not fired:
            ctx.count("interruptions_that_came_too_late")
            continue
        ctx.count("transformations_interrupted")
        ctx.count("interrupted:" + vkind)
        for _p in range(2):
            kind, params = r.choice(probes)
            N = 2 if kind in ("xorcomp", "majcomp") else r.choice((1, 2))
            if kind in ("xorcomp", "majcomp"):
                N = len(params[0])
            pool = [[1], [-1], [1, -N], [-1, N], [N], [-N], []]
            clauses = [list(c) for c in r.sample(pool, r.choice((1, 2, 2, 3)))]
            F = build_input(N, clauses)
            st, T = ctx.call(apply_library, kind, params, F)
            label = "%s%r on CNF(%d vars, %r) after %s%r was interrupted at line event %d of %d" % (
                kind, params, N, clauses, vkind, vparams, k, total)
            if st == "exc":
                ctx.violation("%s:after-interruption:raises:%s" % (kind, type(T).__name__), "%s raised %r" % (label, T))
                continue
            ctx.count("transformations_after_an_interruption")
            judge(ctx, N, clauses, kind, params, T, "after-interruption:%s@%d/%d" % (vkind, k, total), label)


def case_wide_gadget(ctx, kind, k, rseed):
    """Gadgets with 12..20 inputs on formulas of one or two unit clauses (the gadget has up to 2^(k-1) clauses per literal):
    the transformed formula is evaluated on sampled assignments, grouped by variable set, against the gadget's value."""
    from ..refmodels.names import Evaluator
    r = ctx.rng("c05wide", kind, k, rseed)
    for cls, N in (([[1]], 1), ([[-1]], 1), ([[2], [-1]], 2)):
        if kind in ("xorcomp", "majcomp"):
            R = k + 2
            nbrs = [sorted(r.sample(range(1, R + 1), k if v == 0 else 2)) for v in range(N)]
            params = [nbrs, R, GRAPH_REPS[(k + N) % len(GRAPH_REPS)]]
        else:
            params = [k]
        F = build_input(N, cls)
        label = "%s%r on CNF(%d vars, %r)" % (kind, [k], N, cls)
        st, T = ctx.call(apply_library, kind, params, F)
        ctx.count("library_calls")
        ctx.count("t_" + kind)
        if st == "exc":
            ctx.violation("%s:raises:%s" % (kind, type(T).__name__), "%s raised %r" % (label, T))
            continue
        nnew = new_numvar(kind, params, N)
        if T.number_of_variables() != nnew:
            ctx.violation("%s:numvar" % kind, "%s: %d variables, documented %d" % (label, T.number_of_variables(), nnew))
            continue
        ev = Evaluator(T)
        ctx.count("wide_gadget_cases")
        for j in range(400):
            p = r.choice([0.05, 0.3, 0.5, 0.5, 0.5, 0.7, 0.95])
            a = {v for v in range(1, nnew + 1) if r.random() < p}
            if j < 2:
                a = set(range(1, nnew + 1)) if j else set()
            got = ev.value(a)
            vals = [gadget_value(kind, params, N, a, v) for v in range(N)]
            exp = all(any(vals[abs(l) - 1] == (l > 0) for l in c) for c in cls)
            ctx.count("sampled_assignments")
            if got != exp:
                ctx.violation("%s:sampled-models" % kind, "%s: an assignment %s the transformed formula but its induced assignment %s F"
                              % (label, "satisfies" if got else "falsifies", "falsifies" if got else "satisfies"),
                              F=cls, true_vars=sorted(a)[:40])
                break
        ctx.judged(("wide", kind, k, N, tuple(map(tuple, cls))), nontrivial=True,
                   sample={"F_clauses": cls, "transformation": [kind, k], "new_variables": nnew, "clauses": len(T), "mode": "sampled"})


def case_sampled(ctx, rseed, count):
    from ..refmodels.names import eval_formula
    r = ctx.rng("c05sampled", rseed)
    for _ in range(count):
        N = r.randint(2, 12)
        used = r.randint(1, N)
        cls = [[r.choice([1, -1]) * r.randint(1, used) for _ in range(r.choice([0, 1, 2, 3, 3, 4]))] for _ in range(r.randint(1, 14))]
        kind = r.choice(["xor", "or", "maj", "eq", "neq", "one", "exact", "atleast", "atmost", "anybut", "ite", "lift", "flip", "xorcomp", "majcomp"])
        if kind in ("xor", "or", "maj", "eq", "neq", "one"):
            params = [r.randint(2, 4 if kind == "xor" else 7)]
        elif kind in ("exact", "atleast", "atmost", "anybut"):
            n_ = r.randint(2, 6)
            params = [n_, r.randint(-1, n_ + 1)]
        elif kind == "lift":
            params = [r.randint(2, 5)]
        elif kind in ("xorcomp", "majcomp"):
            R = r.randint(3, 14)
            params = [[sorted(r.sample(range(1, R + 1), r.randint(0, min(R, 4 if kind == "xorcomp" else 6)))) for _ in range(N)], R,
                      r.choice(GRAPH_REPS)]
        else:
            params = []
        # substitutions distribute over clauses: keep the product of gadget sizes affordable
        width = max([len(c) for c in cls] or [0])
        blow = {"xor": 2 ** (params[0] - 1) if kind == "xor" else 1}.get(kind, 8)
        if kind == "xor" and blow ** width > 5000:
            cls = [c[:2] for c in cls]
        if kind in ("maj", "exact", "atleast", "atmost", "anybut", "majcomp") and width > 2:
            cls = [c[:2] for c in cls]
        F = build_input(N, cls)
        label = "%s%r on CNF(%d vars, %d clauses)" % (kind, params if kind not in ("xorcomp", "majcomp") else [params[1]], N, len(cls))
        st, T = ctx.call(apply_library, kind, params, F)
        ctx.count("library_calls")
        ctx.count("t_" + kind)
        if st == "exc":
            ctx.violation("%s:raises:%s" % (kind, type(T).__name__), "%s raised %r" % (label, T))
            continue
        nnew = new_numvar(kind, params, N)
        if T.number_of_variables() != nnew:
            ctx.violation("%s:numvar" % kind, "%s: %d variables, documented %d" % (label, T.number_of_variables(), nnew))
            continue
        ctx.count("sampled_cases")
        for j in range(120):
            p = r.choice([0.1, 0.3, 0.5, 0.5, 0.7, 0.9])
            a = {v for v in range(1, nnew + 1) if r.random() < p}
            if kind == "lift" and j % 3:
                k = params[0]
                for v in range(N):                      # exactly one selector per variable
                    for i in range(1, k + 1):
                        a.discard(v * 2 * k + k + i)
                    a.add(v * 2 * k + k + r.randint(1, k))
            got = eval_formula(T, a)
            valid = True
            if kind == "lift":
                k = params[0]
                valid = all(sum(1 for i in range(1, k + 1) if v * 2 * k + k + i in a) == 1 for v in range(N))
            vals = [gadget_value(kind, params, N, a, v) for v in range(N)]
            exp = valid and all(any(vals[abs(l) - 1] == (l > 0) for l in c) for c in cls)
            ctx.count("sampled_assignments")
            if got != exp:
                ctx.violation("%s:sampled-models" % kind, "%s: an assignment %s the transformed formula but its induced assignment %s F"
                              % (label, "satisfies" if got else "falsifies", "falsifies" if got else "satisfies"),
                              F=cls, params=params if kind not in ("xorcomp", "majcomp") else params[0][:6], true_vars=sorted(a)[:40])
                break
        ctx.judged(("sampled", tuple(map(tuple, cls)), N, kind, repr(params)), nontrivial=True,
                   sample={"F_vars": N, "F_clauses": len(cls), "transformation": [kind, params if kind not in ("xorcomp", "majcomp") else params[1]],
                           "new_variables": nnew, "mode": "sampled"})

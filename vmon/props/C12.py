"""C12 -- OPB and LaTeX renderings denote the formula held in memory.

Monitor shape: every rendering the code under test produces (to_opb(), to_latex(),
to_file() by explicit format / by extension / to stdout, the writer functions themselves,
`cnfgen -of opb|latex`, `pbgen`, real processes) is read back by an independent reader
(vmon.refmodels.c12_opb, vmon.refmodels.c12_latex) and compared, row by row, with the rows
the formula object holds.  For command lines the formula object is the one the tool hands
to `to_file` (observed by a pass-through tap), so random families need no re-generation.
"""
import hashlib
import io
import os
import shutil
import sys
import tempfile

from ..refmodels import c12_latex, c12_opb

PYTHON_O_STRIDE = {"quick": 4, "thorough": 2}      # every n-th case is repeated in an interpreter started with -O
RULE = ("formulas: seeded random CNF (clauses of width 0..6, repeated/opposite literals) and OPB "
        "(constraints entered through add_constraint with all five operators and negative "
        "coefficients, add_clause, cardinality_*, parity, majority; coefficients 1..9 and large, "
        "degrees -3..20 and large, empty constraints) with 0..80 rows around the 35/70-row page "
        "breaks, 0..14 variables with unnamed gaps, singleton and block names (with _, ^, braces, "
        "brackets, separators inside braces, non-ASCII), unused trailing variables; classes CNF, OPB, "
        "CNFio, OPBio; family formulas with their real names built from command lines; enumerated "
        "tiny formulas (empty formula vs empty row).  Each is rendered through to_opb, to_latex, "
        "to_file(opb|latex|by extension|file object|stdout) with header and varnames on/off, and "
        "through cnfgen/pbgen main() in-process and as real processes.  One evaluation = one "
        "rendering read back and compared; distinct = (digest of class, variable count, rows, "
        "names; rendering path and options); trivial = formula without any literal.")
ASSUMPTIONS = [
    "the two independent readers (written from the documented examples; they accept unsigned "
    "coefficients, an optional ';', and treat '\\n', '\\r\\n', '\\r' as line ends)",
    "the in-memory rows are what iterating the formula yields; variable names are what "
    "all_variable_labels(default_label_format) yields (alignment of names with groups is judged by C11)",
    "term / literal order inside a row is not compared (multisets); row order is",
    "names read back from LaTeX are compared up to the placement of braces: the renderer overlines the "
    "head of a name by inserting one closing brace, which regroups names whose first _ or ^ is nested "
    "in a group ({p_{1,1}}^1 -> \\overline{{p}_{1,1}}^1; same typeset result, different text)",
    "names outside the row parser's domain (unbalanced braces, leading \\overline{, non-strings) are "
    "not generated; formulas failing debug(allow_opposite, allow_repetition) are not inputs",
    "for command lines the formula is the object observed at the tool's to_file call; for real "
    "processes it is rebuilt in-process from the same (deterministic) command line",
]
REQUIRED = [
    "opb_texts_read", "locale_exports", "latex_snippets_read", "latex_documents_read",
    "opb_rows_compared", "latex_rows_compared",
    "cnf_formulas", "opb_formulas", "rows_equality", "rows_geq", "coefficients_above_one",
    "negative_degrees", "empty_rows", "empty_formulas", "negated_literals_rendered",
    "named_variables_rendered", "unused_trailing_variables",
    "page_splits_seen", "documents_with_three_pages",
    "opb_with_header", "opb_without_header", "opb_with_varnames", "opb_comment_lines",
    "path_to_opb", "path_to_latex", "path_file_explicit_format", "path_file_by_extension",
    "path_file_object_with_name", "path_stdout", "path_writer_function",
    "cli_runs_judged", "cli_opb", "cli_latex", "cli_by_extension", "pbgen_runs", "process_runs_judged",
    "family_formulas", "empty_formula_vs_empty_row_compared",
    "shield_header_cases", "shield_varname_cases", "shield_controls_silent",
    "long_line_cases",
]
CASE_TIMEOUT = {"quick": 120, "thorough": 600}

LATEX_DEFAULT = "x_{}"
OPB_DEFAULT = "x{}"


# --------------------------------------------------------------------------- memory side
def classes():
    from cnfgen.formula.cnf import CNF
    from cnfgen.formula.opb import OPB
    from cnfgen.formula.cnfio import CNFio
    from cnfgen.formula.opbio import OPBio
    return {"CNF": CNF, "OPB": OPB, "CNFio": CNFio, "OPBio": OPBio}


def is_int(x):
    return isinstance(x, int) and not isinstance(x, bool)


class Memory:
    """What the formula object holds, in the shape both comparisons need."""

    def __init__(self, F):
        from cnfgen.formula.baseopb import BaseOPB
        self.cls = type(F).__name__
        self.kind = "opb" if isinstance(F, BaseOPB) else "cnf"
        self.n = F.number_of_variables()
        self.rows = []                       # (terms, op, degree), op in '>=', '=='
        self.ok = is_int(self.n) and self.n >= 0
        for row in F:
            if self.kind == "cnf":
                terms, op, deg = [(1, l) for l in row], ">=", 1
            else:
                row = list(row)
                if len(row) < 2:
                    self.ok = False
                    break
                terms, op, deg = [tuple(t) for t in row[:-2]], row[-2], row[-1]
            if not (op in (">=", "==") and is_int(deg) and
                    all(len(t) == 2 and is_int(t[0]) and t[0] > 0 and is_int(t[1]) and 1 <= abs(t[1]) <= self.n
                        for t in terms)):
                self.ok = False               # the library calls such a formula corrupted
                break
            self.rows.append((terms, op, deg))
        self.names = {}

    def labels(self, F, fmt):
        if fmt not in self.names:
            self.names[fmt] = list(F.all_variable_labels(default_label_format=fmt))
        return self.names[fmt]

    def digest(self, F):
        lab = self.labels(F, LATEX_DEFAULT)
        return hashlib.blake2b(repr((self.cls, self.n, self.rows, lab)).encode("utf-8", "replace"),
                               digest_size=10).hexdigest()

    def has_literal(self):
        return any(terms for terms, _, _ in self.rows)


def observe_formula(ctx, mem):
    """Counters describing what kind of rows the monitors saw."""
    ctx.count("cnf_formulas" if mem.kind == "cnf" else "opb_formulas")
    if not mem.rows:
        ctx.count("empty_formulas")
    used = 0
    for terms, op, deg in mem.rows:
        ctx.count("rows_equality" if op == "==" else "rows_geq")
        if not terms:
            ctx.count("empty_rows")
        if deg < 0:
            ctx.count("negative_degrees")
        if any(c > 1 for c, _ in terms):
            ctx.count("coefficients_above_one")
        for _, l in terms:
            used = max(used, abs(l))
    if mem.rows and used < mem.n:
        ctx.count("unused_trailing_variables")


# --------------------------------------------------------------------------- OPB judge
def row_difference(exp, got):
    """Semantic class of the difference between two rows (terms, op, degree) or None."""
    (et, eo, ed), (gt, go, gd) = exp, got
    if eo != go:
        return "relation-differs"
    if ed != gd:
        return "degree-differs"
    if sorted(et) == sorted(gt):
        return None
    if sorted(l for _, l in et) == sorted(l for _, l in gt):
        return "coefficient-differs"
    if sorted(abs(l) for _, l in et) == sorted(abs(l) for _, l in gt) and \
            sorted(c for c, _ in et) == sorted(c for c, _ in gt):
        return "polarity-differs"
    return "literals-differ"


def continuation_pieces(texts):
    """Lines 2.. of every text that spans several lines."""
    out = []
    for t in texts:
        out.extend(c12_opb.LINE_END.split(t)[1:])
    return out


def judge_opb(ctx, F, mem, text, path, header, varnames):
    """Decide one OPB text.  Returns True when nothing was objected."""
    who = "opb-text:%s:" % ("CNF" if mem.kind == "cnf" else "OPB")
    ctx.count("opb_texts_read")
    ctx.count("opb_with_header" if header else "opb_without_header")
    if varnames:
        ctx.count("opb_with_varnames")
    # what a header value / a name with a line break would push out of its comment line
    leak_h = leak_v = []
    if header:
        leak_h = continuation_pieces(
            ("* {}: {}".format(k, v)).encode("ascii", errors="replace").decode("ascii")
            for k, v in F.header.items())
    if varnames:
        leak_v = continuation_pieces("* varname x{} {}".format(i, l)
                                     for i, l in enumerate(mem.labels(F, OPB_DEFAULT), start=1))
    leaks = [(p, "header-value") for p in leak_h] + [(p, "variable-name") for p in leak_v]

    def leak_mechanism(source):
        return "opb-text:%s-with-line-break-leaves-the-comment" % source

    res = c12_opb.read_opb(text, check_counts=False)
    if isinstance(res, c12_opb.Rejection):
        if res.kind == "stray-line":
            src = next((s for p, s in leaks if p == res.text), None)
            if src:
                ctx.violation(leak_mechanism(src),
                              "%s: line %d %r is neither a comment nor a constraint: a %s spanning several "
                              "lines is written after a single comment marker"
                              % (path, res.line, res.text, src.replace("-", " ")), text=text[:1500])
            else:
                ctx.violation(who + "line-neither-comment-nor-constraint",
                              "%s: %r" % (path, res), text=text[:1500])
        elif res.kind == "no-header":
            ctx.violation(who + "first-line-is-not-the-counts-line", "%s: %r" % (path, res), text=text[:600])
        else:
            ctx.violation(who + "unreadable:" + res.kind, "%s: %r" % (path, res), text=text[:600])
        return False
    ok = True
    ctx.count("opb_comment_lines", len(res.comments))
    if res.variables != mem.n:
        ctx.violation(who + "declared-variable-count-differs",
                      "%s: header declares %d variables, the formula has %d" % (path, res.variables, mem.n),
                      text=text[:600])
        ok = False
    if res.constraints != len(mem.rows):
        ctx.violation(who + "declared-constraint-count-differs",
                      "%s: header declares %d constraints, the formula has %d"
                      % (path, res.constraints, len(mem.rows)), text=text[:600])
        ok = False
    got = list(res.rows)
    if len(got) != len(mem.rows) or any(row_difference(e, g) for e, g in zip(mem.rows, got)):
        # a continuation piece that happens to look like a constraint is read as one
        injected = [(p, s) for p, s in leaks if p.strip() and not p.startswith("*")
                    and not isinstance(c12_opb.parse_constraint(p), c12_opb.Rejection)]
        if injected and len(got) == len(mem.rows) + len(injected) and \
                not any(row_difference(e, g) for e, g in zip(mem.rows, got[len(injected):])):
            ctx.violation(leak_mechanism(injected[0][1]),
                          "%s: the continuation line %r of a %s is read as a constraint of the formula"
                          % (path, injected[0][0], injected[0][1].replace("-", " ")), text=text[:1500])
            return False
    if len(got) != len(mem.rows):
        ctx.violation(who + "constraint-line-count-differs",
                      "%s: %d constraint lines for %d rows in memory" % (path, len(got), len(mem.rows)),
                      text=text[:1500])
        return False
    for k, (e, g) in enumerate(zip(mem.rows, got)):
        ctx.count("opb_rows_compared")
        d = row_difference(e, g)
        if d:
            ctx.violation(who + d, "%s: constraint %d (line %d) reads %r, memory holds %r"
                          % (path, k, res.row_lines[k], g, e), text=text[:1500])
            return False
    return ok


# --------------------------------------------------------------------------- LaTeX judge
def latex_row_difference(kind, exp, got):
    if kind == "cnf":
        et = [(1, p, nm) for p, nm in exp]
        gt = [(1, p, nm) for p, nm in got]
        eo = go = ed = gd = None
    else:
        (et, eo, ed), (gt, go, gd) = exp, got
    if eo != go:
        return "relation-differs"
    if ed != gd:
        return "bound-differs"
    if sorted(et) == sorted(gt):
        return None
    if len(et) != len(gt):
        return "literal-count-differs"
    if sorted((p, nm) for _, p, nm in et) == sorted((p, nm) for _, p, nm in gt):
        return "coefficient-differs"
    if sorted(nm for _, _, nm in et) == sorted(nm for _, _, nm in gt):
        return "polarity-differs"
    return "names-differ"


def judge_latex(ctx, F, mem, text, path, form):
    """form: 'snippet' | 'document'.  True / False / None (not decidable: names outside the domain)."""
    who = "latex-%s:%s:" % (form, "CNF" if mem.kind == "cnf" else "OPB")
    names = mem.labels(F, LATEX_DEFAULT)
    if len(names) != mem.n or not all(c12_latex.name_is_parsable(nm) for nm in names):
        ctx.count("latex_skipped_names_outside_parser_domain")
        return None
    ctx.count("latex_snippets_read" if form == "snippet" else "latex_documents_read")
    res = (c12_latex.read_latex if form == "snippet" else c12_latex.read_latex_document)(text)
    if isinstance(res, c12_latex.Rejection):
        ctx.violation(who + "unreadable:" + res.kind, "%s: %r" % (path, res), text=text[:1500])
        return False
    if form == "document":
        # the sentence that introduces the formula declares its size
        import re as _re
        m_ = _re.search(r"with (\d+) variables and (?:and )?(\d+) (clauses|constraints)", text)
        if m_:
            ctx.count("latex_documents_declaring_their_size")
            if int(m_.group(1)) != mem.n or int(m_.group(2)) != len(mem.rows):
                ctx.violation(who + "declared-size-differs", "%s: the document says %r, the formula has %d variables and %d rows"
                              % (path, m_.group(0), mem.n, len(mem.rows)), text=text[:1200])
                return False
    if len(res.blocks) > 1:
        ctx.count("page_splits_seen", len(res.blocks) - 1)
        if len(res.blocks) >= 3:
            ctx.count("documents_with_three_pages")
    if not mem.rows:
        if not res.top or res.rows:
            ctx.violation(who + "empty-formula-not-rendered-as-such",
                          "%s: the formula has no row, the rendering shows %d" % (path, len(res.rows)),
                          text=text[-600:])
            return False
        return True
    if res.top or len(res.rows) != len(mem.rows):
        ctx.violation(who + "row-count-differs",
                      "%s: %d rows rendered (pages %r) for %d rows in memory"
                      % (path, len(res.rows), res.blocks, len(mem.rows)), text=text[-1500:])
        return False
    if res.kind != mem.kind:
        ctx.violation(who + "wrong-row-type", "%s: rows are rendered as %s rows" % (path, res.kind),
                      text=text[-800:])
        return False
    for k, ((terms, op, deg), got) in enumerate(zip(mem.rows, res.rows)):
        ctx.count("latex_rows_compared")
        bare = c12_latex.bare_name
        if mem.kind == "cnf":
            exp = [(l > 0, bare(names[abs(l) - 1])) for _, l in terms]
            got = [(p, bare(nm)) for p, nm in got]
        else:
            exp = ([(c, l > 0, bare(names[abs(l) - 1])) for c, l in terms], op, deg)
            got = ([(c, p, bare(nm)) for c, p, nm in got[0]], got[1], got[2])
        d = latex_row_difference(mem.kind, exp, got)
        if d:
            ctx.violation(who + d, "%s: row %d shows %r, memory holds %r" % (path, k, got, exp),
                          text=text[-1500:])
            return False
    if any(l < 0 for terms, _, _ in mem.rows for _, l in terms):
        ctx.count("negated_literals_rendered")
    if any(names[abs(l) - 1] != LATEX_DEFAULT.format(abs(l)) for terms, _, _ in mem.rows for _, l in terms):
        ctx.count("named_variables_rendered")
    return True


# --------------------------------------------------------------------------- rendering paths
class StdoutCapture:
    def __enter__(self):
        self.old = sys.stdout
        sys.stdout = self.buf = io.StringIO()
        return self.buf

    def __exit__(self, *exc):
        sys.stdout = self.old


def render(ctx, F, path, tmpdir, serial):
    """Run one rendering path (how, fmt, header, varnames) -> ('ok', text) | ('exc', exception)."""
    from cnfgen.utils.opb import to_opb_file
    from cnfgen.utils.latexoutput import to_latex_document, to_latex_string
    how, fmt, header, varnames = path
    ext = {"opb": ".opb", "latex": ".tex"}[fmt]
    kw = {"export_header": header, "export_varnames": varnames}
    if how == "to_opb":
        ctx.count("path_to_opb")
        st, val = ctx.call(F.to_opb)
        return st, val
    if how == "to_latex":
        ctx.count("path_to_latex")
        st, val = ctx.call(F.to_latex)
        return st, val
    if how == "explicit":                       # text stream without a name, format requested
        ctx.count("path_file_explicit_format")
        buf = io.StringIO()
        st, val = ctx.call(F.to_file, buf, fmt, **kw)
        return st, (buf.getvalue() if st == "ok" else val)
    if how == "extension":                      # file name, format guessed
        ctx.count("path_file_by_extension")
        name = os.path.join(tmpdir, "f%d%s" % (serial, ext))
        st, val = ctx.call(F.to_file, name, **kw)
        return st, (open(name, encoding="utf-8").read() if st == "ok" else val)
    if how == "fileobject":                     # open file with a .name, format guessed
        ctx.count("path_file_object_with_name")
        name = os.path.join(tmpdir, "g%d%s" % (serial, ext))
        with open(name, "w", encoding="utf-8") as fh:
            st, val = ctx.call(F.to_file, fh, None, **kw)
        return st, (open(name, encoding="utf-8").read() if st == "ok" else val)
    if how == "stdout":
        ctx.count("path_stdout")
        with StdoutCapture() as buf:
            st, val = ctx.call(F.to_file, None, fmt, **kw)
        return st, (buf.getvalue() if st == "ok" else val)
    if how == "writer":                         # the writer functions themselves
        ctx.count("path_writer_function")
        buf = io.StringIO()
        if fmt == "opb":
            st, val = ctx.call(to_opb_file, F, buf, **kw)
        elif header is None:
            st, val = ctx.call(to_latex_string, F)
            return st, val
        else:
            st, val = ctx.call(to_latex_document, F, buf, export_header=header)
        return st, (buf.getvalue() if st == "ok" else val)
    raise AssertionError(how)


FILE_HOWS = ("explicit", "extension", "fileobject", "stdout", "writer")


def all_paths():
    out = [("to_opb", "opb", False, False), ("to_latex", "latex", None, None),
           ("writer", "latex", None, None)]
    for how in FILE_HOWS:
        for header in (True, False):
            for varnames in (True, False):
                out.append((how, "opb", header, varnames))
            out.append((how, "latex", header, False))
    return out


def judge_rendering(ctx, F, mem, fid, path, tmpdir, serial, sample=None):
    how, fmt, header, varnames = path
    st, text = render(ctx, F, path, tmpdir, serial)
    label = "%s %s(%s, header=%r, varnames=%r)" % (mem.cls, how, fmt, header, varnames)
    nontrivial = mem.has_literal()
    if st == "exc":
        ctx.violation("render:%s:%s:raises:%s" % (fmt, mem.kind.upper(), type(text).__name__),
                      "%s raised %r on a well-formed formula" % (label, text), rows=mem.rows[:5], n=mem.n)
    elif not isinstance(text, str):
        ctx.violation("render:%s:not-a-text" % fmt, "%s returned %r" % (label, type(text).__name__))
    elif fmt == "opb":
        judge_opb(ctx, F, mem, text, label, bool(header), bool(varnames))
    else:
        form = "snippet" if header is None else "document"
        if judge_latex(ctx, F, mem, text, label, form) is None:
            return
    ctx.judged((fid, path), nontrivial=nontrivial, sample=sample)


def judge_formula(ctx, F, r, tmpdir, serial, npaths, origin):
    """All / some rendering paths of one formula."""
    mem = Memory(F)
    if not mem.ok:
        ctx.count("formulas_outside_domain_skipped")
        return
    labels = mem.labels(F, LATEX_DEFAULT)
    if len(labels) != mem.n or not all(isinstance(x, str) for x in labels):
        ctx.count("formulas_with_unusable_labels_skipped")       # C11's business
        return
    observe_formula(ctx, mem)
    fid = mem.digest(F)
    paths = all_paths()
    if npaths is not None and npaths < len(paths):
        chosen = paths[:3] + r.sample(paths[3:], npaths - 3)      # the two snippets always
        # one document at least: the page split lives there
        if not any(p[1] == "latex" and p[2] is not None for p in chosen):
            chosen.append(r.choice([p for p in paths if p[1] == "latex" and p[2] is not None]))
    else:
        chosen = paths
    sample = {"origin": origin, "class": mem.cls, "variables": mem.n, "rows": len(mem.rows),
              "first_rows": mem.rows[:2], "names": labels[:3]}
    for i, p in enumerate(chosen):
        judge_rendering(ctx, F, mem, fid, p, tmpdir, serial * 100 + i, sample)


# --------------------------------------------------------------------------- formula generators
SINGLE_NAMES = ["X", "Y'", "y7", "_a", "a_", "z^2_3", "q_1^2", "{x}^{1}", "{{p_{{1,1}}}}^{i}",
                "(f_{1}(2))_{0}", "e[1]_{1,2}", "f(1)=2", "G_1(1,2)", "a + b", "u \\lor v", "s = t_1",
                "\\geq", "\\square", "\\top", "0", "12", "r \\\\ s", "c & d", "π_1", "ü", "",
                " w ", "X_{p_{1,1}}^2", "\\land", "m\\right)", "-3", "k_", "^", "_", "x_1", "x1",
                "\\left( t", "~x1", "+2 x1 >= 1", "* c"]
BLOCK_FORMATS = [((2, 2), "p_{{{},{}}}"), ((3,), "{{x}}^{{{}}}"), ((2, 2), "(f_{{{}}}({}))_{{0}}"),
                 ((1, 2, 2), "e[{}]_{{{},{}}}"), ((2, 2), "f({})={}"), ((2, 2), "v({},{})"), ((3,), "x_{{{}}}"),
                 ((4,), "R_{{{}}}"), ((2, 1), "G_{}(1,{})"), ((2,), "w{}"), ((2, 2), "x_{{{}{}}}"),
                 ((2,), "a + {}"), ((3,), "y^{}_0")]


def name_variables(r, F, want):
    """Give `F` about `want` variables: unnamed gaps, singletons, blocks."""
    plan = r.random()
    if plan < 0.35 or not hasattr(F, "new_variable"):
        if want and r.random() < 0.6:
            F.update_variable_number(want)
        return
    while F.number_of_variables() < want:
        x = r.random()
        if x < 0.25:
            F.update_variable_number(F.number_of_variables() + r.randint(1, 3))
        elif x < 0.65:
            F.new_variable(label=r.choice(SINGLE_NAMES))
        else:
            ranges, fmt = r.choice(BLOCK_FORMATS)
            F.new_block(*ranges, label=fmt)


ROW_COUNTS = [0, 1, 2, 3, 5, 8, 13, 21, 34, 35, 36, 37, 69, 70, 71, 72, 80]


def pick_rows(r, profile):
    if profile == "small":
        return r.choice([0, 1, 1, 2, 3, 4, 5, 6, 8])
    if profile == "pages":
        return r.choice([34, 35, 36, 37, 69, 70, 71, 72, 80, 105, 106])
    return r.choice(ROW_COUNTS + [r.randint(0, 80)])


def random_lits(r, n, width):
    return [r.choice((1, -1)) * r.randint(1, n) for _ in range(width)]


def random_cnf(r, clsname, profile):
    K = classes()[clsname]
    F = K()
    want = r.randint(0, 14)
    name_variables(r, F, want)
    nrows = pick_rows(r, profile)
    top = max(F.number_of_variables(), 1)
    if r.random() < 0.3:
        top += r.randint(1, 2)              # clauses may introduce variables of their own
    for _ in range(nrows):
        x = r.random()
        width = 0 if x < 0.06 else (1 if x < 0.2 else r.randint(2, 6))
        F.add_clause(random_lits(r, top, width))
    if r.random() < 0.25:
        F.update_variable_number(F.number_of_variables() + r.randint(1, 3))
    return F


def big(r):
    return r.choice([10, 99, 100, 12345, 10 ** 6, 2 ** 31, 2 ** 63 + 1, 10 ** 30])


def random_opb(r, clsname, profile):
    K = classes()[clsname]
    F = K()
    want = r.randint(0, 14)
    name_variables(r, F, want)
    nrows = pick_rows(r, profile)
    top = max(F.number_of_variables(), 1)
    if r.random() < 0.3:
        top += r.randint(1, 2)
    while len(F) < nrows:
        x = r.random()
        width = 0 if r.random() < 0.07 else r.randint(1, 6)
        if x < 0.62:
            terms = []
            for l in random_lits(r, top, width):
                c = r.randint(1, 9) if r.random() < 0.9 else big(r)
                if r.random() < 0.3:
                    c = -c
                terms.append((c, l))
            op = r.choice(["<=", ">=", "<", ">", "==", "==", ">="])
            deg = r.randint(-3, 20) if r.random() < 0.85 else r.choice([-1, 1]) * big(r)
            F.add_constraint(terms + [op, deg])
        elif x < 0.72:
            F.add_clause(random_lits(r, top, width))
        elif x < 0.92:
            lits = random_lits(r, top, width)
            name = r.choice(["cardinality_geq", "cardinality_leq", "cardinality_eq"])
            getattr(F, name)(lits, r.randint(-1, width + 1))
        elif x < 0.96:
            lits = sorted(set(abs(l) for l in random_lits(r, top, min(width, 3))))
            F.add_parity(lits, r.randint(0, 1))
        else:
            lits = random_lits(r, top, width)
            getattr(F, r.choice(["add_loose_majority", "add_strict_majority",
                                 "add_loose_minority", "add_strict_minority"]))(lits)
    if r.random() < 0.25:
        F.update_variable_number(F.number_of_variables() + r.randint(1, 3))
    return F


class TempDir:
    def __enter__(self):
        self.path = tempfile.mkdtemp(prefix="vmon-c12.", dir=os.environ.get("TMPDIR", "/tmp"))
        return self.path

    def __exit__(self, *exc):
        shutil.rmtree(self.path, ignore_errors=True)


# --------------------------------------------------------------------------- cases: library
def case_random(ctx, cls, profile, rseed, count, npaths):
    r = ctx.rng("c12-random", cls, profile, rseed)
    gen = random_cnf if cls.startswith("CNF") else random_opb
    with TempDir() as tmp:
        for i in range(count):
            st, F = ctx.call(gen, r, cls, profile)
            if st == "exc":
                # building is not what C12 judges (C04/C10 do); the builders are given legal arguments
                ctx.count("builder_refusals_not_judged")
                continue
            judge_formula(ctx, F, r, tmp, i, npaths, "random %s, profile %s" % (cls, profile))


def tiny_formulas():
    K = classes()
    out = []
    for name in ("CNF", "CNFio"):
        C = K[name]
        out += [(name + "()", C()), (name + "([[]])", C([[]])), (name + "([[],[]])", C([[], []])),
                (name + "([[1]])", C([[1]])), (name + "([[-1]])", C([[-1]])),
                (name + "([[1,-2],[]])", C([[1, -2], []])), (name + "([[],[2,-1]])", C([[], [2, -1]])),
                (name + "([[1,1],[1,-1]])", C([[1, 1], [1, -1]]))]
        F = C()
        F.update_variable_number(3)
        out.append((name + "() with 3 variables", F))
    for name in ("OPB", "OPBio"):
        C = K[name]
        out.append((name + "()", C()))
        for con in ([">=", 0], [">=", 1], ["==", 0], [">=", -2], ["==", 3], ["<", 0], ["<=", -1],
                    [(1, 1), ">=", 1], [(1, -1), "==", 1], [(2, 1), (3, -2), ">=", 2], [(2, 1), (2, 1), "==", -4],
                    [(-2, 1), (1, 2), "<", 0], [(1, 1), (1, -1), ">", 0]):
            F = C()
            F.add_constraint(list(con))
            out.append(("%s + add_constraint(%r)" % (name, con), F))
        F = C()
        F.add_clause([])
        out.append((name + " + add_clause([])", F))
        F = C()
        F.add_constraint([">=", 0])
        F.add_constraint([(1, 2), ">=", 1])
        F.add_constraint(["==", 0])
        out.append((name + " with empty constraints around a unit one", F))
        F = C()
        F.update_variable_number(2)
        out.append((name + "() with 2 variables", F))
    return out


def case_tiny(ctx):
    """Every rendering path on enumerated tiny formulas; empty formula vs empty row."""
    r = ctx.rng("c12-tiny")
    with TempDir() as tmp:
        forms = tiny_formulas()
        for i, (what, F) in enumerate(forms):
            judge_formula(ctx, F, r, tmp, i, None, what)
        # "the empty clause and the empty formula rendered distinctly"
        K = classes()
        pairs = [("CNF", K["CNF"](), K["CNF"]([[]])), ("CNFio", K["CNFio"](), K["CNFio"]([[]]))]
        for name in ("OPB", "OPBio"):
            for con in ([">=", 0], [">=", 1], ["==", 0]):
                E = K[name]()
                E.add_constraint(list(con))
                pairs.append((name, K[name](), E))
        for name, empty, one in pairs:
            for how in ("snippet", "document"):
                texts = []
                for F in (empty, one):
                    if how == "snippet":
                        st, t = ctx.call(F.to_latex)
                    else:
                        buf = io.StringIO()
                        st, t = ctx.call(F.to_file, buf, "latex", export_header=False)
                        t = buf.getvalue() if st == "ok" else t
                    texts.append((st, t))
                if any(st == "exc" for st, _ in texts):
                    continue            # judged (as an exception) by judge_formula above
                ctx.count("empty_formula_vs_empty_row_compared")
                # the documents differ in their counts line anyway: compare the formula part
                parts = [t[max(t.find("\\begin{align}"), 0):] for _, t in texts]
                if parts[0] == parts[1]:
                    ctx.violation("latex-%s:empty-formula-and-empty-row-look-the-same" % how,
                                  "%s: the empty formula and the formula %r are both rendered as %r"
                                  % (name, list(one), parts[0]))
                ctx.judged(("distinct", name, how, repr(list(one))), nontrivial=False)


def build_from_argv(ctx, argv):
    from ..cliharness import cli_formula
    try:
        return cli_formula(argv[0], list(argv))
    except SystemExit:
        return None
    except Exception:               # noqa: BLE001 -- a refused command line is C18's subject
        return None


def case_family(ctx, argvs, npaths):
    """Family formulas (real names) built from command lines, rendered by the library paths."""
    r = ctx.rng("c12-family", repr(argvs))
    with TempDir() as tmp:
        for i, argv in enumerate(argvs):
            F = build_from_argv(ctx, argv)
            if F is None:
                ctx.count("family_refused_not_judged")
                continue
            ctx.count("family_formulas")
            judge_formula(ctx, F, r, tmp, i, npaths, " ".join(argv))


# --------------------------------------------------------------------------- cases: command line
class ToFileTap:
    """Pass-through observation of the formula a tool hands to to_file()."""

    def __enter__(self):
        import cnfgen.formula.cnfio as a
        import cnfgen.formula.opbio as b
        self.saved = [(a.CNFio, a.CNFio.__dict__["to_file"]), (b.OPBio, b.OPBio.__dict__["to_file"])]
        self.calls = []
        tap = self

        def wrap(orig):
            def to_file(this, *args, **kw):
                tap.calls.append((this, args, kw))
                return orig(this, *args, **kw)
            return to_file
        for cls, orig in self.saved:
            cls.to_file = wrap(orig)
        return self

    def __exit__(self, *exc):
        for cls, orig in self.saved:
            cls.to_file = orig


def expected_format(tool, opts):
    """Format the documentation promises for these output options."""
    if "-l" in opts or "--latex" in opts:
        return "latex"
    for flag in ("-of", "--output-format"):
        if flag in opts:
            return opts[opts.index(flag) + 1]
    if tool == "pbgen":                 # documented default: opb, whatever the file is called
        return "opb"
    for flag in ("-o", "--output"):     # cnfgen: no request -> by extension (guess_output_format)
        if flag in opts:
            ext = os.path.splitext(opts[opts.index(flag) + 1])[1]
            if ext == ".tex":
                return "latex"
            if ext == ".opb":
                return "opb"
    return "dimacs"


def case_cli(ctx, runs):
    """main() of cnfgen / pbgen in-process; the text is judged against the tapped formula."""
    from ..cliharness import run_main
    with TempDir() as tmp:
        for i, (tool, opts, rest) in enumerate(runs):
            opts = [o.replace("@TMP@", tmp) for o in opts]
            fmt = expected_format(tool, opts)
            argv = opts + list(rest)
            with ToFileTap() as tap:
                out = run_main(tool, argv)
            label = "%s %s" % (tool, " ".join(argv).replace(tmp, "<tmp>"))
            if out.exc is not None or out.rc not in (0, None) or len(tap.calls) != 1:
                for this, args, kw in tap.calls:
                    if args and hasattr(args[0], "close") and args[0] not in (sys.stdout, sys.__stdout__):
                        args[0].close()
                ctx.count("cli_refused_not_judged")     # error behaviour is C18's subject
                continue
            F, args, kw = tap.calls[0]
            target = args[0] if args else kw.get("fileorname")
            text = out.out
            to_path = None
            for flag in ("-o", "--output"):
                if flag in opts and opts[opts.index(flag) + 1] != "-":
                    to_path = opts[opts.index(flag) + 1]
            if to_path is not None:
                if hasattr(target, "close"):
                    target.close()           # a real process flushes at exit
                text = open(to_path, encoding="utf-8").read()
                if tool == "cnfgen" and not {"-of", "--output-format", "-l", "--latex"} & set(opts):
                    ctx.count("cli_by_extension")
            header = bool(kw.get("export_header", True))
            varnames = bool(kw.get("export_varnames", False))
            mem = Memory(F)
            if not mem.ok:
                ctx.count("formulas_outside_domain_skipped")
                continue
            labels = mem.labels(F, LATEX_DEFAULT)
            if len(labels) != mem.n or not all(isinstance(x, str) for x in labels):
                ctx.count("formulas_with_unusable_labels_skipped")
                continue
            observe_formula(ctx, mem)
            ctx.count("cli_runs_judged")
            if tool == "pbgen":
                ctx.count("pbgen_runs")
            if fmt == "opb":
                ctx.count("cli_opb")
                judge_opb(ctx, F, mem, text, label, header, varnames)
            elif fmt == "latex":
                ctx.count("cli_latex")
                if judge_latex(ctx, F, mem, text, label, "document") is None:
                    continue
            else:
                continue
            ctx.judged(("cli", tool, tuple(a.replace(tmp, "<tmp>") for a in argv), mem.digest(F)),
                       nontrivial=mem.has_literal(),
                       sample={"command": label, "class": mem.cls, "variables": mem.n, "rows": len(mem.rows)})


def case_process(ctx, runs):
    """Real processes; the formula is rebuilt in-process from the same deterministic command line."""
    from ..cliharness import spawn
    for tool, opts, rest in runs:
        fmt = expected_format(tool, opts)
        F = build_from_argv(ctx, [tool] + list(rest))
        if F is None:
            ctx.count("family_refused_not_judged")
            continue
        mem = Memory(F)
        if not mem.ok:
            ctx.count("formulas_outside_domain_skipped")
            continue
        out = spawn(tool, list(opts) + list(rest))
        label = "process: %s %s" % (tool, " ".join(list(opts) + list(rest)))
        if out.rc != 0:
            ctx.count("cli_refused_not_judged")
            continue
        ctx.count("process_runs_judged")
        header = "-q" not in opts
        varnames = "--varnames" in opts
        # the header of the rebuilt object names another command line: only its line structure matters
        if fmt == "opb":
            judge_opb(ctx, F, mem, out.out, label, header, varnames)
        else:
            if judge_latex(ctx, F, mem, out.out, label, "document") is None:
                continue
        ctx.judged(("process", tool, tuple(opts), tuple(rest)), nontrivial=mem.has_literal(),
                   sample={"command": label, "variables": mem.n, "rows": len(mem.rows)})


# --------------------------------------------------------------------------- cases: comment shield
CONTINUATIONS = ["second line", "+1 x1 >= 1", "", "x", "p cnf 1 1", "  indented", "+1 x1 = 1 ;", "0"]


def shield_formula(cls, name=None):
    """A three-variable formula; `name` (if given) is the label of its first variable."""
    K = classes()[cls]
    F = K()
    if name is not None:
        F.new_variable(label=name)
    if cls == "CNF":
        F.add_clauses_from([[1, -2], [2, 3], [-1]])
        return F
    F.add_constraint([(2, 1), (1, -2), ">=", 2])
    F.add_constraint([(1, 2), (1, 3), "==", 1])
    return F


def case_shield(ctx, cls, where):
    """Header values / variable names spanning several lines must stay inside comments.

    where: 'header' | 'varname'.  Controls: the same formula exported with that part
    switched off, and continuation lines that are comments themselves."""
    with TempDir() as tmp:
        serial = 0
        for cont in CONTINUATIONS + ["* a comment of its own"]:
            # line ends as the reference reader (and any text-mode reader) understands them: LF, CR LF and a bare CR
            for sep in ("\n", "\n\n", "\r\n", "\r", "\r\r") if cont == "second line" else ("\n", "\r") if cont in ("+1 x1 >= 1", "x", "0") else ("\n",):
                for how in ("explicit", "extension", "writer"):
                    value = "first line" + sep + cont
                    if where == "header":
                        F = shield_formula(cls)
                        F.header["note"] = value
                    else:
                        F = shield_formula(cls, name=value)
                    mem = Memory(F)
                    fid = mem.digest(F)
                    for header, varnames in ((True, True), (where != "header", where != "varname")):
                        serial += 1
                        hostile_on = header if where == "header" else varnames
                        harmless = cont.startswith("*") and sep == "\n"
                        st, text = render(ctx, F, (how, "opb", header, varnames), tmp, serial)
                        label = "%s %s(opb, header=%r, varnames=%r), %s %r" % (
                            cls, how, header, varnames, where, value)
                        before = ctx.counters["violations_raw"]
                        if st == "exc":
                            ctx.violation("render:opb:%s:raises:%s" % (mem.kind.upper(), type(text).__name__),
                                          "%s raised %r" % (label, text))
                        else:
                            judge_opb(ctx, F, mem, text, label, header, varnames)
                        if hostile_on and not harmless:
                            ctx.count("shield_%s_cases" % where)
                        elif ctx.counters["violations_raw"] == before:
                            ctx.count("shield_controls_silent")
                        ctx.judged(("shield", cls, where, value, how, header, varnames, fid),
                                   sample={"class": cls, "spanning_" + where: value, "path": how,
                                           "header": header, "varnames": varnames})


class _Multiline:
    """An object whose text form spans several lines."""
    def __init__(self, text):
        self.text = text

    def __str__(self):
        return self.text

    __repr__ = __str__


def case_header_values(ctx, cls):
    """Header values that are not plain strings (lists, tuples, dicts, numbers, objects) with line breaks inside:
    whatever the writer makes of them must stay inside the comments."""
    with TempDir() as tmp:
        serial = 0
        for cont in CONTINUATIONS[:6] + ["+1 x1 +1 x2 >= 2", "* #variable= 9 #constraint= 9"]:
            text = "second step\n" + cont
            values = [["first step", text], ("first step", text), [text], (text,), {"step": text}, {text: 1}, [["nested", text]],
                      _Multiline(text), [_Multiline(text), 2], 7, 2.5, None, True, ["one", "two"], (), [], {"a": "b"}, text.encode()]
            for vi, value in enumerate(values):
                how = ("explicit", "extension", "writer")[(vi + serial) % 3]
                F = shield_formula(cls)
                F.header["note"] = value
                F.header[("steps", vi) if vi % 5 == 4 else "steps %d" % vi] = value
                mem = Memory(F)
                fid = mem.digest(F)
                serial += 1
                st, out = render(ctx, F, (how, "opb", True, True), tmp, serial)
                label = "%s %s(opb, header and varnames on), header value %r" % (cls, how, value)
                if st == "exc":
                    ctx.violation("render:opb:%s:raises:%s" % (mem.kind.upper(), type(out).__name__), "%s raised %r" % (label, out))
                else:
                    judge_opb(ctx, F, mem, out, label, True, True)
                ctx.count("header_value_cases")
                ctx.count("header_value_type_" + type(value).__name__)
                ctx.judged(("header-value", cls, cont, vi, how, fid), sample={"class": cls, "header_value": repr(value)[:80], "path": how})


def case_user_classes(ctx, rseed, count):
    """Formulas of a user's own subclass of CNF / OPB that present their rows through the sequence protocol while the
    inherited table holds other rows (vmon/ducks.py), and pseudo-Boolean rows whose (coefficient, literal) pairs are
    lists: every rendering must show what the object presents."""
    from ..ducks import view_cnf, view_opb
    r = ctx.rng("c12user", rseed)
    with TempDir() as tmp:
        for serial in range(count):
            n = r.randint(1, 6)
            if serial % 3 == 0:
                shown = [[r.choice([1, -1]) * r.randint(1, n) for _ in range(r.randint(0, 3))] for _ in range(r.randint(0, 5))]
                F = view_cnf(n, shown, shown[:1] + [[r.choice([1, -1]) * r.randint(1, n)] for _ in range(2)] + shown)
                origin = "user subclass of CNF"
            else:
                def row():
                    vs = r.sample(range(1, n + 1), r.randint(1, min(n, 3)))
                    return [(r.randint(1, 4), r.choice([1, -1]) * v) for v in vs] + [r.choice([">=", "=="]), r.randint(0, 4)]
                shown = [row() for _ in range(r.randint(0, 5))]
                if serial % 3 == 1:
                    F = view_opb(n, shown, [row() for _ in range(2)] + shown)
                    origin = "user subclass of OPB"
                else:
                    from cnfgen.formula.opb import OPB
                    F = OPB()
                    F.update_variable_number(n)
                    for c in shown:
                        F.add_constraint([list(t) if isinstance(t, tuple) else t for t in c])     # pairs given as lists
                    origin = "OPB rows with list pairs"
            ctx.count("user_class_formulas")
            judge_formula(ctx, F, r, tmp, 5000 + serial, None if serial % 4 == 0 else 7, origin)


class _Reentrant(io.StringIO):
    """A text stream one of whose writes (the at-th) renders another formula, into a stream of its own, before it goes on."""
    def __init__(self, inner, at=0):
        io.StringIO.__init__(self)
        self.inner, self.fired, self.at, self.calls = inner, False, at, 0

    def write(self, text):
        self.calls += 1
        if not self.fired and self.calls > self.at:
            self.fired = True
            self.inner()
        return io.StringIO.write(self, text)


class _Failing(io.StringIO):
    """A destination that accepts a number of writes and then fails, as a full disk or a closed pipe does."""
    def __init__(self, writes):
        io.StringIO.__init__(self)
        self.left = writes

    def write(self, text):
        if self.left <= 0:
            raise OSError(28, "No space left on device")
        self.left -= 1
        return io.StringIO.write(self, text)


def case_interrupted_and_nested(ctx, rseed, count):
    """(a) an export that fails because of its destination (closed stream, stream that fails after a few writes) followed by
    an ordinary export of another formula; (b) an export during which another formula is exported (the stream's write
    method does it): every text must be the rendering of its own formula."""
    r = ctx.rng("c12nest", rseed)
    with TempDir() as tmp:
        for serial in range(count):
            clsname = r.choice(["CNF", "OPB"])
            A = random_cnf(r, clsname, "small") if clsname == "CNF" else random_opb(r, clsname, "small")
            B = random_cnf(r, "CNF", "any") if r.random() < 0.5 else random_opb(r, "OPB", "any")
            memA, memB = Memory(A), Memory(B)
            if not (memA.ok and memB.ok):
                continue
            fmt = r.choice(["opb", "opb", "latex"])
            # (a) failed exports of A first
            for writes in (0, 1, 2, 5, 40):
                ctx.call(A.to_file, _Failing(writes), fmt)
            closed = io.StringIO()
            closed.close()
            ctx.call(A.to_file, closed, fmt)
            ctx.count("exports_interrupted_by_their_destination", 6)
            judge_formula(ctx, B, r, tmp, 7000 + serial, 6, "after interrupted exports of another formula")
            # (b) nested export
            fmt2 = r.choice(["opb", "latex"])
            inner_buf = io.StringIO()
            outer = _Reentrant(lambda: B.to_file(inner_buf, fmt2), at=r.choice([0, 1, 3, 8, 15, 30, 60]))
            st, val = ctx.call(A.to_file, outer, fmt)
            ctx.count("nested_exports")
            if not outer.fired:
                B.to_file(inner_buf, fmt2)         # (the outer text was shorter than that: nothing nested this time)
            else:
                ctx.count("nested_exports_in_the_middle" if outer.at else "nested_exports_at_the_start")
            if st == "exc":
                ctx.violation("render:%s:%s:raises:%s" % (fmt, memA.kind.upper(), type(val).__name__),
                              "export of a formula during which another one is exported raised %r" % (val,))
                continue
            for F_, mem_, text_, f_ in ((A, memA, outer.getvalue(), fmt), (B, memB, inner_buf.getvalue(), fmt2)):
                label = "%s to_file(%s) %s another export" % (mem_.cls, f_, "interrupted by" if F_ is A else "run inside")
                if f_ == "opb":
                    judge_opb(ctx, F_, mem_, text_, label, True, False)
                else:
                    judge_latex(ctx, F_, mem_, text_, label, "document")
            ctx.judged(("nested", memA.digest(A), memB.digest(B), fmt, fmt2), nontrivial=memA.has_literal() or memB.has_literal(),
                       sample={"outer": [memA.cls, fmt], "inner": [memB.cls, fmt2]})


def case_block_sizes(ctx, cls, sizes):
    """Formulas whose number of rows is a power of two or a small multiple of one (writers that buffer their output
    work in blocks of such sizes), and their neighbours."""
    K = classes()[cls]
    with TempDir() as tmp:
        serial = 0
        for m in sizes:
            F = K()
            n = 50
            F.update_variable_number(n)
            if cls.startswith("CNF"):
                F.add_clauses_from([[(i % n) + 1, -(((i * 7) % n) + 1)] if i % 3 else [-((i % n) + 1)] for i in range(m)], check=False)
            else:
                for i in range(m):
                    F.add_constraint([(1 + i % 3, (i % n) + 1), (2, -(((i * 7) % n) + 1)), ">=" if i % 2 else "==", 1 + i % 2], check=False)
            mem = Memory(F)
            fid = mem.digest(F)
            for how in ("explicit", "writer"):
                serial += 1
                st, out = render(ctx, F, (how, "opb", bool(serial % 2), False), tmp, serial)
                label = "%s %s(opb) of a formula with %d rows" % (cls, how, m)
                if st == "exc":
                    ctx.violation("render:opb:%s:raises:%s" % (mem.kind.upper(), type(out).__name__), "%s raised %r" % (label, out))
                else:
                    judge_opb(ctx, F, mem, out, label, bool(serial % 2), False)
                ctx.count("block_size_cases")
                ctx.judged(("block-size", cls, m, how, fid), sample={"class": cls, "rows": m, "path": how})


def case_text_sizes(ctx, cls, megabytes):
    """OPB texts of 1, 3, 4.5, 8.5 ... MiB (rows of 60-64 terms), just beyond the sizes at which writers that collect
    their output in memory hand a block over: every constraint read back must be the one in memory."""
    K = classes()[cls]
    with TempDir() as tmp:
        serial = 0
        for mb in megabytes:
            F = K()
            n = 400
            F.update_variable_number(n)
            target = int(mb * (1 << 20))
            size, i = 0, 0
            rows = []
            while size < target:
                w = 60 + i % 5
                if cls.startswith("CNF"):
                    row = [(1 if (i + j) % 3 else -1) * (((i * 13 + j * 7) % n) + 1) for j in range(w)]
                    size += sum(len(str(abs(l))) + 5 for l in row) + 8
                    rows.append(row)
                else:
                    row = [(1 + (i + j) % 3, (1 if (i + j) % 4 else -1) * (((i * 13 + j * 7) % n) + 1)) for j in range(w)]
                    size += sum(len(str(abs(l))) + 6 for _, l in row) + 8
                    rows.append(row + [">=" if i % 2 else "==", 1 + i % 3])
                i += 1
            if cls.startswith("CNF"):
                F.add_clauses_from(rows, check=False)
            else:
                for row in rows:
                    F.add_constraint(row, check=False)
            mem = Memory(F)
            fid = mem.digest(F)
            for how in ("explicit", "writer"):
                serial += 1
                st, out = render(ctx, F, (how, "opb", bool(serial % 2), False), tmp, serial)
                label = "%s %s(opb) of a formula with %d rows, about %.1f MiB of text" % (cls, how, len(rows), mb)
                if st == "exc":
                    ctx.violation("render:opb:%s:raises:%s" % (mem.kind.upper(), type(out).__name__), "%s raised %r" % (label, out))
                else:
                    ctx.count("opb_text_megabytes", len(out) >> 20)
                    judge_opb(ctx, F, mem, out, label, bool(serial % 2), False)
                ctx.count("text_size_cases")
                ctx.judged(("text-size", cls, mb, how, fid), sample={"class": cls, "rows": len(rows), "MiB": mb, "path": how})


def case_long_lines(ctx, cls):
    """Header values, descriptions and variable names far longer than a terminal line (one line each): the OPB text
    must keep them inside comments, whatever the writer does to long lines."""
    with TempDir() as tmp:
        serial = 0
        words = "the quick brown fox jumps over the lazy dog +1 x1 >= 1 ; "
        for length in (90, 99, 100, 130, 400, 2000):
            value = (words * (length // len(words) + 1))[:length].rstrip()
            for where in ("header", "description", "varname", "command-line"):
                for how in ("explicit", "extension", "writer"):
                    if where == "varname":
                        F = shield_formula(cls, name=value.replace(" ", "_"))
                    else:
                        F = shield_formula(cls)
                        if where == "header":
                            F.header["note"] = value
                        elif where == "description":
                            F.header["description"] = value
                        else:
                            F.header["command line"] = "cnfgen php 3 2 " + " ".join(["-T shuffle"] * (length // 11))
                    mem = Memory(F)
                    fid = mem.digest(F)
                    serial += 1
                    st, text = render(ctx, F, (how, "opb", True, True), tmp, serial)
                    label = "%s %s(opb, header and varnames on), %s of %d characters" % (cls, how, where, length)
                    if st == "exc":
                        ctx.violation("render:opb:%s:raises:%s" % (mem.kind.upper(), type(text).__name__), "%s raised %r" % (label, text))
                    else:
                        judge_opb(ctx, F, mem, text, label, True, True)
                    ctx.count("long_line_cases")
                    ctx.judged(("long-line", cls, where, length, how, fid), sample={"class": cls, "long": where, "length": length, "path": how})


# --------------------------------------------------------------------------- workload
FAMILY_COMMANDS = """
cnfgen php 3 2 | cnfgen php 5 4 | cnfgen bphp 3 2 | cnfgen op 3 | cnfgen op 4 --total
cnfgen tseitin first complete 4 | cnfgen peb pyramid 2 | cnfgen stone 2 pyramid 2 | cnfgen cpls 2 2 2
cnfgen kclique 2 complete 3 | cnfgen domset 2 complete 3 | cnfgen kcolor 2 complete 3 | cnfgen ram 3 3 4
cnfgen ramlb 3 3 complete 4 | cnfgen count 4 2 | cnfgen parity 4 | cnfgen matching complete 4
cnfgen subsetcard complete 3 3 | cnfgen iso complete 3 | cnfgen vdw 5 2 2 | cnfgen ptn 5
cnfgen tiling complete 4 | cnfgen rphp 3 2 2 | cnfgen cliquecoloring 4 3 2 | cnfgen kcliquebin 2 complete 3
cnfgen subgraph -G complete 3 -H complete 2 | cnfgen and 2 2 | cnfgen or 2 2 | cnfgen true | cnfgen false
cnfgen php 3 2 -T xor 2 | cnfgen php 3 2 -T lift 2 | cnfgen php 2 2 -T ite | cnfgen php 2 2 -T or 2
cnfgen php 2 2 -T maj 3 | cnfgen php 2 2 -T eq 2 | cnfgen php 2 2 -T one 2 | cnfgen php 2 2 -T exact 2 1
cnfgen php 2 2 -T flip | cnfgen op 3 -T xorcomp 3 2 | cnfgen --seed 5 randkcnf 3 6 40 | cnfgen --seed 6 randkxor 3 5 3
cnfgen pitfall 4 2 2 2 2
pbgen php 3 2 | pbgen php 6 5 | pbgen count 4 2 | pbgen parity 4 | pbgen matching complete 4
pbgen tseitin first complete 4 | pbgen subsetcard complete 3 3 | pbgen op 3 | pbgen bphp 3 2
pbgen cliquecoloring 4 3 2 | pbgen ram 3 3 4 | pbgen rphp 3 2 2 | pbgen cpls 2 2 2 | pbgen true | pbgen false
pbgen kcolor 2 complete 3 | pbgen domset 2 complete 3 | pbgen vdw 5 2 2 | pbgen stone 2 pyramid 2
"""


def family_commands():
    out = []
    for line in FAMILY_COMMANDS.strip().splitlines():
        for cmd in line.split("|"):
            if cmd.strip():
                out.append(cmd.split())
    return out


CLI_OPTIONS = [
    ("cnfgen", ["-of", "opb"]), ("cnfgen", ["-of", "opb", "-q"]), ("cnfgen", ["-of", "opb", "--varnames"]),
    ("cnfgen", ["--output-format", "opb", "-q", "--varnames"]),
    ("cnfgen", ["-of", "latex"]), ("cnfgen", ["-l"]), ("cnfgen", ["-of", "latex", "-q"]),
    ("cnfgen", ["-o", "@TMP@/out.opb"]), ("cnfgen", ["-o", "@TMP@/out.tex"]),
    ("cnfgen", ["-q", "-o", "@TMP@/out.opb", "--varnames"]), ("cnfgen", ["-of", "opb", "-o", "@TMP@/out.tex"]),
    ("cnfgen", ["-of", "latex", "-o", "@TMP@/out.opb"]), ("cnfgen", ["-of", "opb", "-o", "@TMP@/out.cnf"]),
    ("pbgen", []), ("pbgen", ["-q"]), ("pbgen", ["--varnames"]), ("pbgen", ["-of", "opb", "-q", "--varnames"]),
    ("pbgen", ["-of", "latex"]), ("pbgen", ["-l", "-q"]), ("pbgen", ["-o", "@TMP@/out.tex"]),
    ("pbgen", ["-o", "@TMP@/out.opb"]), ("pbgen", ["-o", "@TMP@/out.txt"]),
]


def cli_runs(tier, seed):
    """(tool, options, formula part) triples."""
    import random
    r = random.Random("c12-cli-%d" % seed)
    fams = family_commands()
    by_tool = {"cnfgen": [c[1:] for c in fams if c[0] == "cnfgen"],
               "pbgen": [c[1:] for c in fams if c[0] == "pbgen"]}
    by_tool["pbgen"] = [c for c in by_tool["pbgen"]]
    runs = []
    for tool, opts in CLI_OPTIONS:
        pool = by_tool[tool]
        k = 5 if tier == "quick" else len(pool)
        for rest in (r.sample(pool, min(k, len(pool)))):
            if rest[0] == "--seed":           # global options go before the family
                runs.append((tool, opts + rest[:2], rest[2:]))
            else:
                runs.append((tool, opts, rest))
    # formulas long enough for page breaks, random ones with a seed
    for tool, opts in (("cnfgen", ["-of", "latex"]), ("cnfgen", ["-of", "opb"]), ("pbgen", ["-l"]), ("pbgen", [])):
        runs.append((tool, opts, ["php", "7", "5"]))
        runs.append((tool, opts + ["--seed", str(seed + 11)], ["randkcnf", "3", "8", "75"]))
    return runs


PROCESS_RUNS = [("cnfgen", ["-of", "opb"], ["php", "3", "2"]), ("cnfgen", ["-of", "latex"], ["op", "4"]),
                ("pbgen", [], ["php", "4", "3"]), ("pbgen", ["-of", "latex", "-q"], ["subsetcard", "complete", "3", "3"]),
                ("cnfgen", ["-q", "-of", "opb", "--varnames"], ["php", "3", "2", "-T", "xor", "2"]),
                ("cnfgen", ["-l"], ["php", "7", "6"])]


def chunks(xs, k):
    for i in range(0, len(xs), k):
        yield xs[i:i + k]


LOCALE_SCRIPT = r"""
import json, os, sys, binascii
sys.path.insert(0, sys.argv[1])
import warnings; warnings.simplefilter("ignore")
from cnfgen.formula.cnf import CNF
from cnfgen.formula.opb import OPB
from cnfgen.utils.latexoutput import to_latex_document
tmp = sys.argv[2]
NAMES = ["\u03b1_1", "\u03b2^{2}", "caf\u00e9", "x_{\u56fe}", "plain", "\u00fc_{3}"]
def cnf():
    F = CNF()
    for nm in NAMES: F.new_variable(nm)
    for c in ([1, -2, 3], [-1, 4], [5, -6], [], [2]): F.add_clause(c)
    return F
def opb():
    F = OPB()
    for nm in NAMES: F.new_variable(nm)
    F.add_constraint([(2, 1), (1, -2), (3, 4), ">=", 3]); F.add_constraint([(1, 5), (1, -6), "==", 1]); F.add_clause([1, -3])
    return F
out = []
for cls, make in (("CNF", cnf), ("OPB", opb)):
    routes = [("to_file(name.tex)", ".tex", lambda F, p: F.to_file(p)),
              ("to_file(name, fileformat='latex')", ".out", lambda F, p: F.to_file(p, fileformat="latex")),
              ("to_latex_document(F, name)", ".doc", lambda F, p: to_latex_document(F, p)),
              ("to_latex_document(F, name, export_header=False, extra_text)", ".doc2",
               lambda F, p: to_latex_document(F, p, export_header=False, extra_text="\u00e9t\u00e9 \u2014 extra")),
              ("to_file(name.opb)", ".opb", lambda F, p: F.to_file(p)),
              ("to_file(name.opb, export_varnames=True)", ".v.opb", lambda F, p: F.to_file(p, export_varnames=True)),
              ("to_file(name.cnf, export_varnames=True)", ".cnf", lambda F, p: F.to_file(p, export_varnames=True))]
    for label, ext, fn in routes:
        if cls == "OPB" and ext == ".cnf":
            continue
        path = os.path.join(tmp, "f%d%s" % (len(out), ext))
        rec = {"cls": cls, "route": label}
        try:
            fn(make(), path)
            rec["status"] = "ok"
        except Exception as e:
            rec["status"] = "exc"; rec["exc"] = type(e).__name__ + ": " + str(e)[:160]
        try:
            rec["bytes"] = binascii.hexlify(open(path, "rb").read()).decode()
        except OSError:
            rec["bytes"] = None
        out.append(rec)
sys.stdout.write(json.dumps(out))
"""


def case_locale(ctx):
    """Formulas whose variable names are not ASCII, exported *by file name* from an interpreter whose default text
    encoding is not UTF-8 (LC_ALL=C with UTF-8 mode and locale coercion off): the files must be the ones written
    under UTF-8 -- the LaTeX document declares utf8 input, and its rows must show the names."""
    import binascii
    import json
    import subprocess
    import sys
    import tempfile
    import shutil
    from .. import REPO
    tmp = tempfile.mkdtemp(prefix="c12loc-")
    try:
        script = os.path.join(tmp, "locale_export.py")
        with open(script, "w", encoding="utf-8") as f:
            f.write(LOCALE_SCRIPT)
        envs = {"utf8": dict(os.environ, PYTHONUTF8="1"),
                "ascii": dict(os.environ, LC_ALL="C", LANG="C", PYTHONUTF8="0", PYTHONCOERCECLOCALE="0")}
        res = {}
        for tag, env in envs.items():
            env.pop("PYTHONPATH", None)
            d = os.path.join(tmp, tag)
            os.mkdir(d)
            p = subprocess.run([sys.executable, script, REPO, d], env=env, capture_output=True, text=True, timeout=300)
            if p.returncode != 0:
                raise RuntimeError("locale script (%s) failed: %s" % (tag, p.stderr[-500:]))
            res[tag] = json.loads(p.stdout)
            ctx.count("locale_processes")
        for a, b in zip(res["utf8"], res["ascii"]):
            where = "%s formula with non-ASCII variable names, %s, interpreter with ASCII default encoding" % (b["cls"], b["route"])
            kind = "latex" if "tex" in b["route"] or "latex" in b["route"] else ("opb" if "opb" in b["route"] else "dimacs")
            ctx.count("locale_exports")
            if a["status"] != "ok":
                ctx.violation("%s:by-name:raises" % kind, "under UTF-8: %s: %s" % (a["route"], a.get("exc")))
                continue
            text = binascii.unhexlify(a["bytes"]).decode("utf-8")
            if kind == "latex" and not all(nm in text for nm in ("\u03b1_1", "caf\u00e9", "\u56fe")):
                ctx.violation("latex:by-name:names-not-shown", "under UTF-8: %s: the document does not show the variable names" % a["route"])
            if b["status"] != "ok":
                ctx.violation("%s:by-name:locale:raises" % kind, "%s: %s" % (where, b.get("exc")))
            elif b["bytes"] != a["bytes"]:
                ctx.violation("%s:by-name:locale:another-file" % kind, "%s: the file differs from the one written under UTF-8 "
                              "(%d vs %d bytes)" % (where, len(b["bytes"] or "") // 2, len(a["bytes"]) // 2))
            ctx.judged(("locale", b["cls"], b["route"]), nontrivial=True, sample={"class": b["cls"], "route": b["route"]})
    finally:
        shutil.rmtree(tmp, ignore_errors=True)


def case_dead_address(ctx):
    """A formula is rendered and dropped; the interpreter then places another formula -- same class, same number of
    variables, other names, other rows -- at the address of the dead one.  Its renderings must show its own names."""
    import gc
    from .. import semantic as S
    from cnfgen.formula.cnf import CNF
    from cnfgen.formula.opb import OPB
    for K in (CNF, OPB):
        for size in (40, 1000, 1300, 2500):
            F1 = K()
            b1 = F1.new_block(size, label="p_{{{}}}")
            F1.add_clause([b1(1), -b1(size)])
            F1.add_clause([b1(2)])
            texts1 = (F1.to_latex(), F1.to_opb())
            dead = id(F1)
            del F1, b1
            gc.collect()
            F2 = S.at_the_address_of(dead, K)
            if F2 is None:
                ctx.count("dead_address_not_handed_out_again")
                continue
            ctx.count("formulas_at_the_address_of_a_dead_one")
            b2 = F2.new_block(size, label="q_{{{}}}")
            F2.add_clause([-b2(1), b2(size), b2(3)])
            for how, text in (("to_latex()", F2.to_latex()), ("to_opb(export_varnames)", None)):
                if text is None:
                    buf = io.StringIO()
                    F2.to_file(buf, fileformat="opb", export_varnames=True)
                    text = buf.getvalue()
                ctx.count("renderings_at_a_dead_address")
                if "p_{" in text or "p}_{" in text or "q" not in text:
                    ctx.violation("%s:shows-the-names-of-a-dead-formula" % ("latex" if "latex" in how else "opb"),
                                  "%s formula with %d variables q_{i}, created at the address of a collected formula with variables p_{i} "
                                  "that had been rendered: %s shows %r" % (K.__name__, size, how, [t for t in text.split() if "_{" in t][:4]))
            if K is CNF:
                mem = None
            ctx.judged(("dead-address", K.__name__, size), nontrivial=True, sample={"class": K.__name__, "variables": size})


def workload(tier, seed):
    quick = tier == "quick"
    for cls in ("CNF", "OPB"):
        for mbs in ([4.5], [8.5], [1.1, 2.2]) if quick else ([4.5], [8.5], [16.5], [1.1, 2.2, 3.3], [33]):
            yield "text_sizes", {"cls": cls, "megabytes": mbs}
    yield "tiny", {}
    yield "locale", {}
    yield "dead_address", {}
    for cls in ("CNF", "OPB"):
        for where in ("header", "varname"):
            yield "shield", {"cls": cls, "where": where}
    for b in range(3 if quick else 40):
        yield "user_classes", {"rseed": seed * 100 + b, "count": 30}
        yield "interrupted_and_nested", {"rseed": seed * 100 + b, "count": 25}
    for cls in ("CNF", "OPB"):
        yield "long_lines", {"cls": cls}
        yield "header_values", {"cls": cls}
        # every row count in a range (a fast path may start at any unremarkable size): a stride in quick, all in thorough
        lo_hi = list(range(seed % 7, 2300, 7)) if quick else list(range(0, 5200))
        for i in range(0, len(lo_hi), 60):
            yield "block_sizes", {"cls": cls, "sizes": lo_hi[i:i + 60]}
        for sizes in ([[256, 4096, 8192], [8191, 8193, 16384], [65536]] if quick else
                      [[1 << k, (1 << k) + 1, (1 << k) - 1] for k in range(8, 18)] + [[3 << 12, 3 << 13, 5 << 13], [3 << 15, 1 << 18]]):
            yield "block_sizes", {"cls": cls, "sizes": sizes}
    for ch in chunks(PROCESS_RUNS, 2 if quick else 1):
        yield "process", {"runs": [list(x) for x in ch]}
    for ch in chunks(cli_runs(tier, seed), 5):
        yield "cli", {"runs": [list(x) for x in ch]}
    for ch in chunks(family_commands(), 3):
        yield "family", {"argvs": ch, "npaths": 9 if quick else None}
    batches = 12 if quick else 150
    for cls in ("CNF", "OPB", "CNFio", "OPBio"):
        main = cls in ("CNF", "OPB")
        for profile in ("small", "any", "pages"):
            nb = batches if main else max(1, batches // 5)
            for b in range(nb):
                yield "random", {"cls": cls, "profile": profile, "rseed": seed * 10000 + b,
                                 "count": {"small": 60, "any": 40, "pages": 25}[profile],
                                 "npaths": 7}
